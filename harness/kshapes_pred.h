/* C07 harness shape handlers, group 'pred'. Included by kernels_shapes.h
 *
 * directional intra prediction, intra edge filters / upsampling, filter-intra predictor, CDEF, quantizers,
 * entropy-coding helpers, palette k-means.  The DOMAIN of every handler is documented in xlate/kernel_handlers_pred.py.
 */
#ifndef VERIF_KSHAPES_PRED_H
#define VERIF_KSHAPES_PRED_H

#include "EbIntraPrediction.h"
#include "EbCdef.h"
#include "EbPictureControlSet.h"
#include "EbFullLoop.h"

static int k_env(const char *name) { const char *s = getenv(name); return s && s[0] == '1'; }

/* the 19 transform sizes in TxSize order */
static const int k_pred_tx[19][2] = { {4,4},{8,8},{16,16},{32,32},{64,64},{4,8},{8,4},{8,16},{16,8},{16,32},{32,16},{32,64},{64,32},
                                      {4,16},{16,4},{8,32},{32,8},{16,64},{64,16} };

/* ------------------------------------------------------------------ wrapper thunk
 * Some SIMD kernels work IN PLACE on an edge array and, by design, also overwrite a documented "clobber zone" next to the
 * samples they are asked to produce (e.g. svt_av1_filter_intra_edge_sse4_1 writes p[-1] and p[sz..sz+15]).  The runtime can only
 * compare whole buffers, so such a kernel runs on a KB_SCRATCH array through this wrapper: after the real thunk returned, the
 * whole array is copied to a KB_OUT "mirror" buffer in which the clobber zone is blanked.  The mirror is what the runtime
 * compares: every element of the array outside the clobber zone, i.e. the outputs AND everything that must stay untouched.
 * ext=1 on the command line (or KPRED_STRICT=1 in the environment) disables the blanking (then the clobber itself is reported). */
typedef struct KWrap {
    const Entry *real;
    uint8_t *arr, *mirror;    /* start of the array / of the mirror (same geometry) */
    size_t   bytes;
    int      nz;              /* clobber zones, byte ranges relative to arr */
    size_t   z0[4], z1[4];
    const int16_t *scan;      /* byte arrays indexed through a scan table: elements scan[scan_from..scan_n-1] are clobber zone */
    int      scan_from, scan_n;
} KWrap;
static KWrap k_wrap;
static int k_wrap_strict;   /* set per case by k_wrap_exec: ext=1 on the command line (or KPRED_STRICT=1 in the environment) */
static int k_strict(void) { return k_wrap_strict; }
static void k_wrap_thunk(int v, Args *a) {
    k_wrap.real->thunk(v, a);
    memcpy(k_wrap.mirror, k_wrap.arr, k_wrap.bytes);
    if (!k_strict()) {
        for (int i = 0; i < k_wrap.nz; i++) memset(k_wrap.mirror + k_wrap.z0[i], 0, k_wrap.z1[i] - k_wrap.z0[i]);
        if (k_wrap.scan) for (int i = k_wrap.scan_from; i < k_wrap.scan_n; i++) k_wrap.mirror[k_wrap.scan[i]] = 0;
    }
}
static void k_wrap_zone(int elem, int org, int first, int last) {   /* element range [first,last] relative to element `org` */
    int i = k_wrap.nz++;
    k_wrap.z0[i] = (size_t)(org + first) * elem; k_wrap.z1[i] = (size_t)(org + last + 1) * elem;
}
static void k_wrap_exec(Cx *cx, const Entry *e, Args *a, Buf *arr, Buf *mirror) {
    Entry fake = *e;
    fake.thunk = k_wrap_thunk;
    k_wrap.real = e; k_wrap.arr = arr->p; k_wrap.mirror = mirror->p; k_wrap.bytes = (size_t)arr->w * arr->elem;
    k_wrap_strict = cx->ext || k_env("KPRED_STRICT");
    cx->e = &fake;
    kc_exec(cx, a);
    cx->e = e;
    k_wrap.nz = 0; k_wrap.scan = NULL;
}

/* ------------------------------------------------------------------ directional intra prediction z1 / z2 / z3
 * k[0] zone 1..3, k[1] 16-bit.  Everything is derived as the callers do (build_intra_predictors[_high] -> [highbd_]dr_predictor):
 *   p_angle = mode_to_angle_map[mode] + 3*angle_delta, angle_delta in -3..3 ; dx/dy = eb_dr_intra_derivative[..]
 *   upsample_above/left = use_intra_edge_upsample(.., filt_type) or 0 when the edge filter is disabled
 *   above_row / left_col = 16-byte aligned array + 16 samples; valid samples: [-1 .. n-1] (or [-2 .. 2n-2] when upsampled) with
 *   n = bw+bh for the edge of z1/z3, n = bw (above) / bh (left) for z2; all other array elements are uninitialised stack in the
 *   encoder = random garbage here (C never reads them) */
extern const uint16_t eb_dr_intra_derivative[90];
static int k_dr_angles(int zone, int *out) {
    static const int base[8] = { 45, 67, 90, 113, 135, 157, 180, 203 };   /* D45 D67 V D113 D135 D157 H D203 */
    int n = 0;
    for (int b = 0; b < 8; b++)
        for (int d = -MAX_ANGLE_DELTA; d <= MAX_ANGLE_DELTA; d++) {
            int a = base[b] + d * ANGLE_STEP;
            if ((zone == 1 && a > 0 && a < 90) || (zone == 2 && a > 90 && a < 180) || (zone == 3 && a > 180 && a < 270)) out[n++] = a;
        }
    return n;
}
static void h_dr_pred(Cx *cx, const Entry *e) {
    const int zone = e->k[0], hbd = e->k[1], elem = hbd ? 2 : 1;
    static const int bds[3] = { 8, 10, 12 };
    static const int rot[6] = { 0, 2, 3, 5, 8, 9 };
    int angles[32]; const int na = k_dr_angles(zone, angles);
    /* 16-bit z2: bd=12 is excluded (outside the encoder's domain, and the 12-bit 4xN path of the AVX2 kernel is wrong);
     * ext=1 (or KPRED_Z2_BD12=1) runs it; the cases are always enumerated so that case indices do not depend on it */
    const int nbd = !hbd ? 1 : 3;
    for (int pass = 0; pass < cx->passes; pass++)
        for (int bdi = 0; bdi < nbd; bdi++)
            for (int zi = 0; zi < 19; zi++)
                for (int ai = 0; ai < na; ai++)
                    for (int em = 0; em < 3; em++) {   /* 0: edge filter disabled; 1/2: enabled with filt_type 0/1 */
                        const int W = k_pred_tx[zi][0], H = k_pred_tx[zi][1], angle = angles[ai];
                        int upa[3], upl[3];
                        upa[0] = upl[0] = 0;
                        for (int t = 0; t < 2; t++) {
                            upa[t + 1] = zone == 3 ? 0 : use_intra_edge_upsample(W, H, angle - 90, t);
                            upl[t + 1] = zone == 1 ? 0 : use_intra_edge_upsample(H, W, angle - 180, t);
                        }
                        int dup = 0;
                        for (int t = 0; t < em; t++) if (upa[t] == upa[em] && upl[t] == upl[em]) dup = 1;
                        if (dup) continue;
                        const int up_a = upa[em], up_l = upl[em];
                        for (int pat = 0; pat < KP2_N; pat++) {
                            if (pass == 0) { if (!(pat == 1 || pat == 4 || pat == 6 || pat == 7 || pat == rot[(zi + ai + bdi) % 6])) continue; }
                            else if (!(pat == 6 || pat == 7)) continue;
                            if (hbd && pass == 0 && (pat == 4 || pat == 7) && ((zi + ai + bdi) & 1)) continue;
                            if (!kc_case(cx)) continue;
                            const int bd = hbd ? bds[bdi] : 8;
                            if (hbd && zone == 2 && bd == 12 && !cx->ext && !k_env("KPRED_Z2_BD12")) {
                                kc_par(cx, "w", W); kc_par(cx, "h", H); kc_par(cx, "angle", angle); kc_par(cx, "bd", bd);
                                kc_exclude(cx); continue;
                            }
                            const int64_t hi = (1 << bd) - 1;
                            int dx = 1, dy = 1;
                            if (zone == 1) dx = eb_dr_intra_derivative[angle];
                            else if (zone == 2) { dx = eb_dr_intra_derivative[180 - angle]; dy = eb_dr_intra_derivative[angle - 90]; }
                            else dy = eb_dr_intra_derivative[270 - angle];
                            const int stride = k_stride_any(cx, (int)kr_n(cx, 4), W);
                            int pa, pb; kp2(pat, &pa, &pb);
                            kc_par(cx, "w", W); kc_par(cx, "h", H); kc_par(cx, "angle", angle); kc_par(cx, "dx", dx); kc_par(cx, "dy", dy);
                            kc_par(cx, "up_above", up_a); kc_par(cx, "up_left", up_l); kc_par(cx, "bd", bd); kc_par(cx, "stride", stride); kc_par(cx, "pat", pat);
                            cx->next_off = (int)kr_n(cx, 64);
                            Buf *dst = kb(cx, "dst", KB_OUT, elem, 0, W, H, stride);
                            cx->next_align = kr_n(cx, 2) ? 16 : 64;
                            Buf *ab = kb(cx, "above", KB_IN, elem, 0, 160, 1, 160);
                            cx->next_align = kr_n(cx, 2) ? 16 : 64;
                            Buf *lf = kb(cx, "left", KB_IN, elem, 0, 160, 1, 160);
                            const int na_px = zone == 1 ? W + H : zone == 2 ? W : 0;
                            const int nl_px = zone == 3 ? W + H : zone == 2 ? H : 0;
                            if (na_px) { if (up_a) kb_fill_rect(cx, ab, 14, 0, 2 * na_px + 1, 1, pa, 0, hi); else kb_fill_rect(cx, ab, 15, 0, na_px + 1, 1, pa, 0, hi); }
                            if (nl_px) { if (up_l) kb_fill_rect(cx, lf, 14, 0, 2 * nl_px + 1, 1, pb, 0, hi); else kb_fill_rect(cx, lf, 15, 0, nl_px + 1, 1, pb, 0, hi); }
                            /* the top-left sample is shared: left_col[-1] = above_row[-1] before upsampling moves it to [-2] */
                            const int tla = up_a ? 14 : 15, tll = up_l ? 14 : 15;
                            if (zone == 3) kb_set(ab, 15, 0, kb_get(lf, tll, 0)); else kb_set(lf, tll, 0, kb_get(ab, tla, 0));
                            Args a; memset(&a, 0, sizeof(a));
                            a.p[0] = dst->p; a.p[1] = ab->p + 16 * elem; a.p[2] = lf->p + 16 * elem;
                            int n = 0;
                            a.i[n++] = stride; a.i[n++] = W; a.i[n++] = H;
                            if (zone != 3) a.i[n++] = up_a;
                            if (zone != 1) a.i[n++] = up_l;
                            a.i[n++] = dx; a.i[n++] = dy;
                            if (hbd) a.i[n++] = bd;
                            kc_exec(cx, &a);
                        }
                    }
}

/* ------------------------------------------------------------------ intra edge filter (k[0]=0, k[1]=hbd) and edge upsampling (k[0]=1)
 * in place on above_row-1 / left_col-1 (filter) or above_row / left_col (upsample) of a 160-sample, 16-byte aligned array. */
static void h_intra_edge(Cx *cx, const Entry *e) {
    const int ups = e->k[0], hbd = e->k[1], elem = hbd ? 2 : 1;
    static const int bds[3] = { 8, 10, 12 };
    static const int pats[] = { KP_LO, KP_HI, KP_CHECK, KP_CHECK_INV, KP_RAMP, KP_RAMP_REV, KP_RAND, KP_OUTLIER, KP_NEAR, KP_CONST };
    const int nsz = ups ? 4 : 32;
    for (int pass = 0; pass < cx->passes; pass++)
        for (int bdi = 0; bdi < (hbd ? 3 : 1); bdi++)
            for (int szi = 1; szi <= nsz; szi++)
                for (int strength = ups ? 1 : 0; strength <= (ups ? 1 : 3); strength++)
                    for (int pi = 0; pi < KARRAY(pats) * (ups ? 40 : 1); pi++) {
                        const int pat = pats[pi % KARRAY(pats)];
                        if (K_SKIP1(pass, pat) || (pi >= KARRAY(pats) && !kp_random(pat))) continue;
                        if (!ups && strength == 0 && pat != KP_RAND) continue;
                        if (!kc_case(cx)) continue;
                        const int bd = hbd ? bds[bdi] : 8;
                        const int64_t hi = (1 << bd) - 1;
                        const int sz = ups ? 4 * szi : 4 * szi + 1;
                        const int org = ups ? 16 : 15;           /* p = array + org */
                        kc_par(cx, "sz", sz); if (!ups) kc_par(cx, "strength", strength); kc_par(cx, "bd", bd); kc_par(cx, "pat", pat);
                        cx->next_align = kr_n(cx, 2) ? 16 : 64;
                        Buf *arr = kb(cx, "edge", KB_SCRATCH, elem, 0, 160, 1, 160);
                        Buf *mir = kb(cx, "edge_after", KB_OUT, elem, 0, 160, 1, 160);
                        /* valid input: filter p[0..sz-1]; upsample p[-1..sz-1]; the rest of the array stays random garbage */
                        if (ups) kb_fill_rect(cx, arr, org - 1, 0, sz + 1, 1, pat, 0, hi); else kb_fill_rect(cx, arr, org, 0, sz, 1, pat, 0, hi);
                        k_wrap.nz = 0;
                        if (!ups) { k_wrap_zone(elem, org, -1, -1); k_wrap_zone(elem, org, sz, sz + 16 / elem - 1); }
                        else k_wrap_zone(elem, org, 2 * sz - 1, sz == 16 ? 61 : 29);
                        Args a; memset(&a, 0, sizeof(a));
                        a.p[0] = arr->p + org * elem; a.i[0] = sz; a.i[1] = strength;
                        k_wrap_exec(cx, e, &a, arr, mir);
                    }
}

/* ------------------------------------------------------------------ filter-intra predictor (8-bit) */
static void h_filter_intra(Cx *cx, const Entry *e) {
    (void)e;
    for (int pass = 0; pass < cx->passes; pass++)
        for (int zi = 0; zi < 19; zi++)
            for (int mode = 0; mode < FILTER_INTRA_MODES; mode++)
                for (int pat = 0; pat < KP2_N; pat++) {
                    const int W = k_pred_tx[zi][0], H = k_pred_tx[zi][1];
                    if (W > 32 || H > 32) continue;
                    if (K_SKIP2(pass, pat)) continue;
                    if (!kc_case(cx)) continue;
                    const int stride = k_stride_any(cx, (int)kr_n(cx, 4), W);
                    int pa, pb; kp2(pat, &pa, &pb);
                    kc_par(cx, "w", W); kc_par(cx, "h", H); kc_par(cx, "mode", mode); kc_par(cx, "stride", stride); kc_par(cx, "pat", pat);
                    cx->next_off = (int)kr_n(cx, 64);
                    Buf *dst = kb(cx, "dst", KB_OUT, 1, 0, W, H, stride);
                    cx->next_align = kr_n(cx, 2) ? 16 : 64;
                    Buf *ab = kb(cx, "above", KB_IN, 1, 0, 160, 1, 160);
                    cx->next_align = kr_n(cx, 2) ? 16 : 64;
                    Buf *lf = kb(cx, "left", KB_IN, 1, 0, 160, 1, 160);
                    kb_fill_rect(cx, ab, 15, 0, W + 1, 1, pa, 0, 255);
                    kb_fill_rect(cx, lf, 15, 0, H + 1, 1, pb, 0, 255);
                    kb_set(lf, 15, 0, kb_get(ab, 15, 0));
                    Args a; memset(&a, 0, sizeof(a));
                    a.p[0] = dst->p; a.p[1] = ab->p + 16; a.p[2] = lf->p + 16;
                    a.i[0] = stride; a.i[1] = k_txsize(W, H); a.i[2] = mode;
                    kc_exec(cx, &a);
                }
}

/* ================================================================== CDEF
 * pixel content generators for CDEF: the standard patterns plus the unit test's "level + noise of `bits` bits" (near-flat
 * content is what makes the constrain() thresholds matter) and oriented stripes (drive svt_cdef_find_dir to every direction) */
enum { KCP_LO = 0, KCP_HI, KCP_CHECK, KCP_COLS, KCP_ROWS, KCP_RAMP, KCP_RAND, KCP_OUTLIER, KCP_NOISE, KCP_NOISE2, KCP_STRIPE, KCP_STRIPE2, KCP_N };
static int kcp_random(int p) { return p >= KCP_RAND; }
static void k_cdef_fill(Cx *cx, Buf *b, int x0, int y0, int w, int h, int pat, int64_t mx) {
    static const int map[] = { KP_LO, KP_HI, KP_CHECK, KP_COLS, KP_ROWS, KP_RAMP, KP_RAND, KP_OUTLIER };
    if (pat < KCP_NOISE) { kb_fill_rect(cx, b, x0, y0, w, h, map[pat], 0, mx); return; }
    int bits = 1, bd = 0; while ((1 << bd) <= mx) bd++;
    bits = 1 + (int)kr_n(cx, (uint32_t)bd);
    const int64_t level = kr_range(cx, 0, mx);
    const int cxx = (int)kr_range(cx, -3, 3), cyy = (int)kr_range(cx, -3, 3), sh = (int)kr_n(cx, 3);
    const int64_t lo = kr_range(cx, 0, mx), hi = kr_range(cx, 0, mx);
    const int nz = (int)kr_n(cx, 3);
    for (int y = 0; y < h; y++)
        for (int x = 0; x < w; x++) {
            int64_t v;
            if (pat == KCP_NOISE || pat == KCP_NOISE2) v = (int64_t)(kr(cx) & ((1u << bits) - 1)) + level;
            else {
                v = (((x * cxx + y * cyy + 64) >> sh) & 1) ? hi : lo;
                if (nz) v += kr_range(cx, -nz, nz);
            }
            if (v < 0) v = 0;
            if (v > mx) v = mx;
            kb_set(b, x0 + x, y0 + y, v);
        }
}

/* svt_cdef_find_dir(img, stride, *var, coeff_shift) -> direction */
static void h_cdef_find_dir(Cx *cx, const Entry *e) {
    (void)e;
    for (int pass = 0; pass < cx->passes; pass++)
        for (int cs = 0; cs <= 2; cs += 2)
            for (int si = 0; si < 2; si++)
                for (int rep = 0; rep < 40; rep++)
                    for (int pat = 0; pat < KCP_N; pat++) {
                        if ((pass > 0 || rep > 0) && !kcp_random(pat)) continue;
                        if (!kc_case(cx)) continue;
                        const int stride = si == 0 ? CDEF_BSTRIDE : k_stride_any(cx, (int)kr_n(cx, 4), 8);
                        const int64_t mx = (256 << cs) - 1;
                        kc_par(cx, "coeff_shift", cs); kc_par(cx, "stride", stride); kc_par(cx, "pat", pat);
                        cx->next_off = (int)kr_n(cx, 64);
                        Buf *img = kb(cx, "img", KB_IN, 2, 0, 8, 8, stride);
                        Buf *var = kb(cx, "var", KB_OUT, 4, 1, 1, 1, 1);
                        k_cdef_fill(cx, img, 0, 0, 8, 8, pat, mx);
                        Args a; memset(&a, 0, sizeof(a));
                        a.p[0] = img->p; a.p[1] = var->p; a.i[0] = stride; a.i[1] = cs;
                        kc_exec(cx, &a);
                    }
}

/* svt_cdef_filter_block(dst8, dst16, dstride, in, pri_strength, sec_strength, dir, pri_damping, sec_damping, bsize, coeff_shift) */
static void h_cdef_filter_block(Cx *cx, const Entry *e) {
    static const int bsz[4][3] = { { BLOCK_8X8, 8, 8 }, { BLOCK_4X4, 4, 4 }, { BLOCK_4X8, 4, 8 }, { BLOCK_8X4, 8, 4 } };
    static const int secs[4] = { 0, 1, 2, 4 };
    (void)e;
    for (int pass = 0; pass < cx->passes; pass++)
        for (int mode = 0; mode < 3; mode++)          /* 0: 8-bit dst, coeff_shift 0; 1: 16-bit dst, shift 0; 2: 16-bit dst, shift 2 */
            for (int bi = 0; bi < 4; bi++)
                for (int seci = 0; seci < 4; seci++)
                    for (int dir0 = 0; dir0 < 8; dir0++)
                        for (int pat = 0; pat < KCP_N - 2; pat++) {
                            if (pass > 0 && !kcp_random(pat)) continue;
                            if (!kc_case(cx)) continue;
                            const int cs = mode == 2 ? 2 : 0, W = bsz[bi][1], H = bsz[bi][2];
                            const int64_t mx = (256 << cs) - 1;
                            /* plane: 8x8 blocks are luma in 4:2:0; the 4-wide/4-high sizes only exist for chroma */
                            const int pli = bi == 0 ? ((int)kr_n(cx, 8) == 0) : 1;
                            const int level = kr_n(cx, 4) == 0 ? 0 : (int)kr_n(cx, 16);
                            const int t = level << cs;
                            /* luma: adjust_strength(t, var) = (t * (4 + i) + 8) >> 4, i in 0..12, or 0 when var == 0 */
                            int pri = t;
                            if (!pli) { int i = (int)kr_n(cx, 14); pri = i == 13 ? 0 : (t * (4 + i) + 8) >> 4; }
                            const int sec = secs[seci] << cs;
                            const int dir = t ? dir0 : 0;
                            const int dq = 3 + (int)kr_n(cx, 4);                /* 3 + (base_q_idx >> 6) */
                            const int pri_damping = dq + cs - (pli != 0);
                            const int sec_damping = kr_n(cx, 8) == 0 ? 3 + (int)kr_n(cx, 4) + cs - (pli != 0) : pri_damping;
                            const int packed = (int)kr_n(cx, 2);
                            const int dstride = packed ? W : k_stride_any(cx, 1 + (int)kr_n(cx, 3), W);
                            const int col = CDEF_HBORDER + W * (int)kr_n(cx, (uint32_t)(128 / W));
                            /* picture borders: whole sides are CDEF_VERY_LARGE (frame edge), corners follow their sides; sometimes a corner alone */
                            int sides = kr_n(cx, 2) ? 0 : (int)kr_n(cx, 16), corner = kr_n(cx, 8) == 0 ? 1 + (int)kr_n(cx, 4) : 0;
                            kc_par(cx, "dst16", mode != 0); kc_par(cx, "coeff_shift", cs); kc_par(cx, "w", W); kc_par(cx, "h", H); kc_par(cx, "pli", pli);
                            kc_par(cx, "pri", pri); kc_par(cx, "sec", sec); kc_par(cx, "dir", dir); kc_par(cx, "pri_damping", pri_damping);
                            kc_par(cx, "sec_damping", sec_damping); kc_par(cx, "dstride", dstride); kc_par(cx, "col", col);
                            kc_par(cx, "sides", sides); kc_par(cx, "corner", corner); kc_par(cx, "pat", pat);
                            cx->next_align = 32;
                            Buf *in = kb(cx, "in", KB_IN, 2, 0, CDEF_BSTRIDE, H + 2 * CDEF_VBORDER, CDEF_BSTRIDE);
                            k_cdef_fill(cx, in, 0, 0, CDEF_BSTRIDE, H + 2 * CDEF_VBORDER, pat, mx);
                            const int x0 = col - CDEF_HBORDER, x1 = col + W, xe = x1 + CDEF_HBORDER > CDEF_BSTRIDE ? CDEF_BSTRIDE : x1 + CDEF_HBORDER;
                            const int y1 = CDEF_VBORDER + H, ye = H + 2 * CDEF_VBORDER;
                            const int L = sides & 1, R = (sides >> 1) & 1, T = (sides >> 2) & 1, B = (sides >> 3) & 1;
                            if (T) kb_fill_rect(cx, in, col, 0, W, CDEF_VBORDER, KP_LO, CDEF_VERY_LARGE, CDEF_VERY_LARGE);
                            if (B) kb_fill_rect(cx, in, col, y1, W, ye - y1, KP_LO, CDEF_VERY_LARGE, CDEF_VERY_LARGE);
                            if (L) kb_fill_rect(cx, in, x0, CDEF_VBORDER, CDEF_HBORDER, H, KP_LO, CDEF_VERY_LARGE, CDEF_VERY_LARGE);
                            if (R) kb_fill_rect(cx, in, x1, CDEF_VBORDER, xe - x1, H, KP_LO, CDEF_VERY_LARGE, CDEF_VERY_LARGE);
                            if (T || L || corner == 1) kb_fill_rect(cx, in, x0, 0, CDEF_HBORDER, CDEF_VBORDER, KP_LO, CDEF_VERY_LARGE, CDEF_VERY_LARGE);
                            if (T || R || corner == 2) kb_fill_rect(cx, in, x1, 0, xe - x1, CDEF_VBORDER, KP_LO, CDEF_VERY_LARGE, CDEF_VERY_LARGE);
                            if (B || L || corner == 3) kb_fill_rect(cx, in, x0, y1, CDEF_HBORDER, ye - y1, KP_LO, CDEF_VERY_LARGE, CDEF_VERY_LARGE);
                            if (B || R || corner == 4) kb_fill_rect(cx, in, x1, y1, xe - x1, ye - y1, KP_LO, CDEF_VERY_LARGE, CDEF_VERY_LARGE);
                            cx->next_off = (int)kr_n(cx, 64);
                            Buf *dst = kb(cx, mode ? "dst16" : "dst8", KB_OUT, mode ? 2 : 1, 0, W, H, dstride);
                            Args a; memset(&a, 0, sizeof(a));
                            a.p[0] = mode ? NULL : dst->p; a.p[1] = mode ? dst->p : NULL;
                            a.p[2] = in->p + ((size_t)CDEF_VBORDER * CDEF_BSTRIDE + col) * 2;
                            a.i[0] = dstride; a.i[1] = pri; a.i[2] = sec; a.i[3] = dir; a.i[4] = pri_damping; a.i[5] = sec_damping;
                            a.i[6] = bsz[bi][0]; a.i[7] = cs;
                            kc_exec(cx, &a);
                        }
}

/* svt_compute_cdef_dist_8bit / _16bit (dst = source picture area, dstride, src = packed filtered blocks, dlist, cdef_count, bsize, coeff_shift, pli) */
static void h_cdef_dist(Cx *cx, const Entry *e) {
    static const int bsz[4][3] = { { BLOCK_8X8, 8, 8 }, { BLOCK_4X4, 4, 4 }, { BLOCK_4X8, 4, 8 }, { BLOCK_8X4, 8, 4 } };
    const int hbd = e->k[0], elem = hbd ? 2 : 1;
    for (int pass = 0; pass < cx->passes; pass++)
        for (int csi = 0; csi < (hbd ? 2 : 1); csi++)
            for (int bi = 0; bi < 4; bi++)
                for (int pli = 0; pli < 3; pli++)
                    for (int ci = 0; ci < 4; ci++)
                        for (int pat = 0; pat < KP2_N; pat++) {
                            if (K_SKIP2(pass, pat)) continue;
                            if (pass == 0 && ci >= 2 && !kp2_random(pat)) continue;
                            if (!kc_case(cx)) continue;
                            const int cs = csi ? 2 : 0, W = bsz[bi][1], H = bsz[bi][2];
                            const int64_t mx = (256 << cs) - 1;
                            const int nb = ci == 3 ? 16 : 8;        /* 64x64 filter block: 8x8 units; 128x128 superblock: 16x16 */
                            /* ci 0: every unit; 1: a single unit; 2,3: random subset (raster order, as svt_sb_compute_cdef_list builds it) */
                            CdefList *dl = kc_alloc(cx, sizeof(CdefList) * 256, 16);
                            int count = 0;
                            const int keep = 1 + (int)kr_n(cx, 8), one = (int)kr_n(cx, (uint32_t)(nb * nb));
                            for (int r = 0; r < nb; r++)
                                for (int c = 0; c < nb; c++) {
                                    int take = ci == 0 ? 1 : ci == 1 ? (r * nb + c == one) : ((int)kr_n(cx, 8) < keep);
                                    if (take) { dl[count].by = (uint8_t)r; dl[count].bx = (uint8_t)c; dl[count].skip = 0; count++; }
                                }
                            if (!count) { dl[0].by = (uint8_t)(one / nb); dl[0].bx = (uint8_t)(one % nb); count = 1; }
                            const int PW = nb * W, PH = nb * H;
                            const int stride = k_stride_any(cx, (int)kr_n(cx, 4), PW);
                            int pa, pb; kp2(pat, &pa, &pb);
                            kc_par(cx, "w", W); kc_par(cx, "h", H); kc_par(cx, "pli", pli); kc_par(cx, "coeff_shift", cs); kc_par(cx, "nb", nb);
                            kc_par(cx, "count", count); kc_par(cx, "dstride", stride); kc_par(cx, "pat", pat);
                            cx->next_off = (int)kr_n(cx, 64);
                            Buf *pic = kb(cx, "dst_picture", KB_IN, elem, 0, PW, PH, stride);
                            cx->next_align = 32;
                            Buf *blk = kb(cx, "src_blocks", KB_IN, elem, 0, count * W * H, 1, count * W * H);
                            kb_fill(cx, pic, pa, 0, mx); kb_fill(cx, blk, pb, 0, mx);
                            Args a; memset(&a, 0, sizeof(a));
                            a.p[0] = pic->p; a.p[1] = blk->p; a.p[2] = dl;
                            a.i[0] = stride; a.i[1] = count; a.i[2] = bsz[bi][0]; a.i[3] = cs; a.i[4] = pli;
                            kc_exec(cx, &a);
                        }
}

/* ================================================================== quantizers
 * k[0]: 0 svt_aom_quantize_b (8-bit), 1 svt_aom_highbd_quantize_b, 2 svt_av1_quantize_fp / _32x32 / _64x64 (8-bit; k[1] = log_scale
 * of the entry), 3 svt_av1_highbd_quantize_fp.  Everything as av1_quantize_inv_quantize sets it up: tables = rows [qindex] of the
 * Quants / Dequants that svt_av1_build_quantizer(bd, 0,0,0,0,0) fills (8 x int16, 16-byte aligned, [0]=DC, [1..7]=AC); scan/iscan of
 * av1_scan_orders[tx_size][tx_type]; n_coeffs = av1_get_max_eob(tx_size); log_scale = av1_get_tx_scale_tab[tx_size]; qmatrix NULL. */
void svt_av1_build_quantizer(AomBitDepth bit_depth, int32_t y_dc_delta_q, int32_t u_dc_delta_q, int32_t u_ac_delta_q,
                             int32_t v_dc_delta_q, int32_t v_ac_delta_q, Quants *const quants, Dequants *const deq);
static Quants   k_quants[2];
static Dequants k_deq[2];
static void k_quant_tables(void) {
    static int done = 0;
    if (done) return;
    svt_av1_build_quantizer(AOM_BITS_8, 0, 0, 0, 0, 0, &k_quants[0], &k_deq[0]);
    svt_av1_build_quantizer(AOM_BITS_10, 0, 0, 0, 0, 0, &k_quants[1], &k_deq[1]);
    done = 1;
}
static Buf *k_qrow(Cx *cx, const char *name, const int16_t *row) {
    cx->next_align = 16;
    Buf *b = kb(cx, name, KB_IN, 2, 1, 8, 1, 8);
    memcpy(b->p, row, 16);
    return b;
}
static void h_quantize(Cx *cx, const Entry *e) {
    const int kind = e->k[0], fp_scale = e->k[1];
    const int hbd = (kind == 1 || kind == 3), fp = kind >= 2;
    /* coefficient content: 0..3 forward transform of a residual pattern with amplitude (2^bd-1) >> {0,2,4,6};
     * 4 sparse coefficients around the quantizer thresholds; 5 dense small coefficients around the thresholds; 6 all zero */
    k_quant_tables();
    for (int pass = 0; pass < cx->passes; pass++)
        for (int bdi = 0; bdi < (hbd ? 2 : 1); bdi++)
            for (int zi = 0; zi < 19; zi++)
                for (int rep = 0; rep < (kind == 2 ? (fp_scale == 0 ? 6 : fp_scale == 1 ? 12 : 20) : 3); rep++)
                    for (int mode = 0; mode < 7; mode++) {
                        const int W = k_pred_tx[zi][0], H = k_pred_tx[zi][1], txs = k_txsize(W, H);
                        const int log_scale = av1_get_tx_scale_tab[txs];
                        if (kind == 2 && log_scale != fp_scale) continue;
                        if (mode == 6 && (rep || pass)) continue;
                        if (!kc_case(cx)) continue;
                        const int bd = hbd ? (bdi ? 10 : 8) : 8, ti = bd == 10;
                        int types[16]; const int nt = k_txtypes(W, H, types);
                        const int type = types[kr_n(cx, (uint32_t)nt)];
                        const int n = av1_get_max_eob((TxSize)txs);
                        static const int fixq[6] = { 0, 255, 1, 128, 20, 60 };
                        const int qidx = (rep == 0 && pass == 0 && mode < 6) ? fixq[mode] : (int)kr_n(cx, 256);
                        const int plane = (int)kr_n(cx, 3);
                        const Quants *Q = &k_quants[ti]; const Dequants *D = &k_deq[ti];
                        const int16_t *zb = plane == 0 ? Q->y_zbin[qidx] : plane == 1 ? Q->u_zbin[qidx] : Q->v_zbin[qidx];
                        const int16_t *rd = plane == 0 ? (fp ? Q->y_round_fp[qidx] : Q->y_round[qidx]) : plane == 1 ? (fp ? Q->u_round_fp[qidx] : Q->u_round[qidx]) : (fp ? Q->v_round_fp[qidx] : Q->v_round[qidx]);
                        const int16_t *qu = plane == 0 ? (fp ? Q->y_quant_fp[qidx] : Q->y_quant[qidx]) : plane == 1 ? (fp ? Q->u_quant_fp[qidx] : Q->u_quant[qidx]) : (fp ? Q->v_quant_fp[qidx] : Q->v_quant[qidx]);
                        const int16_t *qs = plane == 0 ? Q->y_quant_shift[qidx] : plane == 1 ? Q->u_quant_shift[qidx] : Q->v_quant_shift[qidx];
                        const int16_t *dq = plane == 0 ? D->y_dequant_qtx[qidx] : plane == 1 ? D->u_dequant_qtx[qidx] : D->v_dequant_qtx[qidx];
                        kc_par(cx, "w", W); kc_par(cx, "h", H); kc_par(cx, "bd", bd); kc_par(cx, "txtype", type); kc_par(cx, "qindex", qidx);
                        kc_par(cx, "plane", plane); kc_par(cx, "n_coeffs", n); kc_par(cx, "log_scale", log_scale); kc_par(cx, "mode", mode);
                        cx->next_off = 8 * (int)kr_n(cx, 2);
                        Buf *co = kb(cx, "coeff", KB_IN, 4, 1, W * H, 1, W * H);
                        if (mode <= 3) {
                            KInvSetup s; s.W = W; s.H = H; s.txs = txs; s.type = type; s.bd = bd;
                            const int64_t amp = ((1 << bd) - 1) >> (2 * mode);
                            const int rp = k_respats[kr_n(cx, KARRAY(k_respats))];
                            kc_par(cx, "respat", rp);
                            Buf *res = kb(cx, "residual_for_fwd", KB_IN, 2, 1, W, H, W);
                            kb_fill(cx, res, rp, -amp, amp);
                            kc_dispatch(0);
                            k_fwd_c(txs, 0)((int16_t *)res->p, (int32_t *)co->p, W, (TxType)type, (uint8_t)bd);
                            switch (txs) {
                            case TX_64X64: svt_handle_transform64x64_c((int32_t *)co->p); break;
                            case TX_64X32: svt_handle_transform64x32_c((int32_t *)co->p); break;
                            case TX_32X64: svt_handle_transform32x64_c((int32_t *)co->p); break;
                            case TX_64X16: svt_handle_transform64x16_c((int32_t *)co->p); break;
                            case TX_16X64: svt_handle_transform16x64_c((int32_t *)co->p); break;
                            default: break;
                            }
                            (void)s;
                        } else {
                            kb_fill(cx, co, KP_ZERO, 0, 0);
                            if (mode != 6) {
                                /* magnitudes 0 .. 4*dequant >> log_scale: around zbin / dequant/2 thresholds and the first few levels */
                                int32_t *c = (int32_t *)co->p;
                                const int cnt = mode == 4 ? 1 + (int)kr_n(cx, 12) : n;
                                for (int k = 0; k < cnt; k++) {
                                    const int pos = mode == 4 ? (int)kr_n(cx, (uint32_t)n) : k;
                                    const int d = dq[pos != 0];
                                    int64_t mag = kr_range(cx, 0, ((int64_t)d * (mode == 4 ? 4 : 2)) >> log_scale);
                                    if (kr_n(cx, 4) == 0) mag = ((d >> (1 + log_scale)) + kr_range(cx, -2, 2));   /* right at the fp threshold */
                                    if (kr_n(cx, 4) == 0) mag = (((zb[pos != 0] + ((1 << log_scale) >> 1)) >> log_scale) + kr_range(cx, -2, 2)); /* at zbin */
                                    if (mag < 0) mag = 0;
                                    c[pos] = (int32_t)(kr_n(cx, 2) ? -mag : mag);
                                }
                            }
                        }
                        Buf *bz = k_qrow(cx, "zbin", zb), *br = k_qrow(cx, fp ? "round_fp" : "round", rd), *bq = k_qrow(cx, fp ? "quant_fp" : "quant", qu);
                        Buf *bs = k_qrow(cx, "quant_shift", qs), *bd_ = k_qrow(cx, "dequant", dq);
                        cx->next_off = 8 * (int)kr_n(cx, 2);
                        Buf *qc = kb(cx, "qcoeff", KB_OUT, 4, 1, n, 1, n);
                        cx->next_off = 8 * (int)kr_n(cx, 2);
                        Buf *dc = kb(cx, "dqcoeff", KB_OUT, 4, 1, n, 1, n);
                        Buf *eob = kb(cx, "eob", KB_OUT, 2, 0, 1, 1, 1);
                        const ScanOrder *so = &av1_scan_orders[txs][type];
                        Args a; memset(&a, 0, sizeof(a));
                        a.p[0] = co->p; a.p[1] = bz->p; a.p[2] = br->p; a.p[3] = bq->p; a.p[4] = bs->p; a.p[5] = qc->p; a.p[6] = dc->p;
                        a.p[7] = bd_->p; a.p[8] = eob->p; a.p[9] = (void *)so->scan; a.p[10] = (void *)so->iscan; a.p[11] = NULL; a.p[12] = NULL;
                        a.i[0] = n; a.i[1] = log_scale;
                        kc_exec(cx, &a);
                    }
}

/* ================================================================== entropy-coding helpers
 * svt_av1_txb_init_levels(coeff, width, height, levels): width/height = get_txb_wide/high(tx_size) (64 -> 32);
 * levels = levels_buf + TX_PAD_TOP*(width+TX_PAD_HOR); writes the whole padded area [-2 rows .. height+4 rows + TX_PAD_END) */
static const int k_txb_sizes[14][2] = { {4,4},{8,8},{16,16},{32,32},{4,8},{8,4},{8,16},{16,8},{16,32},{32,16},{4,16},{16,4},{8,32},{32,8} };
/* quantised coefficient levels: 0 zero, 1 small, 2 around the INT8_MAX clamp, 3 large, 4 mixed (mostly zero / small, a few large), 5 extremes */
static int32_t k_qlevel(Cx *cx, int mode) {
    int64_t v;
    switch (mode) {
    case 0: return 0;
    case 1: v = kr_range(cx, -3, 3); break;
    case 2: v = kr_range(cx, 120, 135) * (kr_n(cx, 2) ? -1 : 1); break;
    /* |level| <= 32767: |coefficient| < 2^(bd+7) and dequant >= 4.  (The AVX2 txb_init_levels maps levels <= -32768 to 128 instead of 127;
     * ext=1 (or KPRED_TXB_WIDE=1) generates +-2^20 to show it.) */
    case 3: v = (cx->ext || k_env("KPRED_TXB_WIDE")) ? kr_range(cx, -(1 << 20), 1 << 20) : kr_range(cx, -32767, 32767); break;
    case 5: v = (cx->ext || k_env("KPRED_TXB_WIDE")) ? (kr_n(cx, 2) ? (1 << 20) : -(1 << 20)) : (kr_n(cx, 2) ? 32767 : -32767); break;
    default: { uint32_t r = kr_n(cx, 16); v = r < 8 ? 0 : r < 13 ? kr_range(cx, -2, 2) : r < 15 ? kr_range(cx, -40, 40) : (cx->ext || k_env("KPRED_TXB_WIDE")) ? kr_range(cx, -70000, 70000) : kr_range(cx, -32767, 32767); break; }
    }
    return (int32_t)v;
}
static void h_txb_init_levels(Cx *cx, const Entry *e) {
    for (int pass = 0; pass < cx->passes; pass++)
        for (int zi = 0; zi < 14; zi++)
            for (int rep = 0; rep < 16; rep++)
                for (int mode = 0; mode < 6; mode++) {
                    if ((pass > 0 || rep > 0) && (mode == 0 || mode == 5)) continue;
                    if (!kc_case(cx)) continue;
                    const int W = k_txb_sizes[zi][0], H = k_txb_sizes[zi][1], stride = W + TX_PAD_HOR;
                    kc_par(cx, "w", W); kc_par(cx, "h", H); kc_par(cx, "mode", mode);
                    cx->next_off = (int)kr_n(cx, 16);
                    Buf *co = kb(cx, "coeff", KB_IN, 4, 1, W * H, 1, W * H);
                    for (int i = 0; i < W * H; i++) kb_set(co, i, 0, k_qlevel(cx, mode));
                    const int total = (H + TX_PAD_VER) * stride + TX_PAD_END;
                    cx->next_off = (int)kr_n(cx, 64);            /* levels_buf is an unaligned uint8 stack array */
                    Buf *lv = kb(cx, "levels_buf", KB_SCRATCH, 1, 0, total, 1, total);
                    Buf *mir = kb(cx, "levels_buf_after", KB_OUT, 1, 0, total, 1, total);
                    /* C zeroes the TX_PAD_END bytes after the bottom padding, the AVX2 variant leaves them untouched: not part of the contract */
                    k_wrap.nz = 0; k_wrap_zone(1, 0, total - TX_PAD_END, total - 1);
                    Args a; memset(&a, 0, sizeof(a));
                    a.p[0] = co->p; a.p[1] = lv->p + TX_PAD_TOP * stride; a.i[0] = W; a.i[1] = H;
                    k_wrap_exec(cx, e, &a, lv, mir);
                }
}

/* svt_av1_get_nz_map_contexts(levels, scan, eob, tx_size, tx_class, coeff_contexts): levels = output of the C txb_init_levels on a
 * block whose non-zero levels lie at scan positions < eob (scan[eob-1] non-zero); only coeff_contexts[scan[0..eob-1]] are outputs,
 * the SSE2 variant also fills every other position of the (16-byte aligned) array: those are masked (see k_wrap) */
static void h_nz_map_contexts(Cx *cx, const Entry *e) {
    for (int pass = 0; pass < cx->passes; pass++)
        for (int zi = 0; zi < 19; zi++)
            for (int ci = 0; ci < 3; ci++)
                for (int emi = 0; emi < 12; emi++)
                    for (int mode = 1; mode < 5; mode++) {
                        const int em = emi < 6 ? emi : 3 + emi % 3;
                        const int W = k_pred_tx[zi][0], H = k_pred_tx[zi][1], txs = k_txsize(W, H);
                        int types[16]; const int nt = k_txtypes(W, H, types);
                        /* a tx type of the wanted class among the types of this size: 2D always; 1-D classes only for sizes with 16 types or IDTX */
                        int type = -1;
                        for (int t = 0; t < nt && type < 0; t++) if ((int)tx_type_to_class[types[t]] == ci) type = types[t];
                        if (type < 0) continue;
                        if (pass > 0 && em < 3) continue;
                        if (pass == 0 && em < 3 && mode != 4) continue;
                        if (!kc_case(cx)) continue;
                        if (nt == 16) {   /* any type of that class */
                            int cand[16], nc = 0;
                            for (int t = 0; t < 16; t++) if ((int)tx_type_to_class[t] == ci) cand[nc++] = t;
                            type = cand[kr_n(cx, (uint32_t)nc)];
                        }
                        const int w = get_txb_wide((TxSize)txs), h = get_txb_high((TxSize)txs), n = w * h, stride = w + TX_PAD_HOR;
                        const int eob = em == 0 ? 1 : em == 1 ? n : em == 2 ? 2 : em == 3 ? 1 + (int)kr_n(cx, (uint32_t)n) : 1 + (int)kr_n(cx, (uint32_t)(n < 12 ? n : 12)) + (em == 5 ? n / 8 : 0);
                        const int16_t *scan = av1_scan_orders[txs][type].scan;
                        kc_par(cx, "w", W); kc_par(cx, "h", H); kc_par(cx, "txtype", type); kc_par(cx, "tx_class", ci); kc_par(cx, "eob", eob); kc_par(cx, "mode", mode);
                        int32_t *co = kc_alloc(cx, sizeof(int32_t) * (size_t)n, 64);
                        for (int i = 0; i < eob; i++) co[scan[i]] = k_qlevel(cx, mode);
                        if (!co[scan[eob - 1]]) co[scan[eob - 1]] = kr_n(cx, 2) ? 1 : -1 - (int32_t)kr_n(cx, 300);
                        const int total = (h + TX_PAD_VER) * stride + TX_PAD_END;
                        cx->next_off = (int)kr_n(cx, 64);
                        Buf *lv = kb(cx, "levels_buf", KB_IN, 1, 0, total, 1, total);
                        kc_dispatch(0);
                        svt_av1_txb_init_levels_c(co, w, h, lv->p + TX_PAD_TOP * stride);
                        /* the AVX2 txb_init_levels leaves the TX_PAD_END bytes of the (stack) buffer uninitialised: garbage */
                        kb_fill_rect(cx, lv, total - TX_PAD_END, 0, TX_PAD_END, 1, KP_RAND, 0, 255);
                        cx->next_align = 16;
                        Buf *ctx = kb(cx, "coeff_contexts", KB_SCRATCH, 1, 1, n, 1, n);
                        Buf *mir = kb(cx, "coeff_contexts_after", KB_OUT, 1, 1, n, 1, n);
                        k_wrap.nz = 0; k_wrap.scan = scan; k_wrap.scan_from = eob; k_wrap.scan_n = n;
                        Args a; memset(&a, 0, sizeof(a));
                        a.p[0] = lv->p + TX_PAD_TOP * stride; a.p[1] = (void *)scan; a.p[2] = ctx->p;
                        a.i[0] = eob; a.i[1] = txs; a.i[2] = ci;
                        k_wrap_exec(cx, e, &a, ctx, mir);
                    }
}

/* ================================================================== palette k-means
 * k[0]: 0 k_means, 1 calc_indices ; k[1]: dimension 1/2.  data = n samples (dim 2: n (u,v) pairs) of a block with 2..64 distinct colours */
static void h_palette(Cx *cx, const Entry *e) {
    const int calc = e->k[0], dim = e->k[1];
    static const int dims[10][2] = { {8,8},{16,8},{16,16},{32,16},{32,32},{64,32},{64,64},{8,24},{40,24},{64,56} };
    for (int pass = 0; pass < cx->passes; pass++)
        for (int bd = 8; bd <= 10; bd += 2)
            for (int zi = 0; zi < 10; zi++)
                for (int dmi = 0; dmi < 5 + 3 * 3; dmi++) {
                    const int dm = dmi < 5 ? dmi : 2 + (dmi - 5) % 3;       /* the random colour models are repeated */
                    if (pass > 0 && dm == 0) continue;
                    if (!kc_case(cx)) continue;
                    const int n = dims[zi][0] * dims[zi][1];
                    const int64_t mx = (1 << bd) - 1;
                    /* colours of the block: calc_indices is also used with 2 colours, k-means only with more than 2 */
                    int ncol = dm == 0 ? (calc ? 2 : 3) : dm == 1 ? 64 : (calc ? 2 : 3) + (int)kr_n(cx, calc ? 63 : 62);
                    if (ncol > (int)mx + 1) ncol = (int)mx + 1;
                    int k = 2 + (int)kr_n(cx, 7);
                    if (k > ncol) k = ncol;
                    kc_par(cx, "n", n); kc_par(cx, "bd", bd); kc_par(cx, "colors", ncol); kc_par(cx, "k", k); kc_par(cx, "dm", dm);
                    int pal[64][2];
                    /* dm 2: colours spread over the whole range; 3: clustered around a few values; 4: extremes 0 / max among them */
                    const int nclu = 1 + (int)kr_n(cx, 4);
                    int64_t ctr[4][2];
                    for (int c = 0; c < nclu; c++) { ctr[c][0] = kr_range(cx, 0, mx); ctr[c][1] = kr_range(cx, 0, mx); }
                    for (int c = 0; c < ncol; c++)
                        for (int tries = 0;; tries++) {        /* the colours are distinct (first component for dim 1) */
                            for (int d = 0; d < 2; d++) {
                                int64_t v = (dm == 3 && tries < 40) ? ctr[c % nclu][d] + kr_range(cx, -12 - ncol, 12 + ncol) : kr_range(cx, 0, mx);
                                if (dm == 4 && c < 2) v = c ? mx : 0;
                                if (dm == 0) v = c == 0 ? 0 : c == 1 ? mx : mx / 2;
                                pal[c][d] = (int)(v < 0 ? 0 : v > mx ? mx : v);
                            }
                            int dup = 0;
                            for (int j = 0; j < c; j++) if (pal[j][0] == pal[c][0] && (dim == 1 || pal[j][1] == pal[c][1])) dup = 1;
                            if (!dup) break;
                        }
                    cx->next_off = (int)kr_n(cx, 16);
                    Buf *data = kb(cx, "data", KB_IN, 4, 1, n * dim, 1, n * dim);
                    const int runs = (int)kr_n(cx, 3);      /* 0: every sample independent; else runs of equal colour (flat areas) */
                    int cur = 0;
                    for (int i = 0; i < n; i++) {
                        if (i < ncol) cur = i;                                  /* every colour occurs */
                        else if (!runs || kr_n(cx, runs == 1 ? 4 : 16) == 0) cur = (int)kr_n(cx, (uint32_t)ncol);
                        for (int d = 0; d < dim; d++) kb_set(data, i * dim + d, 0, pal[cur][d]);
                    }
                    Buf *cen = kb(cx, "centroids", calc ? KB_IN : KB_INOUT, 4, 1, PALETTE_MAX_SIZE * dim, 1, PALETTE_MAX_SIZE * dim);
                    if (!calc) {
                        /* search_palette_luma: centroids[i] = lb + (2i+1)(ub-lb)/k/2 per dimension */
                        for (int d = 0; d < dim; d++) {
                            int lb = pal[0][d], ub = pal[0][d];
                            for (int c = 0; c < ncol; c++) { if (pal[c][d] < lb) lb = pal[c][d]; if (pal[c][d] > ub) ub = pal[c][d]; }
                            for (int i = 0; i < k; i++) kb_set(cen, i * dim + d, 0, lb + (2 * i + 1) * (ub - lb) / k / 2);
                        }
                        kb_area(cen, 0, 0, k * dim, 1);
                    } else if (dim == 1) {
                        /* palette_rd_y: sorted, duplicate-free colours in range (dominant colours, k-means results or cache colours) */
                        int c[8], m = 0;
                        while (m < k) {
                            int v = kr_n(cx, 2) ? pal[kr_n(cx, (uint32_t)ncol)][0] : (int)kr_range(cx, 0, mx), dup = 0;
                            for (int j = 0; j < m; j++) if (c[j] == v) dup = 1;
                            if (!dup) c[m++] = v;
                        }
                        for (int i = 0; i < k; i++) for (int j = i + 1; j < k; j++) if (c[j] < c[i]) { int t = c[i]; c[i] = c[j]; c[j] = t; }
                        for (int i = 0; i < k; i++) kb_set(cen, i, 0, c[i]);
                    } else {
                        for (int i = 0; i < k; i++)
                            for (int d = 0; d < 2; d++) kb_set(cen, i * 2 + d, 0, kr_n(cx, 2) ? pal[kr_n(cx, (uint32_t)ncol)][d] : (int)kr_range(cx, 0, mx));
                    }
                    cx->next_off = (int)kr_n(cx, 64);
                    Buf *idx = kb(cx, "indices", KB_OUT, 1, 0, n, 1, n);
                    Args a; memset(&a, 0, sizeof(a));
                    a.p[0] = data->p; a.p[1] = cen->p; a.p[2] = idx->p;
                    a.i[0] = n; a.i[1] = k; a.i[2] = 50;
                    kc_exec(cx, &a);
                }
}

/* svt_search_one_dual(lev0, lev1, nb_strengths, mse[2] -> [sb_count][TOTAL_STRENGTHS], sb_count, start_gi, end_gi) */
static void h_cdef_search_dual(Cx *cx, const Entry *e) {
    static const int ends[4] = { TOTAL_STRENGTHS, REDUCED_TOTAL_STRENGTHS_LVL1, REDUCED_TOTAL_STRENGTHS_LVL2, REDUCED_TOTAL_STRENGTHS_LVL3 };
    static const int pats[] = { KP_ZERO, KP_HI, KP_CONST, KP_RAND, KP_OUTLIER, KP_NEAR, KP_RAND };
    (void)e;
    for (int pass = 0; pass < cx->passes; pass++)
        for (int ei = 0; ei < 4; ei++)
            for (int nbs = 0; nbs < 8; nbs++)
                for (int pi = 0; pi < KARRAY(pats); pi++) {
                    const int pat = pats[pi];
                    if (K_SKIP1(pass, pat) && pat != KP_ZERO) continue;
                    if (pass > 0 && pat == KP_ZERO) continue;
                    if (pass == 0 && !kp_random(pat) && (nbs & 3) != 1) continue;
                    if (!kc_case(cx)) continue;
                    const int end_gi = ends[ei];
                    const int sbc = pi == 0 ? 0 : 1 + (int)kr_n(cx, kr_n(cx, 4) ? 12 : 120);
                    /* per-filter-block distortions: far below 2^62 (the AVX2 variant's "infinity"); 2^40 is already above any real value */
                    const int64_t mx = pat == KP_HI ? ((int64_t)1 << 40) : ((int64_t)1 << (8 + (int)kr_n(cx, 33)));
                    kc_par(cx, "end_gi", end_gi); kc_par(cx, "nb_strengths", nbs); kc_par(cx, "sb_count", sbc); kc_par(cx, "pat", pat);
                    Buf *l0 = kb(cx, "lev0", KB_INOUT, 4, 1, CDEF_MAX_STRENGTHS, 1, CDEF_MAX_STRENGTHS);
                    Buf *l1 = kb(cx, "lev1", KB_INOUT, 4, 1, CDEF_MAX_STRENGTHS, 1, CDEF_MAX_STRENGTHS);
                    kb_fill_rect(cx, l0, 0, 0, nbs + 1, 1, KP_RAND, 0, end_gi - 1);   /* [nbs] is overwritten; the rest stays garbage */
                    kb_fill_rect(cx, l1, 0, 0, nbs + 1, 1, KP_RAND, 0, end_gi - 1);
                    kb_area(l0, nbs, 0, 1, 1); kb_area(l1, nbs, 0, 1, 1);
                    const int rows = sbc ? sbc : 1;
                    Buf *m0 = kb(cx, "mse_luma", KB_IN, 8, 0, TOTAL_STRENGTHS, rows, TOTAL_STRENGTHS);
                    Buf *m1 = kb(cx, "mse_chroma", KB_IN, 8, 0, TOTAL_STRENGTHS, rows, TOTAL_STRENGTHS);
                    /* entries >= end_gi are never written by the search (malloc'ed): random 64-bit garbage */
                    kb_fill_rect(cx, m0, 0, 0, end_gi, rows, pat, 0, mx);
                    kb_fill_rect(cx, m1, 0, 0, end_gi, rows, pat, 0, mx);
                    void **mse = kc_alloc(cx, 2 * sizeof(void *), 16);
                    mse[0] = m0->p; mse[1] = m1->p;
                    Args a; memset(&a, 0, sizeof(a));
                    a.p[0] = l0->p; a.p[1] = l1->p; a.p[2] = mse;
                    a.i[0] = nbs; a.i[1] = sbc; a.i[2] = 0; a.i[3] = end_gi;
                    kc_exec(cx, &a);
                }
}

#endif
