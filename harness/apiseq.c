/* apiseq — runs call sequences over the public encoder/decoder API of the REAL libraries (C14).
 *
 *   apiseq [watchdog_seconds] < sequences        one sequence per input line, ops separated by ';'
 *
 * Every sequence runs in a forked child (stdout/stderr of the library silenced); the child reports the return
 * code of each op through a pipe as soon as the call returns.  The parent enforces a wall-clock watchdog.
 * One canonical output line per sequence:
 *
 *   rc=<hex>,<hex>,... crashed=<signal|0> blocked=<0|1> at=<index of the op that did not return | -1> n=<ops> ms=<wall>
 *
 * Ops (the application's handle variable `h` is NULL until an init_handle succeeds and is reset to NULL by
 * deinit_handle, as an application would; "<op>_nullh" passes a NULL handle whatever `h` is):
 *  encoder
 *   init_handle | init_handle_null (p_handle NULL) | init_handle_nullcfg (config_ptr NULL)
 *   set_param valid|invalid [k]|null | set_param_nullh
 *   enc_init | enc_init_nullh
 *   stream_header | stream_header_nullh | stream_header_nullout | stream_header_release | stream_header_release_null
 *   send k | send_eos | send_null (p_buffer NULL) | send_nullh
 *   get_packet nb|blocking | get_packet_nullh | get_packet_nullout
 *   release_out_buffer | release_null (p_buffer NULL) | release_nullp (*p_buffer NULL)
 *   get_recon | get_recon_nullh | get_recon_nullbuf
 *   get_stream_info | get_stream_info_nullh | get_stream_info_nullinfo | get_stream_info_badid
 *   eos_nal | eos_nal_nullh
 *   sleep ms (application pacing only; reports 0)
 *   drain  (composite: blocking get_packet + release_out_buffer until the EOS packet; rc = last get_packet code)
 *   deinit | deinit_nullh | deinit_handle | deinit_handle_nullh
 *  decoder
 *   dec_init_handle | dec_init_handle_null | dec_init_handle_nullcfg
 *   dec_set_param valid|null | dec_set_param_nullh
 *   dec_init | dec_init_nullh
 *   dec_frame (next temporal unit of a stream encoded at start-up) | dec_frame_nullh | dec_frame_nulldata (NULL,0) |
 *   dec_frame_nulldata_n (NULL, size 16)
 *   dec_get_picture | dec_get_picture_nullh | dec_get_picture_nullbuf | dec_get_picture_nullinfo
 *   dec_deinit | dec_deinit_nullh | dec_deinit_handle | dec_deinit_handle_nullh
 * `void` functions report 0.  Unknown op: the sequence line is answered with `bad-op`.
 */
#include <stdio.h>
#include <stdlib.h>
#include <string.h>
#include <stdint.h>
#include <unistd.h>
#include <signal.h>
#include <errno.h>
#include <poll.h>
#include <time.h>
#include <fcntl.h>
#include <sys/wait.h>
#include "EbSvtAv1Enc.h"
#include "EbSvtAv1Dec.h"

#define W 128
#define H 128
#define MAXOPS 256
#define MAXTU 16

static int watchdog_s = 30;

/* ---- stream for the decoder ops (encoded once, before any fork) ---- */
static uint8_t *tu_data[MAXTU]; static uint32_t tu_size[MAXTU]; static int n_tu;

static void fill_pic(uint8_t *y, uint8_t *cb, uint8_t *cr, int f) {
    for (int j = 0; j < H; j++) for (int i = 0; i < W; i++) y[j * W + i] = (uint8_t)(((i + 2 * j + 5 * f) ^ ((i >> 3) * 7)) & 0xff);
    memset(cb, 100 + f, W * H / 4); memset(cr, 140 - f, W * H / 4);
}
static void valid_cfg(EbSvtAv1EncConfiguration *c) {
    c->source_width = W; c->source_height = H; c->enc_mode = 8; c->logical_processors = 1; c->recon_enabled = 1;
    c->encoder_bit_depth = 8; c->qp = 40;
}
static void invalid_cfg(EbSvtAv1EncConfiguration *c, int k) {
    valid_cfg(c);
    switch (k % 6) {
    case 0: c->source_width = 0; break;
    case 1: c->enc_mode = 99; break;
    case 2: c->qp = 200; break;
    case 3: c->encoder_bit_depth = 9; break;
    case 4: c->source_height = 3; break;
    default: c->tile_columns = 77; break;
    }
}

static void pre_encode_child(int wfd);

/* The stream is produced in a forked child and handed back through a pipe, so that the parent -- from which every
 * sequence is forked -- never runs library code (no global library state is inherited by the sequences). */
static void pre_encode(void) {
    int pfd[2];
    if (pipe(pfd)) return;
    fflush(stdout);
    pid_t pid = fork();
    if (pid == 0) { close(pfd[0]); pre_encode_child(pfd[1]); _exit(0); }
    close(pfd[1]);
    for (;;) {
        uint32_t sz;
        if (read(pfd[0], &sz, 4) != 4 || sz == 0 || sz > (1u << 24) || n_tu >= MAXTU) break;
        uint8_t *d = malloc(sz); uint32_t got = 0;
        while (got < sz) { ssize_t k = read(pfd[0], d + got, sz - got); if (k <= 0) break; got += (uint32_t)k; }
        if (got != sz) { free(d); break; }
        tu_data[n_tu] = d; tu_size[n_tu] = sz; n_tu++;
    }
    close(pfd[0]);
    waitpid(pid, NULL, 0);
}

static void pre_encode_child(int wfd) {
    static EbSvtAv1EncConfiguration cfg; EbComponentType *h = NULL;
    int dn = open("/dev/null", O_WRONLY);
    dup2(dn, 1); dup2(dn, 2);
    alarm(600);
    if (svt_av1_enc_init_handle(&h, NULL, &cfg) != EB_ErrorNone) goto out;
    valid_cfg(&cfg); cfg.recon_enabled = 0;
    if (svt_av1_enc_set_parameter(h, &cfg) != EB_ErrorNone) goto out;
    if (svt_av1_enc_init(h) != EB_ErrorNone) goto out;
    uint8_t *y = malloc(W * H), *cb = malloc(W * H / 4), *cr = malloc(W * H / 4);
    for (int f = 0; f < 3; f++) {
        EbBufferHeaderType in; EbSvtIOFormat io; memset(&in, 0, sizeof(in)); memset(&io, 0, sizeof(io));
        fill_pic(y, cb, cr, f);
        io.luma = y; io.cb = cb; io.cr = cr; io.y_stride = W; io.cb_stride = W / 2; io.cr_stride = W / 2; io.width = W; io.height = H;
        io.color_fmt = EB_YUV420; io.bit_depth = EB_EIGHT_BIT;
        in.size = sizeof(in); in.p_buffer = (uint8_t *)&io; in.n_filled_len = W * H * 3 / 2; in.n_alloc_len = in.n_filled_len; in.pts = f;
        in.pic_type = EB_AV1_INVALID_PICTURE;
        svt_av1_enc_send_picture(h, &in);
    }
    { EbBufferHeaderType in; memset(&in, 0, sizeof(in)); in.size = sizeof(in); in.flags = EB_BUFFERFLAG_EOS; in.pic_type = EB_AV1_INVALID_PICTURE;
      svt_av1_enc_send_picture(h, &in); }
    for (;;) {
        EbBufferHeaderType *b = NULL;
        EbErrorType e = svt_av1_enc_get_packet(h, &b, 1);
        if (e != EB_ErrorNone || !b) break;
        uint32_t fl = b->flags;
        if (b->n_filled_len) {
            uint32_t sz = b->n_filled_len;
            if (write(wfd, &sz, 4) != 4 || write(wfd, b->p_buffer, sz) != (ssize_t)sz) _exit(1);
        }
        svt_av1_enc_release_out_buffer(&b);
        if (fl & EB_BUFFERFLAG_EOS) break;
    }
    svt_av1_enc_deinit(h); svt_av1_enc_deinit_handle(h);
out:
    { uint32_t z = 0; if (write(wfd, &z, 4) != 4) _exit(1); }
    _exit(0);
}

/* ---- child: run one sequence ---- */
static int rfd = -1;
static void report(uint32_t code) { if (write(rfd, &code, 4) != 4) _exit(97); }

typedef struct { char op[40]; char a1[24]; int a2; } Op;

static int parse_ops(char *line, Op *ops) {
    int n = 0;
    for (char *s = strtok(line, ";\n"); s; s = strtok(NULL, ";\n")) {
        Op o; memset(&o, 0, sizeof(o)); o.a2 = -1;
        char b1[64] = "", b2[64] = "", b3[64] = "";
        int k = sscanf(s, " %63s %63s %63s", b1, b2, b3);
        if (k <= 0) continue;
        if (n >= MAXOPS) return -1;
        snprintf(o.op, sizeof(o.op), "%s", b1); snprintf(o.a1, sizeof(o.a1), "%s", b2);
        if (k >= 3) o.a2 = atoi(b3);
        ops[n++] = o;
    }
    return n;
}

#define IS(x) (!strcmp(o->op, x))

static const char *KNOWN_OPS[] = {"init_handle", "init_handle_null", "init_handle_nullcfg", "set_param", "set_param_nullh", "enc_init", "enc_init_nullh",
    "stream_header", "stream_header_nullh", "stream_header_nullout", "stream_header_release", "stream_header_release_null", "send", "send_eos",
    "send_null", "send_nullh", "get_packet", "get_packet_nullh", "get_packet_nullout", "release_out_buffer", "release_null", "release_nullp",
    "get_recon", "get_recon_nullh", "get_recon_nullbuf", "get_stream_info", "get_stream_info_nullh", "get_stream_info_nullinfo",
    "get_stream_info_badid", "eos_nal", "eos_nal_nullh", "drain", "sleep", "deinit", "deinit_nullh", "deinit_handle", "deinit_handle_nullh",
    "dec_init_handle", "dec_init_handle_null", "dec_init_handle_nullcfg", "dec_set_param", "dec_set_param_nullh", "dec_init", "dec_init_nullh",
    "dec_frame", "dec_frame_nullh", "dec_frame_nulldata", "dec_frame_nulldata_n", "dec_get_picture", "dec_get_picture_nullh",
    "dec_get_picture_nullbuf", "dec_get_picture_nullinfo", "dec_deinit", "dec_deinit_nullh", "dec_deinit_handle", "dec_deinit_handle_nullh", NULL};

static int known_op(const Op *o) {
    for (int i = 0; KNOWN_OPS[i]; i++) if (!strcmp(KNOWN_OPS[i], o->op)) {
        if (!strcmp(o->op, "set_param")) return !strcmp(o->a1, "valid") || !strcmp(o->a1, "invalid") || !strcmp(o->a1, "null");
        if (!strcmp(o->op, "dec_set_param")) return !strcmp(o->a1, "valid") || !strcmp(o->a1, "null");
        if (!strcmp(o->op, "get_packet")) return !strcmp(o->a1, "nb") || !strcmp(o->a1, "blocking");
        if (!strcmp(o->op, "send")) return atoi(o->a1) >= 1 && atoi(o->a1) <= 64;
        if (!strcmp(o->op, "sleep")) return atoi(o->a1) >= 0 && atoi(o->a1) <= 10000;
        return 1;
    }
    return 0;
}

static void run_child(const Op *ops, int n) {
    static EbSvtAv1EncConfiguration cfg;          /* zero until init_handle writes the defaults */
    static EbSvtAv1DecConfiguration dcfg;
    EbComponentType *h = NULL, *dh = NULL;
    EbBufferHeaderType *sh = NULL;                /* stream header held */
    EbBufferHeaderType *held[64]; int nheld = 0;  /* packets held by the application */
    int64_t pts = 0; int next_tu = 0;
    uint8_t *y = malloc(W * H), *cb = malloc(W * H / 4), *cr = malloc(W * H / 4);
    EbBufferHeaderType rb; memset(&rb, 0, sizeof(rb));
    rb.size = sizeof(rb); rb.n_alloc_len = W * H * 3 / 2 + 64; rb.p_buffer = malloc(rb.n_alloc_len);
    EbBufferHeaderType ob; EbSvtIOFormat oio; memset(&ob, 0, sizeof(ob)); memset(&oio, 0, sizeof(oio));
    oio.luma = malloc(W * H * 2); oio.cb = malloc(W * H); oio.cr = malloc(W * H);
    oio.y_stride = W; oio.cb_stride = W / 2; oio.cr_stride = W / 2; oio.width = W; oio.height = H; oio.bit_depth = EB_EIGHT_BIT; oio.color_fmt = EB_YUV420;
    ob.p_buffer = (uint8_t *)&oio; ob.size = sizeof(ob);
    EbAV1StreamInfo si; EbAV1FrameInfo fi; memset(&si, 0, sizeof(si)); memset(&fi, 0, sizeof(fi));

    for (int i = 0; i < n; i++) {
        const Op *o = &ops[i];
        uint32_t e = 0;
        if (IS("init_handle")) e = svt_av1_enc_init_handle(&h, NULL, &cfg);
        else if (IS("init_handle_null")) e = svt_av1_enc_init_handle(NULL, NULL, &cfg);
        else if (IS("init_handle_nullcfg")) e = svt_av1_enc_init_handle(&h, NULL, NULL);
        else if (IS("set_param") || IS("set_param_nullh")) {
            EbComponentType *hh = IS("set_param_nullh") ? NULL : h;
            if (!strcmp(o->a1, "null")) e = svt_av1_enc_set_parameter(hh, NULL);
            else {
                EbSvtAv1EncConfiguration c = cfg;
                if (!strcmp(o->a1, "invalid")) invalid_cfg(&c, o->a2 < 0 ? 0 : o->a2); else valid_cfg(&c);
                e = svt_av1_enc_set_parameter(hh, &c);
            }
        }
        else if (IS("enc_init")) e = svt_av1_enc_init(h);
        else if (IS("enc_init_nullh")) e = svt_av1_enc_init(NULL);
        else if (IS("stream_header")) { EbBufferHeaderType *s2 = NULL; e = svt_av1_enc_stream_header(h, &s2); if (e == EB_ErrorNone && s2) { if (sh) svt_av1_enc_stream_header_release(sh); sh = s2; } }
        else if (IS("stream_header_nullh")) { EbBufferHeaderType *s2 = NULL; e = svt_av1_enc_stream_header(NULL, &s2); }
        else if (IS("stream_header_nullout")) e = svt_av1_enc_stream_header(h, NULL);
        else if (IS("stream_header_release")) { e = svt_av1_enc_stream_header_release(sh); sh = NULL; }
        else if (IS("stream_header_release_null")) e = svt_av1_enc_stream_header_release(NULL);
        else if (IS("send") || IS("send_nullh")) {
            int k = IS("send") ? atoi(o->a1) : 1;
            for (int f = 0; f < k; f++) {
                EbBufferHeaderType in; EbSvtIOFormat io; memset(&in, 0, sizeof(in)); memset(&io, 0, sizeof(io));
                fill_pic(y, cb, cr, (int)pts);
                io.luma = y; io.cb = cb; io.cr = cr; io.y_stride = W; io.cb_stride = W / 2; io.cr_stride = W / 2; io.width = W; io.height = H;
                io.color_fmt = EB_YUV420; io.bit_depth = EB_EIGHT_BIT;
                in.size = sizeof(in); in.p_buffer = (uint8_t *)&io; in.n_filled_len = W * H * 3 / 2; in.n_alloc_len = in.n_filled_len; in.pts = pts++;
                in.pic_type = EB_AV1_INVALID_PICTURE;
                e = svt_av1_enc_send_picture(IS("send") ? h : NULL, &in);
                if (e != EB_ErrorNone) break;
            }
        }
        else if (IS("send_eos")) { EbBufferHeaderType in; memset(&in, 0, sizeof(in)); in.size = sizeof(in); in.flags = EB_BUFFERFLAG_EOS; in.pic_type = EB_AV1_INVALID_PICTURE;
                                    e = svt_av1_enc_send_picture(h, &in); }
        else if (IS("send_null")) e = svt_av1_enc_send_picture(h, NULL);
        else if (IS("get_packet")) { EbBufferHeaderType *b = NULL; e = svt_av1_enc_get_packet(h, &b, !strcmp(o->a1, "blocking")); if (b && nheld < 64) held[nheld++] = b; }
        else if (IS("get_packet_nullh")) { EbBufferHeaderType *b = NULL; e = svt_av1_enc_get_packet(NULL, &b, 0); }
        else if (IS("get_packet_nullout")) e = svt_av1_enc_get_packet(h, NULL, 0);
        else if (IS("release_out_buffer")) { EbBufferHeaderType *b = nheld ? held[--nheld] : NULL; svt_av1_enc_release_out_buffer(&b); }
        else if (IS("release_null")) svt_av1_enc_release_out_buffer(NULL);
        else if (IS("release_nullp")) { EbBufferHeaderType *b = NULL; svt_av1_enc_release_out_buffer(&b); }
        else if (IS("get_recon")) e = svt_av1_get_recon(h, &rb);
        else if (IS("get_recon_nullh")) e = svt_av1_get_recon(NULL, &rb);
        else if (IS("get_recon_nullbuf")) e = svt_av1_get_recon(h, NULL);
        else if (IS("get_stream_info")) { SvtAv1FixedBuf fb; memset(&fb, 0, sizeof(fb)); e = svt_av1_enc_get_stream_info(h, SVT_AV1_STREAM_INFO_FIRST_PASS_STATS_OUT, &fb); }
        else if (IS("get_stream_info_nullh")) { SvtAv1FixedBuf fb; memset(&fb, 0, sizeof(fb)); e = svt_av1_enc_get_stream_info(NULL, SVT_AV1_STREAM_INFO_FIRST_PASS_STATS_OUT, &fb); }
        else if (IS("get_stream_info_nullinfo")) e = svt_av1_enc_get_stream_info(h, SVT_AV1_STREAM_INFO_FIRST_PASS_STATS_OUT, NULL);
        else if (IS("get_stream_info_badid")) { SvtAv1FixedBuf fb; e = svt_av1_enc_get_stream_info(h, SVT_AV1_STREAM_INFO_END, &fb); }
        else if (IS("eos_nal")) { EbBufferHeaderType *b = NULL; e = svt_av1_enc_eos_nal(h, &b); }
        else if (IS("eos_nal_nullh")) e = svt_av1_enc_eos_nal(NULL, NULL);
        else if (IS("drain")) {
            for (;;) {
                EbBufferHeaderType *b = NULL;
                e = svt_av1_enc_get_packet(h, &b, 1);
                if (!b) break;
                uint32_t fl = b->flags;
                svt_av1_enc_release_out_buffer(&b);
                if (e != EB_ErrorNone || (fl & EB_BUFFERFLAG_EOS)) break;
            }
        }
        else if (IS("sleep")) usleep((unsigned)atoi(o->a1) * 1000u);     /* application pacing, not an API call; reports 0 */
        else if (IS("deinit")) e = svt_av1_enc_deinit(h);
        else if (IS("deinit_nullh")) e = svt_av1_enc_deinit(NULL);
        else if (IS("deinit_handle")) { e = svt_av1_enc_deinit_handle(h); h = NULL; nheld = 0; }
        else if (IS("deinit_handle_nullh")) e = svt_av1_enc_deinit_handle(NULL);
        /* decoder */
        else if (IS("dec_init_handle")) e = svt_av1_dec_init_handle(&dh, NULL, &dcfg);
        else if (IS("dec_init_handle_null")) e = svt_av1_dec_init_handle(NULL, NULL, &dcfg);
        else if (IS("dec_init_handle_nullcfg")) e = svt_av1_dec_init_handle(&dh, NULL, NULL);
        else if (IS("dec_set_param") || IS("dec_set_param_nullh")) {
            EbComponentType *hh = IS("dec_set_param_nullh") ? NULL : dh;
            if (!strcmp(o->a1, "null")) e = svt_av1_dec_set_parameter(hh, NULL);
            else {
                EbSvtAv1DecConfiguration c = dcfg;
                c.max_picture_width = W; c.max_picture_height = H; c.max_bit_depth = EB_EIGHT_BIT; c.max_color_format = EB_YUV420; c.threads = 1;
                e = svt_av1_dec_set_parameter(hh, &c);
            }
        }
        else if (IS("dec_init")) e = svt_av1_dec_init(dh);
        else if (IS("dec_init_nullh")) e = svt_av1_dec_init(NULL);
        else if (IS("dec_frame")) { if (next_tu < n_tu) { e = svt_av1_dec_frame(dh, tu_data[next_tu], tu_size[next_tu], 0); next_tu++; } else e = svt_av1_dec_frame(dh, tu_data[0], 0, 0); }
        else if (IS("dec_frame_nullh")) e = svt_av1_dec_frame(NULL, n_tu ? tu_data[0] : NULL, n_tu ? tu_size[0] : 0, 0);
        else if (IS("dec_frame_nulldata")) e = svt_av1_dec_frame(dh, NULL, 0, 0);
        else if (IS("dec_frame_nulldata_n")) e = svt_av1_dec_frame(dh, NULL, 16, 0);
        else if (IS("dec_get_picture")) e = svt_av1_dec_get_picture(dh, &ob, &si, &fi);
        else if (IS("dec_get_picture_nullh")) e = svt_av1_dec_get_picture(NULL, &ob, &si, &fi);
        else if (IS("dec_get_picture_nullbuf")) e = svt_av1_dec_get_picture(dh, NULL, &si, &fi);
        else if (IS("dec_get_picture_nullinfo")) e = svt_av1_dec_get_picture(dh, &ob, NULL, NULL);
        else if (IS("dec_deinit")) e = svt_av1_dec_deinit(dh);
        else if (IS("dec_deinit_nullh")) e = svt_av1_dec_deinit(NULL);
        else if (IS("dec_deinit_handle")) { e = svt_av1_dec_deinit_handle(dh); dh = NULL; }
        else if (IS("dec_deinit_handle_nullh")) e = svt_av1_dec_deinit_handle(NULL);
        report(e);
    }
    _exit(0);     /* no atexit handlers, no teardown of whatever the sequence left behind */
}

static double now_s(void) { struct timespec ts; clock_gettime(CLOCK_MONOTONIC, &ts); return ts.tv_sec + ts.tv_nsec * 1e-9; }

static void run_sequence(char *line) {
    static Op ops[MAXOPS];
    int n = parse_ops(line, ops);
    if (n < 0) { printf("bad-op too-many\n"); return; }
    for (int i = 0; i < n; i++) if (!known_op(&ops[i])) { printf("bad-op %s\n", ops[i].op); return; }
    int pfd[2];
    if (pipe(pfd)) { perror("pipe"); exit(2); }
    fflush(stdout);
    pid_t pid = fork();
    if (pid < 0) { perror("fork"); exit(2); }
    if (pid == 0) {
        close(pfd[0]); rfd = pfd[1];
        int dn = open("/dev/null", O_WRONLY); dup2(dn, 1); dup2(dn, 2);
        signal(SIGALRM, SIG_DFL); signal(SIGPIPE, SIG_DFL);
        run_child(ops, n);
        _exit(0);
    }
    close(pfd[1]);
    uint32_t codes[MAXOPS]; int got = 0; int blocked = 0, eof = 0;
    double t_start = now_s();
    double deadline = t_start + watchdog_s;
    uint8_t buf[4]; int have = 0;
    while (!eof) {
        double left = deadline - now_s();
        if (left <= 0) { blocked = 1; break; }
        struct pollfd p = {pfd[0], POLLIN, 0};
        int r = poll(&p, 1, (int)(left * 1000) + 1);
        if (r < 0) { if (errno == EINTR) continue; break; }
        if (r == 0) continue;
        ssize_t k = read(pfd[0], buf + have, 4 - have);
        if (k <= 0) { eof = 1; break; }
        have += (int)k;
        if (have == 4) { if (got < MAXOPS) memcpy(&codes[got++], buf, 4); have = 0; }
    }
    if (blocked) kill(pid, SIGKILL);
    close(pfd[0]);
    int st = 0; waitpid(pid, &st, 0);
    int sig = (!blocked && WIFSIGNALED(st)) ? WTERMSIG(st) : 0;
    if (!blocked && WIFEXITED(st) && WEXITSTATUS(st) != 0) sig = 1000 + WEXITSTATUS(st);   /* library called exit()/abort-like */
    printf("rc=");
    for (int i = 0; i < got; i++) printf("%s%x", i ? "," : "", codes[i]);
    printf(" crashed=%d blocked=%d at=%d n=%d ms=%d\n", sig, blocked, (sig || blocked) ? got : -1, n, (int)((now_s() - t_start) * 1000));
    fflush(stdout);
}

int main(int argc, char **argv) {
    if (argc > 1) watchdog_s = atoi(argv[1]);
    if (watchdog_s < 1) watchdog_s = 30;
    size_t cap = 0, nl = 0; char **lines = NULL; char *l = NULL; size_t lc = 0; int need_stream = 0;
    while (getline(&l, &lc, stdin) > 0) {
        if (nl == cap) { cap = cap ? cap * 2 : 256; lines = realloc(lines, cap * sizeof(char *)); }
        lines[nl++] = strdup(l);
        if (strstr(l, "dec_frame")) need_stream = 1;
    }
    if (need_stream) pre_encode();
    for (size_t i = 0; i < nl; i++) {
        char *s = lines[i];
        while (*s == ' ') s++;
        if (*s == '\n' || *s == 0 || *s == '#') continue;
        run_sequence(s);
    }
    return 0;
}
