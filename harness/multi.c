/* multi — several REAL SVT-AV1 encoder / decoder instances in ONE process (property C17).
 *
 *   multi [watchdog=S] [only=i] inst=<desc> inst=<desc> ...
 *
 * Each `inst=` describes one instance; every instance runs on its own application thread and walks through
 * the public API life cycle.  <desc> is a comma separated list:
 *   enc | dec                     kind (first item)
 *   w= h= n= bd= content= seed=   picture size / frame count / bit depth / synthetic content (as enc_e2e) / content seed
 *   cfg.<member>=v                any EbSvtAv1EncConfiguration member (enc_mode, use_cpu_flags, logical_processors, unpin, ...)
 *   recon=0|1 decode=0|1          (enc) collect recon; decode own packets with a decoder instance afterwards (same thread)
 *   dump=<path>                   (enc) write the packets to a file   [u32 size, bytes]*
 *   file=<path>                   (dec) decode the packets of that file
 *   threads= dec16=               (dec / decode=1) decoder threads, 16-bit pipeline
 *   <step>@<j>.<phase>            before own step <step>, wait until instance j has reached phase <phase>
 *   dly.<step>=<us>               sleep before own step
 *   fdly=<us>                     sleep between pictures / packets
 *   rep=<k>                       run the whole life cycle k times in a row (lines of repetition r > 0 are tagged I<i>.r<r>)
 * Steps:  handle setparam init frames deinit dhandle        (dec: handle setparam init frames deinit dhandle)
 * Phases: 1 handle done, 2 setparam done, 3 init done, 4 first picture sent (dec: first packet submitted),
 *         5 first packet received (dec: first picture out), 6 half of the pictures sent, 7 all output received,
 *         8 deinit done, 9 deinit_handle done.
 * `only=i` runs instance i alone (all waits are ignored): the SOLO reference of the same description.
 *
 * Output (per instance i, printed when everything has finished):
 *   I<i> PKT k pts flags size crc | I<i> RECON pts size crc | I<i> DEC k crc w h | I<i> CMP k MATCH|MISMATCH.. | I<i> ERR ... | I<i> END ...
 * Exit code 0 normal, 3 watchdog (prints TIMEOUT and every instance's phase), 4 fatal signal (prints CRASH sig inst).
 */
#define _GNU_SOURCE
#include <stdio.h>
#include <stdlib.h>
#include <string.h>
#include <stdint.h>
#include <stdarg.h>
#include <unistd.h>
#include <signal.h>
#include <inttypes.h>
#include <pthread.h>
#include <time.h>
#include <execinfo.h>
#include <sched.h>
#include "EbSvtAv1Enc.h"
#include "EbSvtAv1Dec.h"
#include "cfg_fields.h"

#define FNV0 0xcbf29ce484222325ull
static uint64_t fnv(const uint8_t *p, size_t n, uint64_t h) {
    for (size_t i = 0; i < n; i++) { h ^= p[i]; h *= 0x100000001b3ull; }
    return h;
}
static uint32_t hash3(uint64_t seed, int f, int p, int x, int y) {
    uint64_t z = seed ^ ((uint64_t)f << 40) ^ ((uint64_t)p << 36) ^ ((uint64_t)y << 18) ^ (uint64_t)x;
    z += 0x9E3779B97F4A7C15ull; z = (z ^ (z >> 30)) * 0xBF58476D1CE4E5B9ull;
    z = (z ^ (z >> 27)) * 0x94D049BB133111EBull; return (uint32_t)(z ^ (z >> 31));
}

enum { ST_HANDLE, ST_SETPARAM, ST_INIT, ST_FRAMES, ST_DEINIT, ST_DHANDLE, NSTEPS };
static const char *step_names[NSTEPS] = {"handle", "setparam", "init", "frames", "deinit", "dhandle"};

typedef struct { uint8_t *data; uint32_t size; int64_t pts; uint32_t flags; } Pkt;
typedef struct { uint8_t *data; uint32_t size; int64_t pts; } Rec;

#define MAXCFG 64
typedef struct Inst {
    int idx, is_dec;
    int w, h, n, bd, content, recon, decode, threads, dec16, fdly, rep, rep_cur;
    uint64_t seed;
    char dump[512], file[512];
    int ncfg; char cfgk[MAXCFG][64]; long long cfgv[MAXCFG];
    int wait_j[NSTEPS], wait_p[NSTEPS], dly[NSTEPS];
    volatile int phase;
    /* output */
    char *out; size_t out_len, out_cap;
    Pkt *pkts; int npkts, cap_pkts;
    Rec *recs; int nrecs, cap_recs;
    int got_eos_pkt, got_eos_recon;
    pthread_t th;
} Inst;

#define MAXI 8
static Inst insts[MAXI];
static int ninst, only = -1, watchdog = 300;
static __thread int tl_inst = -1;

static void emit(Inst *I, const char *fmt, ...) {
    char tmp[1024];
    va_list ap; va_start(ap, fmt);
    int k = I->rep_cur ? snprintf(tmp, sizeof(tmp), "I%d.r%d ", I->idx, I->rep_cur) : snprintf(tmp, sizeof(tmp), "I%d ", I->idx);
    k += vsnprintf(tmp + k, sizeof(tmp) - k, fmt, ap);
    va_end(ap);
    if (k > (int)sizeof(tmp) - 2) k = sizeof(tmp) - 2;
    tmp[k++] = '\n';
    if (I->out_len + k + 1 > I->out_cap) { I->out_cap = (I->out_cap ? I->out_cap * 2 : 1 << 16) + k; I->out = realloc(I->out, I->out_cap); }
    memcpy(I->out + I->out_len, tmp, k); I->out_len += k; I->out[I->out_len] = 0;
}
static void dump_all(void) {
    /* the library may have printed to stdout through stdio (e.g. the RTCD "Pointer ... is set before!" diagnostics): a flushed
       4096-byte block can end in the middle of a line, so start our part on a fresh line */
    if (write(1, "\n", 1)) {}
    for (int i = 0; i < ninst; i++)
        if (insts[i].out) { size_t off = 0; while (off < insts[i].out_len) { ssize_t r = write(1, insts[i].out + off, insts[i].out_len - off); if (r <= 0) break; off += r; } }
}
static void phases_line(const char *tag, int extra) {
    char b[256]; int k = snprintf(b, sizeof(b), "%s %d phases", tag, extra);
    for (int i = 0; i < ninst; i++) k += snprintf(b + k, sizeof(b) - k, " %d", insts[i].phase);
    b[k++] = '\n'; if (write(1, b, k)) {}
}
static void on_timeout(int sig) { (void)sig; dump_all(); phases_line("TIMEOUT", 0); _exit(3); }
static void on_fatal(int sig) {
    static volatile int once; if (once++) _exit(4);
    dump_all();
    char b[64]; int k = snprintf(b, sizeof(b), "CRASH sig=%d inst=%d\n", sig, tl_inst); if (write(1, b, k)) {}
    phases_line("CRASHPH", sig);
    { void *bt[48]; int nb = backtrace(bt, 48); static const char hdr[] = "BACKTRACE\n"; if (write(1, hdr, sizeof(hdr) - 1)) {} backtrace_symbols_fd(bt, nb, 1); }
    _exit(4);
}

static void set_phase(Inst *I, int p) { if (I->phase < p) { __sync_synchronize(); I->phase = p; __sync_synchronize(); } }
static void before(Inst *I, int step) {
    if (only < 0 && I->wait_j[step] >= 0 && I->wait_j[step] < ninst) {
        Inst *J = &insts[I->wait_j[step]];
        int spins = 0;
        while (J->phase < I->wait_p[step]) {
            usleep(200);
            if (++spins > 5 * 60 * 1000) { emit(I, "ERR wait-timeout step=%s on=%d.%d", step_names[step], J->idx, I->wait_p[step]); break; }
        }
    }
    if (I->dly[step] > 0) usleep((unsigned)I->dly[step]);
}

/* ---- picture synthesis (same families as enc_e2e) ---- */
static int sample_at(const Inst *P, int f, int p, int x, int y) {
    int maxv = (1 << P->bd) - 1;
    int sx = p ? x * 2 : x, sy = p ? y * 2 : y;
    switch (P->content) {
    case 0: return hash3(P->seed, f, p, x, y) & maxv;
    case 1: return p ? (maxv + 1) / 2 : ((60 + 3 * f) << (P->bd - 8)) & maxv;
    case 2: return ((sx + 2 * sy + 5 * f) << (P->bd - 8)) & maxv;
    case 3: return (((sx >> 2) + (sy >> 2) + f) & 1) ? maxv : 0;
    default: {
        int bx = (sx + 3 * f) >> 4, by = (sy + f) >> 4;
        int base = (hash3(P->seed, 0, p, bx, by) & 0xff) << (P->bd - 8);
        int tex = (hash3(P->seed, 0, p, sx + 3 * f, sy + f) & 7) << (P->bd - 8);
        int v = base + tex; return v > maxv ? maxv : v; }
    }
}
typedef struct { uint8_t *luma, *cb, *cr; size_t ysz, csz; } Pic;
static void make_pic(const Inst *P, int f, EbSvtIOFormat *io, Pic *pic) {
    int bps = P->bd > 8 ? 2 : 1;
    int ys = P->w, cs = P->w / 2, ch = P->h / 2, cw = P->w / 2;
    pic->ysz = (size_t)ys * P->h * bps; pic->csz = (size_t)cs * ch * bps;
    pic->luma = malloc(pic->ysz); pic->cb = malloc(pic->csz); pic->cr = malloc(pic->csz);
    uint8_t *pl[3] = {pic->luma, pic->cb, pic->cr};
    for (int p = 0; p < 3; p++) {
        int W = p ? cw : P->w, H = p ? ch : P->h, S = p ? cs : ys;
        for (int y = 0; y < H; y++)
            for (int x = 0; x < W; x++) {
                int v = sample_at(P, f, p, x, y);
                if (bps == 1) pl[p][(size_t)y * S + x] = (uint8_t)v; else ((uint16_t *)pl[p])[(size_t)y * S + x] = (uint16_t)v;
            }
    }
    memset(io, 0, sizeof(*io));
    io->luma = pic->luma; io->cb = pic->cb; io->cr = pic->cr;
    io->y_stride = ys; io->cb_stride = cs; io->cr_stride = cs;
    io->width = P->w; io->height = P->h; io->color_fmt = EB_YUV420; io->bit_depth = P->bd > 8 ? EB_TEN_BIT : EB_EIGHT_BIT;
}

static int set_cfg_field(EbSvtAv1EncConfiguration *c, const char *name, long long v) {
#define X(f) if (!strcmp(name, #f)) { c->f = v; return 1; }
    CFG_SCALARS(X)
#undef X
    {
        char base[128]; int idx;
        if (sscanf(name, "%127[^[][%d]", base, &idx) == 2) {
#define X(f, n) if (!strcmp(base, #f) && idx >= 0 && idx < n) { c->f[idx] = v; return 1; }
            CFG_ARRAYS(X)
#undef X
        }
    }
    return 0;
}

static void add_pkt(Inst *I, const uint8_t *d, uint32_t n, int64_t pts, uint32_t flags) {
    if (I->npkts == I->cap_pkts) { I->cap_pkts = I->cap_pkts ? I->cap_pkts * 2 : 64; I->pkts = realloc(I->pkts, I->cap_pkts * sizeof(Pkt)); }
    Pkt *p = &I->pkts[I->npkts++];
    p->data = malloc(n ? n : 1); memcpy(p->data, d, n); p->size = n; p->pts = pts; p->flags = flags;
}
static int poll_packets(Inst *I, EbComponentType *h, int blocking) {
    int got = 0;
    for (;;) {
        EbBufferHeaderType *b = NULL;
        EbErrorType e = svt_av1_enc_get_packet(h, &b, (uint8_t)blocking);
        if (e == EB_NoErrorEmptyQueue || b == NULL) { if (e != EB_NoErrorEmptyQueue && e != EB_ErrorNone) emit(I, "ERR get_packet %x", e); break; }
        if (e != EB_ErrorNone) emit(I, "ERR get_packet %x", e);
        if (I->got_eos_pkt) emit(I, "ERR packet-after-eos");
        emit(I, "PKT %d %" PRId64 " %u %u %016" PRIx64, I->npkts, b->pts, b->flags, b->n_filled_len, fnv(b->p_buffer, b->n_filled_len, FNV0));
        if (b->flags & ~(uint32_t)(EB_BUFFERFLAG_EOS | EB_BUFFERFLAG_SHOW_EXT | EB_BUFFERFLAG_HAS_TD | EB_BUFFERFLAG_IS_ALT_REF))
            emit(I, "ERR error-packet flags=%08x", b->flags);
        add_pkt(I, b->p_buffer, b->n_filled_len, b->pts, b->flags);
        if (b->flags & EB_BUFFERFLAG_EOS) I->got_eos_pkt = 1;
        set_phase(I, 5);
        got++;
        svt_av1_enc_release_out_buffer(&b);
        if (blocking) break;
    }
    return got;
}
static int poll_recon(Inst *I, EbComponentType *h, EbBufferHeaderType *rb) {
    int got = 0;
    if (!I->recon) return 0;
    for (;;) {
        EbErrorType e = svt_av1_get_recon(h, rb);
        if (e == EB_NoErrorEmptyQueue) break;
        if (e != EB_ErrorNone) { emit(I, "ERR get_recon %x", e); break; }
        emit(I, "RECON %" PRId64 " %u %016" PRIx64, rb->pts, rb->n_filled_len, fnv(rb->p_buffer, rb->n_filled_len, FNV0));
        if (I->nrecs == I->cap_recs) { I->cap_recs = I->cap_recs ? I->cap_recs * 2 : 64; I->recs = realloc(I->recs, I->cap_recs * sizeof(Rec)); }
        Rec *r = &I->recs[I->nrecs++];
        r->data = malloc(rb->n_filled_len ? rb->n_filled_len : 1); memcpy(r->data, rb->p_buffer, rb->n_filled_len);
        r->size = rb->n_filled_len; r->pts = rb->pts; got++;
        if (rb->flags & EB_BUFFERFLAG_EOS) I->got_eos_recon = 1;
    }
    return got;
}

/* decoder life cycle over I->pkts; `steps` = 1: this IS the instance (phases / waits apply), 0: trailing decode of an encoder instance */
static int decode_pkts(Inst *I, int steps) {
    EbSvtAv1DecConfiguration dc; EbComponentType *dh = NULL;
    memset(&dc, 0, sizeof(dc));
    if (steps) before(I, ST_HANDLE);
    if (svt_av1_dec_init_handle(&dh, NULL, &dc) != EB_ErrorNone) { emit(I, "ERR dec_init_handle"); return 0; }
    if (steps) set_phase(I, 1);
    dc.max_picture_width = I->w; dc.max_picture_height = I->h;
    dc.max_bit_depth = I->bd > 8 ? EB_TEN_BIT : EB_EIGHT_BIT; dc.max_color_format = EB_YUV420;
    dc.threads = I->threads; dc.is_16bit_pipeline = I->dec16; dc.eight_bit_output = 0;
    if (steps) before(I, ST_SETPARAM);
    if (svt_av1_dec_set_parameter(dh, &dc) != EB_ErrorNone) { emit(I, "ERR dec_set_parameter"); return 0; }
    if (steps) { set_phase(I, 2); before(I, ST_INIT); }
    if (svt_av1_dec_init(dh) != EB_ErrorNone) { emit(I, "ERR dec_init"); svt_av1_dec_deinit_handle(dh); return 0; }
    if (steps) { set_phase(I, 3); before(I, ST_FRAMES); }
    int bps = I->bd > 8 ? 2 : 1;
    EbBufferHeaderType ob; EbSvtIOFormat io; memset(&ob, 0, sizeof(ob)); memset(&io, 0, sizeof(io));
    size_t ysz = (size_t)I->w * I->h * bps;
    io.luma = malloc(ysz); io.cb = malloc(ysz / 4 + 16); io.cr = malloc(ysz / 4 + 16);
    io.y_stride = I->w; io.cb_stride = I->w / 2; io.cr_stride = I->w / 2; io.width = I->w; io.height = I->h;
    io.bit_depth = dc.max_bit_depth; io.color_fmt = EB_YUV420;
    ob.p_buffer = (uint8_t *)&io; ob.size = sizeof(ob);
    EbAV1StreamInfo si; EbAV1FrameInfo fi; memset(&si, 0, sizeof(si)); memset(&fi, 0, sizeof(fi));
    int ndec = 0;
    uint8_t *used = calloc(I->nrecs + 1, 1);
    for (int i = 0; i < I->npkts; i++) {
        EbErrorType e = svt_av1_dec_frame(dh, I->pkts[i].data, I->pkts[i].size, 0);
        if (e != EB_ErrorNone) emit(I, "ERR dec_frame pkt=%d code=%x", i, e);
        if (steps) { set_phase(I, 4); if (i * 2 >= I->npkts) set_phase(I, 6); }
        if (svt_av1_dec_get_picture(dh, &ob, &si, &fi) != EB_DecNoOutputPicture) {
            uint64_t c = fnv(io.luma, ysz, FNV0); c = fnv(io.cb, ysz / 4, c); c = fnv(io.cr, ysz / 4, c);
            emit(I, "DEC %d %016" PRIx64 " %u %u", ndec, c, si.max_picture_width, si.max_picture_height);
            if (steps) set_phase(I, 5);
            if (I->nrecs) {
                int found = -1;
                for (int r = 0; r < I->nrecs; r++) if (I->recs[r].pts == (int64_t)ndec && !used[r]) { found = r; break; }
                if (found < 0) emit(I, "CMP %d NORECON", ndec);
                else {
                    used[found] = 1;
                    const uint8_t *rp = I->recs[found].data;
                    if (I->recs[found].size != ysz + ysz / 2) emit(I, "CMP %d SIZE", ndec);
                    else if (!memcmp(rp, io.luma, ysz) && !memcmp(rp + ysz, io.cb, ysz / 4) && !memcmp(rp + ysz + ysz / 4, io.cr, ysz / 4))
                        emit(I, "CMP %d MATCH", ndec);
                    else emit(I, "CMP %d MISMATCH", ndec);
                }
            }
            ndec++;
        }
        if (I->fdly > 0 && steps) usleep((unsigned)I->fdly);
    }
    free(used);
    if (steps) { set_phase(I, 7); before(I, ST_DEINIT); }
    svt_av1_dec_deinit(dh);
    if (steps) { set_phase(I, 8); before(I, ST_DHANDLE); }
    svt_av1_dec_deinit_handle(dh);
    if (steps) set_phase(I, 9);
    free(io.luma); free(io.cb); free(io.cr);
    return ndec;
}

static void run_dec(Inst *I) {
    FILE *f = fopen(I->file, "rb");
    if (!f) { emit(I, "ERR cannot-open %s", I->file); set_phase(I, 9); return; }
    for (;;) {
        uint32_t sz; if (fread(&sz, 4, 1, f) != 1) break;
        uint8_t *d = malloc(sz ? sz : 1); if (fread(d, 1, sz, f) != sz) { free(d); break; }
        add_pkt(I, d, sz, I->npkts, 0); free(d);
    }
    fclose(f);
    int nd = decode_pkts(I, 1);
    set_phase(I, 9);
    emit(I, "END dec packets=%d decoded=%d", I->npkts, nd);
}

static void run_enc(Inst *I) {
    static EbSvtAv1EncConfiguration cfgs[MAXI];
    EbSvtAv1EncConfiguration *cfg = &cfgs[I->idx];
    EbComponentType *h = NULL;
    before(I, ST_HANDLE);
    int pol0 = sched_getscheduler(0);
    EbErrorType e = svt_av1_enc_init_handle(&h, NULL, cfg);
    if (e != EB_ErrorNone) { emit(I, "ERR init_handle %x", e); set_phase(I, 9); return; }
    /* not compared (depends on CAP_SYS_NICE): scheduling policy of the APPLICATION thread before / after creating the handle */
    fprintf(stderr, "NOTE inst=%d application-thread sched policy before init_handle=%d after=%d\n", I->idx, pol0, sched_getscheduler(0));
    set_phase(I, 1);
    cfg->source_width = I->w; cfg->source_height = I->h; cfg->encoder_bit_depth = I->bd; cfg->recon_enabled = I->recon;
    cfg->enc_mode = 8; cfg->logical_processors = 2;
    for (int k = 0; k < I->ncfg; k++)
        if (!set_cfg_field(cfg, I->cfgk[k], I->cfgv[k])) emit(I, "ERR unknown-config-field %s", I->cfgk[k]);
    before(I, ST_SETPARAM);
    e = svt_av1_enc_set_parameter(h, cfg);
    emit(I, "SETPARAM %x", e);
    if (e != EB_ErrorNone) { svt_av1_enc_deinit_handle(h); emit(I, "END rejected"); set_phase(I, 9); return; }
    set_phase(I, 2);
    before(I, ST_INIT);
    e = svt_av1_enc_init(h);
    if (e != EB_ErrorNone) { emit(I, "ERR enc_init %x", e); svt_av1_enc_deinit(h); svt_av1_enc_deinit_handle(h); set_phase(I, 9); return; }
    set_phase(I, 3);
    {
        EbBufferHeaderType *sh = NULL;
        e = svt_av1_enc_stream_header(h, &sh);
        if (e == EB_ErrorNone && sh) { emit(I, "HDR %u %016" PRIx64, sh->n_filled_len, fnv(sh->p_buffer, sh->n_filled_len, FNV0)); svt_av1_enc_stream_header_release(sh); }
        else emit(I, "ERR stream_header %x", e);
    }
    before(I, ST_FRAMES);
    EbBufferHeaderType rb; memset(&rb, 0, sizeof(rb));
    rb.size = sizeof(rb); rb.n_alloc_len = (uint32_t)((size_t)I->w * I->h * 3 / 2 * (I->bd > 8 ? 2 : 1)) + 64; rb.p_buffer = malloc(rb.n_alloc_len);
    for (int f = 0; f < I->n; f++) {
        EbBufferHeaderType in; EbSvtIOFormat io; Pic pic;
        memset(&in, 0, sizeof(in));
        make_pic(I, f, &io, &pic);
        in.size = sizeof(in); in.p_buffer = (uint8_t *)&io; in.n_filled_len = (uint32_t)(pic.ysz + 2 * pic.csz); in.n_alloc_len = in.n_filled_len;
        in.pts = f; in.pic_type = EB_AV1_INVALID_PICTURE; in.flags = 0;
        e = svt_av1_enc_send_picture(h, &in);
        if (e != EB_ErrorNone) emit(I, "ERR send_picture %x", e);
        free(pic.luma); free(pic.cb); free(pic.cr);
        set_phase(I, 4);
        if (2 * (f + 1) >= I->n && I->phase >= 5) set_phase(I, 6);
        if (I->fdly > 0) usleep((unsigned)I->fdly);
        poll_packets(I, h, 0); poll_recon(I, h, &rb);
    }
    {
        EbBufferHeaderType in; memset(&in, 0, sizeof(in));
        in.size = sizeof(in); in.flags = EB_BUFFERFLAG_EOS; in.p_buffer = NULL; in.pic_type = EB_AV1_INVALID_PICTURE;
        svt_av1_enc_send_picture(h, &in);
        set_phase(I, 6);
        while (!I->got_eos_pkt) { if (!poll_packets(I, h, 1)) { emit(I, "ERR blocking-get-returned-nothing"); break; } poll_recon(I, h, &rb); }
        if (I->recon) { int spins = 0; while (!I->got_eos_recon && I->nrecs < I->n && spins < 20000) { if (!poll_recon(I, h, &rb)) { usleep(500); spins++; } } }
        poll_recon(I, h, &rb);
        if (poll_packets(I, h, 0)) emit(I, "ERR packet-after-eos-drain");
    }
    set_phase(I, 7);
    before(I, ST_DEINIT);
    e = svt_av1_enc_deinit(h); if (e != EB_ErrorNone) emit(I, "ERR enc_deinit %x", e);
    set_phase(I, 8);
    before(I, ST_DHANDLE);
    e = svt_av1_enc_deinit_handle(h); if (e != EB_ErrorNone) emit(I, "ERR enc_deinit_handle %x", e);
    set_phase(I, 9);
    free(rb.p_buffer);
    if (I->dump[0]) {
        FILE *f = fopen(I->dump, "wb");
        if (f) { for (int i = 0; i < I->npkts; i++) { fwrite(&I->pkts[i].size, 4, 1, f); fwrite(I->pkts[i].data, 1, I->pkts[i].size, f); } fclose(f); }
        else emit(I, "ERR cannot-write %s", I->dump);
    }
    int nd = 0;
    if (I->decode && I->npkts) nd = decode_pkts(I, 0);
    emit(I, "END enc packets=%d recons=%d decoded=%d", I->npkts, I->nrecs, nd);
}

static void *inst_main(void *arg) {
    Inst *I = arg;
    tl_inst = I->idx;
    for (int r = 0; r < (I->rep > 0 ? I->rep : 1); r++) {
        I->rep_cur = r;
        for (int k = 0; k < I->npkts; k++) free(I->pkts[k].data);
        for (int k = 0; k < I->nrecs; k++) free(I->recs[k].data);
        I->npkts = I->nrecs = 0; I->got_eos_pkt = I->got_eos_recon = 0;
        if (I->is_dec) run_dec(I); else run_enc(I);
    }
    set_phase(I, 9);
    return NULL;
}

static int step_of(const char *s) { for (int i = 0; i < NSTEPS; i++) if (!strcmp(s, step_names[i])) return i; return -1; }

static int parse_inst(Inst *I, char *desc) {
    memset(I, 0, sizeof(*I));
    I->w = 64; I->h = 64; I->n = 4; I->bd = 8; I->content = 4; I->recon = 1; I->decode = 0; I->threads = 1; I->seed = 1;
    for (int s = 0; s < NSTEPS; s++) I->wait_j[s] = -1;
    int first = 1;
    for (char *tok = strtok(desc, ","); tok; tok = strtok(NULL, ",")) {
        if (first) { first = 0; if (!strcmp(tok, "enc")) { I->is_dec = 0; continue; } if (!strcmp(tok, "dec")) { I->is_dec = 1; continue; } }
        char *at = strchr(tok, '@'), *eq = strchr(tok, '=');
        if (at && !eq) {
            *at = 0; int st = step_of(tok); int j, p;
            if (st < 0 || sscanf(at + 1, "%d.%d", &j, &p) != 2) { fprintf(stderr, "bad wait %s\n", tok); return 0; }
            I->wait_j[st] = j; I->wait_p[st] = p; continue;
        }
        if (!eq) { fprintf(stderr, "bad item %s\n", tok); return 0; }
        *eq = 0; const char *k = tok, *v = eq + 1;
        if (!strncmp(k, "cfg.", 4)) {
            if (I->ncfg < MAXCFG) { snprintf(I->cfgk[I->ncfg], 64, "%s", k + 4); I->cfgv[I->ncfg] = v[0] == '-' ? strtoll(v, NULL, 10) : (long long)strtoull(v, NULL, 10); I->ncfg++; }
        } else if (!strncmp(k, "dly.", 4)) { int st = step_of(k + 4); if (st < 0) { fprintf(stderr, "bad step %s\n", k); return 0; } I->dly[st] = atoi(v); }
        else if (!strcmp(k, "w")) I->w = atoi(v); else if (!strcmp(k, "h")) I->h = atoi(v); else if (!strcmp(k, "n")) I->n = atoi(v);
        else if (!strcmp(k, "bd")) I->bd = atoi(v); else if (!strcmp(k, "content")) I->content = atoi(v); else if (!strcmp(k, "recon")) I->recon = atoi(v);
        else if (!strcmp(k, "decode")) I->decode = atoi(v); else if (!strcmp(k, "threads")) I->threads = atoi(v); else if (!strcmp(k, "dec16")) I->dec16 = atoi(v);
        else if (!strcmp(k, "fdly")) I->fdly = atoi(v); else if (!strcmp(k, "rep")) I->rep = atoi(v); else if (!strcmp(k, "seed")) I->seed = strtoull(v, NULL, 10);
        else if (!strcmp(k, "dump")) snprintf(I->dump, sizeof(I->dump), "%s", v); else if (!strcmp(k, "file")) snprintf(I->file, sizeof(I->file), "%s", v);
        else { fprintf(stderr, "unknown key %s\n", k); return 0; }
    }
    return 1;
}

int main(int argc, char **argv) {
    for (int i = 1; i < argc; i++) {
        if (!strncmp(argv[i], "watchdog=", 9)) watchdog = atoi(argv[i] + 9);
        else if (!strncmp(argv[i], "only=", 5)) only = atoi(argv[i] + 5);
        else if (!strncmp(argv[i], "inst=", 5)) {
            if (ninst >= MAXI) { fprintf(stderr, "too many instances\n"); return 2; }
            char *d = strdup(argv[i] + 5);
            if (!parse_inst(&insts[ninst], d)) return 2;
            insts[ninst].idx = ninst; ninst++;
        } else { fprintf(stderr, "unknown argument %s\n", argv[i]); return 2; }
    }
    signal(SIGALRM, on_timeout); alarm(watchdog);
    signal(SIGSEGV, on_fatal); signal(SIGBUS, on_fatal); signal(SIGFPE, on_fatal); signal(SIGILL, on_fatal); signal(SIGABRT, on_fatal);
    for (int i = 0; i < ninst; i++) {
        if (only >= 0 && i != only) { insts[i].phase = 9; continue; }
        pthread_create(&insts[i].th, NULL, inst_main, &insts[i]);
    }
    for (int i = 0; i < ninst; i++) if (only < 0 || i == only) pthread_join(insts[i].th, NULL);
    dump_all();
    printf("DONE %d\n", ninst);
    fflush(stdout);
    return 0;
}
