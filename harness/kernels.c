/* C07 differential kernel harness -- hand-written runtime.
 *
 *   gcc -O1 -g harness/kernels.c <gen>/kernels_gen.c -Iharness -I<repo include dirs> libSvtAv1Enc.a -lpthread -lm
 *
 * <gen>/kernels_gen.c is written by xlate/kernel_protos.py: one thunk per dispatch-table entry that calls the C
 * reference and every registered SIMD function BY NAME, plus the table `k_entries`.  The shape handlers
 * (what inputs are generated, i.e. the valid domain) are in harness/kernels_shapes.h, included by the generated file.
 *
 * Command line (key=value):
 *   seed=N            base seed (splitmix64); every case derives its own generator from (seed, pointer name, case index)
 *   passes=N          random passes per size/stride/pattern combination (default 1)
 *   only=<substr>     run only entries whose pointer name contains <substr>   (only==<name> : exact match)
 *   list=1            print the entry list (driven and not driven) and exit
 *   replay=<ptr>:<case-id>  re-run exactly one case (case-id = <seed>.<index> as printed in a FAIL line)
 *   dump=1            with replay: print all input buffers and the outputs of every variant in hex
 *   maxfail=N         FAIL lines printed per entry (default 3)
 *   time=1            print `TIME <ptr> <ms>` lines
 *   negzero=1         float outputs: also compare the sign of zero (default: -0.0f == +0.0f)
 *   ext=1             also run the cases that a handler excludes from the valid domain (kc_exclude; e.g. inverse transforms in the
 *                     overflow regime); case indices do not depend on it, so replay=... ext=1 reproduces such a case
 *
 * Output:
 *   ENTRY <ptr> variants=<fn,fn,...> cases=<n> checks=<n> ok|FAIL
 *   FAIL <ptr> <simd_fn> case=<seed>.<idx> <k=v ...> what=<ret|out:buf|pad:buf|guard:buf|inmod:buf|oobwrite-pad:buf|oobwrite-guard:buf> idx=<i> c=<v> simd=<v>
 *   SKIP <ptr> <fn> cpu lacks <feature>
 *   CRASH <ptr> <fn> case=<id> signal=<n>        (exit code 4)
 *   SUMMARY entries=<n> driven=<n> failed=<n> cases=<n> checks=<n> skipped_variants=<n>
 * Exit code 0 even with FAIL lines; 2 usage, 3 internal error, 4 crash inside a kernel.
 *
 * what= labels:  out:<buf>  first differing element lies in the area the kernel is supposed to write
 *                pad:<buf>  C and SIMD left different bytes in the stride padding (x >= w) of an output buffer
 *                guard:<buf> ... in the guard band before/after the buffer
 *                oobwrite-pad / oobwrite-guard: the variant (possibly the C reference itself) changed bytes outside the
 *                           area it may write (reported even when C and SIMD agree); c=<byte before> simd=<byte after>
 *                inmod:<buf> a const input buffer was modified
 */
#define _GNU_SOURCE
#include "kernels.h"
#include <signal.h>
#include <unistd.h>
#include <time.h>
#include <inttypes.h>

static Cx g_cx;
static int g_maxfail = 3;
static int g_negzero = 0;

/* ------------------------------------------------------------------ rng */
static inline uint64_t splitmix64(uint64_t *s) {
    uint64_t z = (*s += 0x9E3779B97F4A7C15ull);
    z = (z ^ (z >> 30)) * 0xBF58476D1CE4E5B9ull;
    z = (z ^ (z >> 27)) * 0x94D049BB133111EBull;
    return z ^ (z >> 31);
}
uint64_t kr(Cx *cx) { return splitmix64(&cx->rng); }
uint32_t kr_n(Cx *cx, uint32_t n) { return (uint32_t)((kr(cx) >> 11) % n); }
int64_t  kr_range(Cx *cx, int64_t lo, int64_t hi) {
    uint64_t span = (uint64_t)(hi - lo) + 1;
    if (span == 0) return (int64_t)kr(cx);
    return lo + (int64_t)(kr(cx) % span);
}
static uint64_t hash_str(const char *s) {
    uint64_t h = 1469598103934665603ull;
    for (; *s; s++) h = (h ^ (uint8_t)*s) * 1099511628211ull;
    return h;
}

/* ------------------------------------------------------------------ errors */
static void die(const char *msg) {
    fflush(stdout);
    fprintf(stderr, "kernels: internal error: %s (entry %s case %" PRIu64 ")\n", msg, g_cx.e ? g_cx.e->ptr : "-", g_cx.case_idx);
    exit(3);
}

/* ------------------------------------------------------------------ crash handler */
static void fmt_u64(char *dst, uint64_t v) {
    char t[24]; int n = 0;
    do { t[n++] = (char)('0' + v % 10); v /= 10; } while (v);
    while (n) *dst++ = t[--n];
    *dst = 0;
}
static void on_crash(int sig) {
    char line[512], num[24];
    line[0] = 0;
    strcat(line, "CRASH ");
    strncat(line, g_cx.e ? g_cx.e->ptr : "-", 120);
    strcat(line, " ");
    strncat(line, g_cx.cur_fn ? g_cx.cur_fn : "(harness)", 120);
    strcat(line, " case=");
    fmt_u64(num, g_cx.seed); strcat(line, num);
    strcat(line, ".");
    fmt_u64(num, g_cx.case_idx); strcat(line, num);
    strcat(line, " signal=");
    fmt_u64(num, (uint64_t)sig); strcat(line, num);
    strcat(line, "\n");
    ssize_t r = write(1, line, strlen(line)); (void)r;
    _exit(4);
}

/* ------------------------------------------------------------------ cpu features */
static int cpu_has_bit(int bit, const char **nm) {
    __builtin_cpu_init();
    switch (bit) {
    case -1: *nm = "c"; return 1;
    case 0: *nm = "mmx"; return __builtin_cpu_supports("mmx");
    case 1: *nm = "sse"; return __builtin_cpu_supports("sse");
    case 2: *nm = "sse2"; return __builtin_cpu_supports("sse2");
    case 3: *nm = "sse3"; return __builtin_cpu_supports("sse3");
    case 4: *nm = "ssse3"; return __builtin_cpu_supports("ssse3");
    case 5: *nm = "sse4.1"; return __builtin_cpu_supports("sse4.1");
    case 6: *nm = "sse4.2"; return __builtin_cpu_supports("sse4.2");
    case 7: *nm = "avx"; return __builtin_cpu_supports("avx");
    case 8: *nm = "avx2"; return __builtin_cpu_supports("avx2");
    case 9: *nm = "avx512f"; return __builtin_cpu_supports("avx512f");
    case 10: *nm = "avx512cd"; return __builtin_cpu_supports("avx512cd");
    case 11: *nm = "avx512dq"; return __builtin_cpu_supports("avx512dq");
    case 14: *nm = "avx512bw"; return __builtin_cpu_supports("avx512bw");
    case 15: *nm = "avx512vl"; return __builtin_cpu_supports("avx512vl");
    default: *nm = "unknown-flag"; return 0;
    }
}

/* ------------------------------------------------------------------ arena */
void *kc_alloc(Cx *cx, size_t n, size_t align) {
    if (align < 8) align = 8;
    size_t pos = (cx->arena_pos + align - 1) & ~(align - 1);
    if (pos + n > cx->arena_sz) die("arena exhausted");
    cx->arena_pos = pos + n;
    memset(cx->arena + pos, 0, n);
    return cx->arena + pos;
}
static void *arena_raw(Cx *cx, size_t n, size_t align) {
    size_t pos = (cx->arena_pos + align - 1) & ~(align - 1);
    if (pos + n > cx->arena_sz) die("arena exhausted");
    cx->arena_pos = pos + n;
    return cx->arena + pos;
}

/* ------------------------------------------------------------------ case control */
int kc_case(Cx *cx) {
    uint64_t idx = ++cx->case_idx;   /* 1-based */
    cx->arena_pos = 0;
    cx->nbuf = 0;
    cx->npar = 0;
    cx->next_off = 0;
    cx->next_align = 64;
    if (cx->replay_on && idx != cx->replay_idx) return 0;
    cx->rng = cx->seed * 0xD1342543DE82EF95ull + hash_str(cx->e->ptr) + idx * 0x9E3779B97F4A7C15ull;
    (void)kr(cx);
    cx->cases++;
    return 1;
}
void kc_exclude(Cx *cx) {
    cx->cases--;
    cx->excluded++;
    if (cx->dump) { printf("EXCLUDED %s case=%" PRIu64 ".%" PRIu64, cx->e->ptr, cx->seed, cx->case_idx); for (int i = 0; i < cx->npar; i++) printf(" %s=%" PRId64, cx->pk[i], cx->pv[i]); printf(" (outside the valid domain; ext=1 runs it)\n"); }
}
void kc_par(Cx *cx, const char *k, int64_t v) {
    if (cx->npar >= K_MAXPAR) die("too many parameters");
    cx->pk[cx->npar] = k;
    cx->pv[cx->npar++] = v;
}

/* ------------------------------------------------------------------ buffers */
static void fill_random_bytes(Cx *cx, uint8_t *p, size_t n) {
    size_t i = 0;
    for (; i + 8 <= n; i += 8) { uint64_t v = kr(cx); memcpy(p + i, &v, 8); }
    if (i < n) { uint64_t v = kr(cx); memcpy(p + i, &v, n - i); }
}
Buf *kb(Cx *cx, const char *name, int role, int elem, int sgn, int w, int h, int stride) {
    if (cx->nbuf >= K_MAXBUF) die("too many buffers");
    if (w <= 0 || h <= 0 || (h > 1 && stride < w && stride >= 0)) { /* stride<w allowed only when h==1 */
        if (!(h == 1)) die("bad buffer geometry");
    }
    Buf *b = &cx->bufs[cx->nbuf++];
    memset(b, 0, sizeof(*b));
    b->name = name; b->role = role; b->elem = elem; b->sgn = sgn;
    b->w = w; b->h = h; b->stride = stride;
    b->ax = 0; b->ay = 0; b->aw = w; b->ah = h;
    size_t body = ((size_t)(h - 1) * (size_t)stride + (size_t)w) * (size_t)elem;
    size_t rowb = (size_t)stride * elem;
    if (rowb < (size_t)w * elem) rowb = (size_t)w * elem;
    size_t guard = 256 + 2 * rowb;
    guard = (guard + 63) & ~(size_t)63;
    size_t al = (size_t)cx->next_align;
    size_t mis = (al < 64) ? al : 0;              /* aligned to `al` but not to 2*al */
    size_t off = (size_t)cx->next_off * elem;
    b->pre = guard + mis + off;
    b->total = b->pre + body + guard + 64;
    b->base = arena_raw(cx, b->total, 64);
    b->p = b->base + b->pre;
    fill_random_bytes(cx, b->base, b->total);
    cx->next_off = 0; cx->next_align = 64;
    return b;
}
void kb_area(Buf *b, int ax, int ay, int aw, int ah) { b->ax = ax; b->ay = ay; b->aw = aw; b->ah = ah; }

static inline void put_elem(uint8_t *p, int elem, int64_t v) {
    switch (elem) {
    case 1: { uint8_t t = (uint8_t)v; memcpy(p, &t, 1); break; }
    case 2: { uint16_t t = (uint16_t)v; memcpy(p, &t, 2); break; }
    case 4: { uint32_t t = (uint32_t)v; memcpy(p, &t, 4); break; }
    default: { uint64_t t = (uint64_t)v; memcpy(p, &t, 8); break; }
    }
}
static inline int64_t get_elem(const uint8_t *p, int elem, int sgn) {
    switch (elem) {
    case 1: { uint8_t t; memcpy(&t, p, 1); return sgn ? (int64_t)(int8_t)t : (int64_t)t; }
    case 2: { uint16_t t; memcpy(&t, p, 2); return sgn ? (int64_t)(int16_t)t : (int64_t)t; }
    case 4: { uint32_t t; memcpy(&t, p, 4); return sgn ? (int64_t)(int32_t)t : (int64_t)t; }
    default: { uint64_t t; memcpy(&t, p, 8); return (int64_t)t; }
    }
}
int64_t kb_get(const Buf *b, int x, int y) { return get_elem(b->p + ((ptrdiff_t)y * b->stride + x) * b->elem, b->elem, b->sgn); }
void    kb_set(Buf *b, int x, int y, int64_t v) { put_elem(b->p + ((ptrdiff_t)y * b->stride + x) * b->elem, b->elem, v); }

static const char *const k_patnames[KP_NPAT] = { "lo", "hi", "check", "checkinv", "ramp", "ramprev", "rand", "outlier", "const", "cols", "rows", "near", "zero" };
const char *kp_name(int pat) { return (pat >= 0 && pat < KP_NPAT) ? k_patnames[pat] : "?"; }

void kb_fill_rect(Cx *cx, Buf *b, int x0, int y0, int w, int h, int pat, int64_t lo, int64_t hi) {
    uint64_t span = (uint64_t)(hi - lo) + 1;
    int64_t cst = kr_range(cx, lo, hi);
    int64_t mid = kr_range(cx, lo, hi);
    int64_t nearw = (int64_t)(span / 16) + 1;
    int64_t z = (lo <= 0 && hi >= 0) ? 0 : lo;
    for (int y = 0; y < h; y++) {
        for (int x = 0; x < w; x++) {
            int64_t v;
            uint64_t lin = (uint64_t)y * (uint64_t)w + (uint64_t)x;
            switch (pat) {
            case KP_LO: v = lo; break;
            case KP_HI: v = hi; break;
            case KP_CHECK: v = ((x + y) & 1) ? hi : lo; break;
            case KP_CHECK_INV: v = ((x + y) & 1) ? lo : hi; break;
            case KP_RAMP: v = lo + (int64_t)(span ? lin % span : lin); break;
            case KP_RAMP_REV: v = hi - (int64_t)(span ? lin % span : lin); break;
            case KP_RAND: v = kr_range(cx, lo, hi); break;
            case KP_OUTLIER: {
                uint32_t r = kr_n(cx, 16);
                if (r == 0) v = lo; else if (r == 1) v = hi;
                else { v = mid + kr_range(cx, -nearw, nearw); if (v < lo) v = lo; if (v > hi) v = hi; }
                break; }
            case KP_CONST: v = cst; break;
            case KP_COLS: v = (x & 1) ? hi : lo; break;
            case KP_ROWS: v = (y & 1) ? hi : lo; break;
            case KP_NEAR: { v = mid + kr_range(cx, -nearw, nearw); if (v < lo) v = lo; if (v > hi) v = hi; break; }
            case KP_ZERO: v = z; break;
            default: v = lo; break;
            }
            put_elem(b->p + ((ptrdiff_t)(y0 + y) * b->stride + (x0 + x)) * b->elem, b->elem, v);
        }
    }
}
void kb_fill(Cx *cx, Buf *b, int pat, int64_t lo, int64_t hi) { kb_fill_rect(cx, b, 0, 0, b->w, b->h, pat, lo, hi); }
void kb_fill_all(Cx *cx, Buf *b, int pat, int64_t lo, int64_t hi) {
    /* every element of the allocation that is element-aligned with p */
    size_t first = b->pre % (size_t)b->elem;
    size_t n = (b->total - first) / (size_t)b->elem;
    uint64_t span = (uint64_t)(hi - lo) + 1;
    for (size_t i = 0; i < n; i++) {
        int64_t v;
        switch (pat) {
        case KP_LO: v = lo; break;
        case KP_HI: v = hi; break;
        case KP_ZERO: v = (lo <= 0 && hi >= 0) ? 0 : lo; break;
        default: v = span ? lo + (int64_t)(kr(cx) % span) : (int64_t)kr(cx); break;
        }
        put_elem(b->base + first + i * b->elem, b->elem, v);
    }
}
void kp2(int id, int *pa, int *pb) {
    static const int t[KP2_N][2] = {
        { KP_LO, KP_LO }, { KP_HI, KP_HI }, { KP_HI, KP_LO }, { KP_LO, KP_HI }, { KP_CHECK, KP_CHECK_INV },
        { KP_RAMP, KP_RAMP_REV }, { KP_RAND, KP_RAND }, { KP_OUTLIER, KP_OUTLIER }, { KP_COLS, KP_ROWS }, { KP_NEAR, KP_NEAR } };
    id %= KP2_N;
    *pa = t[id][0]; *pb = t[id][1];
}

/* ------------------------------------------------------------------ reporting */
static void print_params(Cx *cx) {
    for (int i = 0; i < cx->npar; i++) printf(" %s=%" PRId64, cx->pk[i], cx->pv[i]);
    if (cx->ext) printf(" ext=1");   /* some handlers enumerate additional cases with ext=1: replay with the same ext value */
}
static void kfail(Cx *cx, int v, const char *what, const char *bufname, int64_t idx, int x, int y, int64_t cval, int64_t sval, int hex) {
    cx->fails++;
    if (cx->fails_printed >= g_maxfail) return;
    cx->fails_printed++;
    printf("FAIL %s %s case=%" PRIu64 ".%" PRIu64, cx->e->ptr, cx->e->vname[v], cx->seed, cx->case_idx);
    print_params(cx);
    if (bufname) printf(" what=%s:%s idx=%" PRId64 " xy=%d,%d", what, bufname, idx, x, y);
    else printf(" what=%s idx=0", what);
    if (hex) printf(" c=0x%" PRIx64 " simd=0x%" PRIx64 "\n", (uint64_t)cval, (uint64_t)sval);
    else printf(" c=%" PRId64 " simd=%" PRId64 "\n", cval, sval);
    fflush(stdout);
}

/* classify byte offset o of buffer b: 0 area, 1 pad (x>=w or inside w*h but outside the write area), 2 guard */
static int classify(const Buf *b, size_t o, int64_t *eidx, int *px, int *py) {
    ptrdiff_t rel = (ptrdiff_t)o - (ptrdiff_t)b->pre;
    ptrdiff_t ei = rel >= 0 ? rel / b->elem : -((-rel + b->elem - 1) / b->elem);
    *eidx = ei; *px = 0; *py = 0;
    if (ei < 0) return 2;
    int y = b->stride > 0 ? (int)(ei / b->stride) : 0;
    int x = b->stride > 0 ? (int)(ei % b->stride) : (int)ei;
    if (b->h == 1) { y = 0; x = (int)ei; }
    *px = x; *py = y;
    if (y >= b->h) return 2;
    if (y == b->h - 1 && x >= b->w) return 2;
    if (x >= b->w) return 1;
    if (x >= b->ax && x < b->ax + b->aw && y >= b->ay && y < b->ay + b->ah) return 0;
    return 1;
}
static int64_t elem_at(const Buf *b, const uint8_t *mem, int64_t ei, size_t o) {
    ptrdiff_t bo = (ptrdiff_t)b->pre + ei * b->elem;
    if (bo < 0 || (size_t)bo + b->elem > b->total) return mem[o];
    return get_elem(mem + bo, b->elem, b->sgn);
}

static void dump_rows(const char *tag, const char *fn, const Buf *b, const uint8_t *mem) {
    printf("%s %s %s elem=%d w=%d h=%d stride=%d (rows show the full stride; '|' after column w-1)\n", tag, fn, b->name, b->elem, b->w, b->h, b->stride);
    int rw = b->h == 1 ? b->w : b->stride;
    if (rw < b->w) rw = b->w;
    for (int y = 0; y < b->h; y++) {
        printf("  %s[%3d]", b->name, y);
        int n = (y == b->h - 1) ? b->w : rw;
        for (int x = 0; x < n; x++) {
            const uint8_t *q = mem + b->pre + ((size_t)y * b->stride + x) * b->elem;
            uint64_t v = (uint64_t)get_elem(q, b->elem, 0);
            printf(" %0*" PRIx64, b->elem * 2, v);
            if (x == b->w - 1 && x != n - 1) printf(" |");
        }
        printf("\n");
    }
}

/* whole-allocation checks after a call of variant v */
static int check_after(Cx *cx, int v) {
    int bad = 0;
    for (int i = 0; i < cx->nbuf && !bad; i++) {
        Buf *b = &cx->bufs[i];
        if (b->role == KB_SCRATCH) continue;
        if (b->role == KB_IN) {
            if (memcmp(b->base, b->init, b->total) != 0) {
                size_t o = 0; while (b->base[o] == b->init[o]) o++;
                int64_t ei; int x, y; classify(b, o, &ei, &x, &y);
                kfail(cx, v, "inmod", b->name, ei, x, y, elem_at(b, b->init, ei, o), elem_at(b, b->base, ei, o), b->sgn == 2);
                bad = 1;
            }
            continue;
        }
        if (v > 0 && memcmp(b->base, b->ref, b->total) != 0) {
            size_t o = 0; while (b->base[o] == b->ref[o]) o++;
            int64_t ei; int x, y; int cl = classify(b, o, &ei, &x, &y);
            /* prefer an in-area difference when one exists */
            if (cl != 0) {
                for (int yy = b->ay; yy < b->ay + b->ah; yy++) {
                    size_t ro = b->pre + ((size_t)yy * b->stride + b->ax) * b->elem;
                    size_t rn = (size_t)b->aw * b->elem;
                    if (memcmp(b->base + ro, b->ref + ro, rn) != 0) {
                        size_t k = 0; while (b->base[ro + k] == b->ref[ro + k]) k++;
                        o = ro + k; cl = classify(b, o, &ei, &x, &y); break;
                    }
                }
            }
            kfail(cx, v, cl == 0 ? "out" : cl == 1 ? "pad" : "guard", b->name, ei, x, y, elem_at(b, b->ref, ei, o), elem_at(b, b->base, ei, o), b->sgn == 2);
            bad = 1;
            continue;
        }
    }
    if (bad) return 1;
    /* writes outside the permitted area (also for the C reference itself) */
    for (int i = 0; i < cx->nbuf; i++) {
        Buf *b = &cx->bufs[i];
        if (b->role != KB_OUT && b->role != KB_INOUT) continue;
        /* fast path: compare guard before, guard after, then row paddings */
        size_t o = 0; int found = 0;
        size_t area0 = b->pre + ((size_t)b->ay * b->stride + b->ax) * b->elem;
        if (memcmp(b->base, b->init, area0) != 0) { while (b->base[o] == b->init[o]) o++; found = 1; }
        for (int yy = 0; yy < b->ah && !found; yy++) {
            size_t rend = b->pre + ((size_t)(b->ay + yy) * b->stride + b->ax + b->aw) * b->elem;
            size_t nxt = (yy == b->ah - 1) ? b->total : b->pre + ((size_t)(b->ay + yy + 1) * b->stride + b->ax) * b->elem;
            if (nxt > rend && memcmp(b->base + rend, b->init + rend, nxt - rend) != 0) {
                o = rend; while (b->base[o] == b->init[o]) o++; found = 1;
            }
        }
        if (found) {
            int64_t ei; int x, y; int cl = classify(b, o, &ei, &x, &y);
            kfail(cx, v, cl == 2 ? "oobwrite-guard" : "oobwrite-pad", b->name, ei, x, y, elem_at(b, b->init, ei, o), elem_at(b, b->base, ei, o), b->sgn == 2);
            return 1;
        }
    }
    return 0;
}

static int g_disp = -1;
void kc_dispatch(int simd) {
    if (g_disp != simd) { k_dispatch(simd); g_disp = simd; }
}
void kc_exec2(Cx *cx, Args *a, void (*prep)(Cx *, Args *, void *), void *u) {
    const Entry *e = cx->e;
    for (int i = 0; i < cx->nbuf; i++) {
        Buf *b = &cx->bufs[i];
        b->init = arena_raw(cx, b->total, 64);
        memcpy(b->init, b->base, b->total);
        b->ref = NULL;
    }
    if (cx->dump) {
        printf("CASE %s case=%" PRIu64 ".%" PRIu64, e->ptr, cx->seed, cx->case_idx);
        print_params(cx);
        printf("\n");
        for (int i = 0; i < cx->nbuf; i++) dump_rows("INPUT", "-", &cx->bufs[i], cx->bufs[i].base);
    }
    for (int v = 0; v < e->nvar; v++) {
        if (!cx->vsup[v]) continue;
        if (v > 0)
            for (int i = 0; i < cx->nbuf; i++) memcpy(cx->bufs[i].base, cx->bufs[i].init, cx->bufs[i].total);
        if (prep) prep(cx, a, u);
        kc_dispatch(v > 0);
        a->ret = 0; a->dret = 0;
        cx->cur_fn = e->vname[v];
        e->thunk(v, a);
        cx->cur_fn = NULL;
        if (!g_negzero)   /* float outputs: -0.0f and +0.0f are the same value (negzero=1 compares the sign bit too) */
            for (int i = 0; i < cx->nbuf; i++) {
                Buf *b = &cx->bufs[i];
                if (b->sgn != 2 || b->elem != 4 || b->role == KB_IN) continue;
                for (int y = 0; y < b->h; y++)
                    for (int x = 0; x < b->w; x++) {
                        uint8_t *q = b->p + ((size_t)y * b->stride + x) * 4;
                        uint32_t t; memcpy(&t, q, 4);
                        if (t == 0x80000000u) { t = 0; memcpy(q, &t, 4); }
                    }
            }
        if (!g_negzero && a->dret == 0.0) a->dret = 0.0;
        uint64_t dbits; memcpy(&dbits, &a->dret, 8);
        if (!g_negzero && dbits == 0x8000000000000000ull) dbits = 0;
        if (cx->dump) {
            printf("RET %s ret=%" PRId64 " dret=%.17g (0x%016" PRIx64 ")\n", e->vname[v], a->ret, a->dret, dbits);
            for (int i = 0; i < cx->nbuf; i++)
                if (cx->bufs[i].role != KB_IN) dump_rows("OUTPUT", e->vname[v], &cx->bufs[i], cx->bufs[i].base);
        }
        if (v == 0) {
            cx->ref_ret = a->ret; cx->ref_dbits = dbits;
            for (int i = 0; i < cx->nbuf; i++) {
                Buf *b = &cx->bufs[i];
                if (b->role == KB_IN || b->role == KB_SCRATCH) continue;
                b->ref = arena_raw(cx, b->total, 64);
                memcpy(b->ref, b->base, b->total);
            }
            check_after(cx, 0);
        } else {
            cx->checks++;
            /* a return-value difference does not hide buffer differences: both are reported */
            if (a->ret != cx->ref_ret) kfail(cx, v, "ret", NULL, 0, 0, 0, cx->ref_ret, a->ret, 0);
            else if (dbits != cx->ref_dbits) kfail(cx, v, "dret", NULL, 0, 0, 0, (int64_t)cx->ref_dbits, (int64_t)dbits, 1);
            check_after(cx, v);
        }
    }
}
void kc_exec(Cx *cx, Args *a) { kc_exec2(cx, a, NULL, NULL); }

/* ------------------------------------------------------------------ main */
static const char *argval(const char *arg, const char *key) {
    size_t n = strlen(key);
    if (strncmp(arg, key, n) == 0 && arg[n] == '=') return arg + n + 1;
    return NULL;
}
static double now_ms(void) {
    struct timespec ts; clock_gettime(CLOCK_MONOTONIC, &ts);
    return ts.tv_sec * 1000.0 + ts.tv_nsec / 1e6;
}

int main(int argc, char **argv) {
    Cx *cx = &g_cx;
    const char *only = NULL, *replay = NULL;
    int list = 0, tim = 0;
    memset(cx, 0, sizeof(*cx));
    cx->seed = 1; cx->passes = 1;
    for (int i = 1; i < argc; i++) {
        const char *v;
        if ((v = argval(argv[i], "seed"))) cx->seed = strtoull(v, NULL, 0);
        else if ((v = argval(argv[i], "passes"))) cx->passes = atoi(v);
        else if ((v = argval(argv[i], "only"))) only = v;
        else if ((v = argval(argv[i], "list"))) list = atoi(v);
        else if ((v = argval(argv[i], "replay"))) replay = v;
        else if ((v = argval(argv[i], "dump"))) cx->dump = atoi(v);
        else if ((v = argval(argv[i], "maxfail"))) g_maxfail = atoi(v);
        else if ((v = argval(argv[i], "time"))) tim = atoi(v);
        else if ((v = argval(argv[i], "negzero"))) g_negzero = atoi(v);
        else if ((v = argval(argv[i], "ext"))) cx->ext = atoi(v);
        else { fprintf(stderr, "kernels: unknown argument %s\n", argv[i]); return 2; }
    }
    if (cx->passes < 1) cx->passes = 1;
    setvbuf(stdout, NULL, _IOLBF, 0);
    if (list) {
        int nd = 0;
        for (int i = 0; i < k_nentries; i++) {
            const Entry *e = &k_entries[i];
            printf("LIST %s %s", e->ptr, e->handler ? "driven" : "not_driven");
            if (e->handler) { printf(" handler=%s variants=", e->handler); nd++; for (int v = 0; v < e->nvar; v++) printf("%s%s", v ? "," : "", e->vname[v]); }
            else printf(" reason=%s", e->reason ? e->reason : "?");
            printf("\n");
        }
        printf("LISTSUMMARY entries=%d driven=%d not_driven=%d\n", k_nentries, nd, k_nentries - nd);
        return 0;
    }
    char rname[256]; rname[0] = 0;
    if (replay) {
        const char *c = strrchr(replay, ':');
        const char *d = c ? strchr(c, '.') : NULL;
        if (!c || !d || (size_t)(c - replay) >= sizeof(rname)) { fprintf(stderr, "kernels: replay=<ptr>:<seed>.<idx>\n"); return 2; }
        memcpy(rname, replay, (size_t)(c - replay)); rname[c - replay] = 0;
        cx->seed = strtoull(c + 1, NULL, 0);
        cx->replay_idx = strtoull(d + 1, NULL, 0);
        cx->replay_on = 1;
        if (!argc) return 2;
    } else cx->dump = 0;
    cx->arena_sz = (size_t)96 << 20;
    cx->arena = aligned_alloc(4096, cx->arena_sz);
    if (!cx->arena) die("no memory");
    struct sigaction sa; memset(&sa, 0, sizeof(sa)); sa.sa_handler = on_crash;
    sigaction(SIGSEGV, &sa, NULL); sigaction(SIGBUS, &sa, NULL); sigaction(SIGILL, &sa, NULL); sigaction(SIGFPE, &sa, NULL);

    uint64_t tcases = 0, tchecks = 0; int driven = 0, failed = 0, skipped = 0, ran = 0;
    for (int i = 0; i < k_nentries; i++) {
        const Entry *e = &k_entries[i];
        if (replay) { if (strcmp(e->ptr, rname) != 0) continue; }
        else if (only) {
            if (only[0] == '=') { if (strcmp(e->ptr, only + 1) != 0) continue; }
            else if (!strstr(e->ptr, only)) continue;
        }
        ran++;
        if (!e->handler) continue;
        driven++;
        cx->e = e; cx->case_idx = 0; cx->cases = 0; cx->checks = 0; cx->fails = 0; cx->fails_printed = 0;
        for (int v = 0; v < e->nvar; v++) {
            const char *nm;
            cx->vsup[v] = cpu_has_bit(e->vbit[v], &nm);
            if (!cx->vsup[v]) { printf("SKIP %s %s cpu lacks %s\n", e->ptr, e->vname[v], nm); skipped++; }
        }
        double t0 = now_ms();
        e->drive(cx, e);
        double t1 = now_ms();
        printf("ENTRY %s variants=", e->ptr);
        for (int v = 0; v < e->nvar; v++) printf("%s%s", v ? "," : "", e->vname[v]);
        printf(" cases=%" PRIu64 " checks=%" PRIu64 " %s\n", cx->cases, cx->checks, cx->fails ? "FAIL" : "ok");
        if (tim) printf("TIME %s %.1f\n", e->ptr, t1 - t0);
        if (cx->fails) failed++;
        tcases += cx->cases; tchecks += cx->checks;
        cx->e = NULL;
    }
    if (replay && !tcases && cx->excluded) printf("EXCLUDED %s (outside the valid domain of its handler; add ext=1 to run it)\n", replay);
    else if (replay && (!driven || !tcases)) { fprintf(stderr, "kernels: replay target %s not found / case index out of range\n", replay); return 2; }
    printf("SUMMARY entries=%d driven=%d failed=%d cases=%" PRIu64 " checks=%" PRIu64 " skipped_variants=%d excluded_cases=%" PRIu64 "\n", ran, driven, failed, tcases, tchecks, skipped, cx->excluded);
    return 0;
}
