/* Weak stand-ins for the symbols of the guarded fail-the-k-th hook (hook 1665467, EbMalloc.c), linked ONLY into unit
 * harnesses that compile single library .c files with -DSVT_AV1_VERIF and do not link the library (checks/common.py
 * compile_harness adds this file when `libs` is empty).  The hooked EB_MALLOC* / EB_CREATE_* macros call
 * svt_verif_fail_here(); here it never asks for a failure.  Harnesses that link libSvtAv1Enc.a / libSvtAv1Dec.a get the
 * real definitions from EbMalloc.o and must not see this file (a weak definition would keep the archive member out). */
volatile long svt_verif_fail_at __attribute__((weak))     = 0;
volatile long svt_verif_alloc_count __attribute__((weak)) = 0;
volatile long svt_verif_fired __attribute__((weak))       = 0;
const char   *svt_verif_fail_file __attribute__((weak))   = 0;
int           svt_verif_fail_line __attribute__((weak))   = 0;
void (*svt_verif_site_hook)(const char *file, int line, long count) __attribute__((weak)) = 0;
__attribute__((weak)) int svt_verif_fail_here(const char *file, int line) {
    (void)file; (void)line;
    svt_verif_alloc_count++;
    return 0;
}
