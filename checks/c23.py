"""C23 — system resource manager: Lean transition-system proofs + line-by-line correspondence of the model
with the REAL EbSystemResourceManager.c (sequential API calls plus really-blocking background calls) +
the property's own oracle evaluated on the real outputs + the atomicity obligation (lock/access table regenerated from the C
source by xlate/srmlocks.py, `decide`d by C23.srm_steps_atomic / srm_steps_shape) + race stress of conflicting operation pairs
on the real code, free-running and with the library's seeded perturbation hook widening the windows in front of every lock."""
import os
import subprocess
import sys
import time
from . import common as C

LEVEL = "proof"
MODULE = "SvtVerif.Props.C23"
CODEC = os.path.join(C.REPO, "Source/Lib/Common/Codec")
OPS_MARK = "--- ops (feed to harness/srm_seq and `svtmodel srm`) ---"


# ----------------------------------------------------------------------------- plumbing
def build_harness():
    srcs = [os.path.join(C.VERIF, "harness", "srm_seq.c")] + [os.path.join(CODEC, f) for f in ("EbThreads.c", "EbMalloc.c", "EbLog.c")]
    srcs = [s for s in srcs if os.path.exists(s)]
    # EbSystemResourceManager.c is #included by the harness; make the cache key depend on it
    return C.compile_harness("srm_seq", srcs, extra=["-DC23_KEY=\"%s\"" % C.repo_hash(["Source/Lib/Common/Codec/EbSystemResourceManager.c",
                                                                                     "Source/Lib/Common/Codec/EbSystemResourceManager.h"])])


def build_stress():
    srcs = [os.path.join(C.VERIF, "harness", "srm_stress.c")] + [os.path.join(CODEC, f) for f in ("EbThreads.c", "EbMalloc.c", "EbLog.c")]
    srcs = [s for s in srcs if os.path.exists(s)]
    return C.compile_harness("srm_stress", srcs, extra=["-DC23_KEY=\"%s\"" % C.repo_hash(["Source/Lib/Common/Codec/EbSystemResourceManager.c",
                                                                                        "Source/Lib/Common/Codec/EbSystemResourceManager.h"])])


def build_race():
    srcs = [os.path.join(C.VERIF, "harness", "srm_race.c")] + [os.path.join(CODEC, f) for f in ("EbThreads.c", "EbMalloc.c", "EbLog.c")]
    srcs = [s for s in srcs if os.path.exists(s)]
    return C.compile_harness("srm_race", srcs, extra=["-DC23_KEY=\"%s\"" % C.repo_hash(["Source/Lib/Common/Codec/EbSystemResourceManager.c",
                                                                                      "Source/Lib/Common/Codec/EbSystemResourceManager.h"])])


def regenerate_locks():
    """xlate/srmlocks.py: EbSystemResourceManager.c -> lean/SvtVerif/Gen/SrmLocks.lean.  Returns (table, stats, diagnosis, error)."""
    sys.path.insert(0, os.path.join(C.VERIF, "xlate"))
    import cfun
    import srmlocks
    try:
        table, _helpers = srmlocks.main(os.path.join(C.LEAN, "SvtVerif/Gen/SrmLocks.lean"))
    except cfun.Unsupported as e:
        return None, {}, [], str(e)
    return table, srmlocks.stats(table), srmlocks.explain(table), ""


RACE_SCENARIOS = ["inc_rel", "inc_inc", "shared_refs", "ren_rel", "get_rel"]
RACE_WHAT = {
    "inc_rel": "svt_object_inc_live_count vs svt_release_object on one wrapper; final count exact; returns to the pool exactly at the last release",
    "inc_inc": "svt_object_inc_live_count vs svt_object_inc_live_count on one wrapper; final count = sum of increments",
    "shared_refs": "per-thread {inc; release} pairs + final release on one shared wrapper; back in the pool exactly once, never early",
    "ren_rel": "svt_object_release_disable vs svt_release_object of the last reference; returned xor kept-with-count-0; pool conserved every round",
    "get_rel": "svt_get_empty_object (blocking, fewer objects than threads) vs svt_release_object; exclusive hand-out, no hang, pool conserved",
    "post_get": "harness/srm_stress under perturbation: svt_post_full_object vs svt_get_full_object from several consumers + shutdown",
}


def race_plan(chk):
    """[(scenario, seed, threads, iters, perturb-or-None)] -- every scenario free-running and with forced windows."""
    quick = chk.tier == "quick"
    plan = []
    for sc in RACE_SCENARIOS:
        # perturbed runs sleep in front of every lock: a few hundred iterations already force thousands of overlapping windows
        # (the seeded read-before-lock loses > 50 % of the updates there); kept small because sleeps stretch under machine load
        free_it = {"ren_rel": 15000 if quick else 200000}.get(sc, 200000 if quick else 1500000)
        pert_it = {"get_rel": 250 if quick else 4000, "ren_rel": 200 if quick else 5000}.get(sc, 500 if quick else 8000)
        for rep in range(1 if quick else 3):
            plan.append((sc, chk.rng.below(1 << 30), chk.rng.range(2, 4), free_it, None))
            plan.append((sc, chk.rng.below(1 << 30), chk.rng.range(2, 4), pert_it, "%d:50:200" % chk.rng.range(1, 1 << 20)))
    return plan


def run_race_one(rexe, item):
    sc, seed, thr, iters, pert = item
    env = {"SVT_VERIF_PERTURB": pert} if pert else {"SVT_VERIF_PERTURB": ""}
    rc, out = C.sh([rexe, sc, str(seed), str(thr), str(iters)], timeout=400, env=env)
    ok = rc == 0 and out.startswith("ok")
    return item, ok, out.strip()[-600:]


def race_text(item, out):
    sc, seed, thr, iters, pert = item
    return ("the REAL system resource manager violates the property under a race of conflicting operations\n"
            "race: %s %d %d %d %s\n(scenario seed threads iterations SVT_VERIF_PERTURB-or-'-'; scenario = %s)\n"
            "output of harness/srm_race on the real code: %s\n"
            "replay: bin/check C23 --replay <this file>\n" % (sc, seed, thr, iters, pert or "-", RACE_WHAT.get(sc, ""), out))


def run_race(chk, rexe, plan):
    """Returns (results, first failure text or None)."""
    res = C.run_parallel(lambda it: run_race_one(rexe, it), plan, workers=4)
    fail = None
    for item, ok, out in res:
        if not ok and fail is None:
            fail = race_text(item, out)
    return res, fail


def run_stress(chk, sexe, configs, perturb=None):
    """N producers / M consumers on the real SRM; returns (runs, objects moved, failure text or None)."""
    moved = 0
    for n, cfg in enumerate(configs):
        rc, out = C.sh([sexe] + [str(x) for x in cfg], timeout=180, env={"SVT_VERIF_PERTURB": perturb or ""})
        if rc != 0 or not out.startswith("ok"):
            return n + 1, moved, ("the REAL system resource manager violates the property under real concurrency\n"
                                  "stress: %s\n(seed nObj nProducers nConsumers postsPerProducer serialisePosts)%s\noutput: %s\n"
                                  "replay: bin/check C23 --replay <this file>\n" % (" ".join(str(x) for x in cfg),
                                                                                   "\nperturb: %s" % perturb if perturb else "", out.strip()[-400:]))
        moved += cfg[2] * cfg[4]
    return len(configs), moved, None


def run_real(exe, lines, timeout=600):
    p = subprocess.run([exe, "0"], input=("\n".join(lines) + "\n").encode(), stdout=subprocess.PIPE, stderr=subprocess.PIPE, timeout=timeout)
    out = p.stdout.decode("utf-8", "replace").split("\n")
    if out and out[-1] == "":
        out.pop()
    return p.returncode, out, p.stderr.decode("utf-8", "replace")[-2000:]


class Model:
    """Interactive `svtmodel srm` process (the generator asks the model for the state after every op)."""

    def __init__(self, exe):
        self.p = subprocess.Popen([exe, "srm"], stdin=subprocess.PIPE, stdout=subprocess.PIPE)

    def ask(self, line):
        self.p.stdin.write((line + "\n").encode())
        self.p.stdin.flush()
        r = self.p.stdout.readline().decode().rstrip("\n")
        if r == "":
            raise RuntimeError("svtmodel srm died on: " + line)
        return r

    def close(self):
        try:
            self.p.stdin.close()
            self.p.wait(timeout=10)
        except Exception:
            self.p.kill()


def model_batch(mexe, lines):
    p = subprocess.run([mexe, "srm"], input=("\n".join(lines) + "\n").encode(), stdout=subprocess.PIPE, stderr=subprocess.PIPE, timeout=600)
    out = p.stdout.decode().split("\n")
    if out and out[-1] == "":
        out.pop()
    return out


def parse_list(s):
    s = s.strip()[1:-1]
    return [int(x) for x in s.split(",")] if s else []


def parse_digest(line):
    """'res | E o=[..] p=[..] f0=[..]/sem/quit | F ... | L=.. R=.. B=..' -> dict"""
    parts = line.split(" | ")
    d = {"res": parts[0]}
    for tag, part in (("E", parts[1]), ("F", parts[2])):
        toks = part.split()
        q = {"null": len(toks) > 1 and toks[1] == "none", "o": [], "p": [], "f": []}
        if not q["null"]:
            for t in toks[1:]:
                k, v = t.split("=", 1)
                if k == "o":
                    q["o"] = parse_list(v)
                elif k == "p":
                    q["p"] = parse_list(v)
                else:
                    items, sem, quit = v.rsplit("/", 2)
                    q["f"].append({"items": parse_list(items), "sem": int(sem), "quit": int(quit)})
        d[tag] = q
    for t in parts[3].split():
        k, v = t.split("=", 1)
        if k == "L":
            d["L"] = [int(x) for x in v.split(",")] if v else []
        elif k == "R":
            d["R"] = [int(x) for x in v.split(",")] if v else []
        elif k == "B":
            d["B"] = {}
            for i in range(0, len(v) - 2, 3):
                d["B"][(v[i], int(v[i + 1]))] = v[i + 2]
    d.setdefault("B", {})
    return d


def in_lists(d):
    xs = []
    for tag in ("E", "F"):
        xs += d[tag]["o"]
        for f in d[tag]["f"]:
            xs += f["items"]
    return xs


# ----------------------------------------------------------------------------- generator
def gen_sequence(rng, model, mode, nobj_max, length):
    """One `init` block: returns (ops, model_lines, skips) with skipped ops removed."""
    n = rng.range(1, nobj_max)
    p = rng.range(1, 3)
    c = rng.choice([1, 1, 1, 2, 2, 3, 0]) if mode != "nb1" else 1
    ops = ["init %d %d %d" % (n, p, c)]
    outs = [model.ask(ops[0])]
    skips = {}
    st = parse_digest(outs[0])
    for _ in range(length):
        held = sorted(set(range(n)) - set(in_lists(st)))
        notheld = sorted(set(in_lists(st)))
        cand = []

        def add(w, s):
            cand.append((w, s))
        blocked = [k for k, v in st["B"].items() if v == "-"]
        done = [k for k, v in st["B"].items() if v == "+"]
        e_avail = bool(st["E"]["o"]) or any(f["items"] for f in st["E"]["f"])
        f_avail = (not st["F"]["null"]) and (bool(st["F"]["o"]) or any(f["items"] or (f["quit"] and f["sem"]) for f in st["F"]["f"]))
        add(7 if e_avail else 1, "ge %d" % rng.below(p))
        if mode in ("block", "shut", "malformed") or rng.chance(1, 4):
            add(3 if not e_avail else 1, "bge %d" % rng.below(p))
            if c:
                add(4 if not f_avail else 1, "bgf %d" % rng.below(c))
        for k in done:
            add(8, "join %s %d" % k)
        if c:
            add(6 if f_avail else 1, "gf %d" % rng.below(c))
            if c == 1 or mode == "malformed":
                add(3, "gn %d" % rng.below(c))
            if mode == "shut":
                add(2, "shut")
            elif rng.chance(1, 40):
                add(1, "shut")
        for o in held:
            if c:
                add(5, "post %d" % o)
            add(3, "rel %d" % o)
            if rng.chance(1, 4):
                add(1, "inc %d %d" % (o, rng.range(1, 3)))
            if rng.chance(1, 6):
                add(1, "ren %d %d" % (o, rng.below(2)))
        if mode == "malformed":
            for o in notheld:
                add(2, "rel %d" % o)          # double release / release of a queued object
                add(1, "inc %d %d" % (o, rng.choice([1, 2, 4294967295, 4294967294])))
                add(1, "ren %d %d" % (o, rng.below(2)))
                add(1, "post %d" % o)         # never reaches the real code (model: unsafe)
            for k in blocked:
                add(1, "join %s %d" % k)      # not finished: skipped
            add(1, "ge %d" % (p + rng.below(2)))   # fifo index out of range: skipped as ub
            add(1, "post %d" % (n + rng.below(2)))
            if held:
                add(2, "inc %d %d" % (rng.choice(held), rng.choice([4294967295, 4294967294, 2147483648])))
        if done:
            # a finished background call already owns its object: report it before anything else happens,
            # so that the generator's (and the oracle's) notion of "held" is exact
            cand = [(1, "join %s %d" % sorted(done)[0])]
        tot = sum(w for w, _ in cand)
        r = rng.below(tot)
        for w, s in cand:
            if r < w:
                op = s
                break
            r -= w
        out = model.ask(op)
        if out.startswith("skip"):
            key = out[5:].split(" (")[0]
            skips[key] = skips.get(key, 0) + 1
            continue
        if out == "bad-op":
            raise RuntimeError("generator produced a bad op: " + op)
        ops.append(op)
        outs.append(out)
        st = parse_digest(out)
    return ops, outs, skips


# ----------------------------------------------------------------------------- oracle on REAL outputs
def oracle(ops, real):
    """The property evaluated on what the real SRM returned / holds.  Returns list of (index, text)."""
    bad = []
    n = 0
    held, live, ren, free = set(), {}, {}, set()
    outstanding, seq, last = {}, 0, {}
    bgside = {}
    for i, (op, line) in enumerate(zip(ops, real)):
        w = op.split()
        try:
            d = parse_digest(line)
        except Exception:
            bad.append((i, "unparsable output line: %r" % line))
            break
        res = d["res"].split()
        k = w[0]
        if k == "init":
            n = int(w[1])
            held, free = set(), set(range(n))
            live = {o: 0 for o in range(n)}
            ren = {o: 1 for o in range(n)}
            outstanding, seq, last, bgside = {}, 0, {}, {}
        elif res[0] == "timeout":
            bad.append((i, "blocked call did not return although the model says it is woken (lost wake-up / hang)"))
        elif k in ("ge", "gf", "gn", "join") and res[0] == "obj":
            o = int(res[1])
            side = "e" if k == "ge" or (k == "join" and w[1] == "e") else "f"
            fid = int(w[-1])
            if o in held:
                bad.append((i, "object %d handed out while another holder still has it" % o))
            if side == "e":
                if o not in free:
                    bad.append((i, "object %d delivered as empty before its last reference was released" % o))
                free.discard(o)
                live[o], ren[o] = 0, 1
            else:
                if o not in outstanding:
                    bad.append((i, "object %d delivered to a consumer but it is not a posted, undelivered object" % o))
                else:
                    sq = outstanding.pop(o)
                    if sq < last.get(fid, -1):
                        bad.append((i, "consumer fifo %d received post #%d after post #%d: delivery order differs from posting order" % (fid, sq, last[fid])))
                    last[fid] = sq
            held.add(o)
        elif k == "post":
            o = int(w[1])
            held.discard(o)
            outstanding[o] = seq
            seq += 1
        elif k == "rel":
            o = int(w[1])
            l = live[o] - 1 if live[o] else 0
            if ren[o] and l == 0:
                live[o] = 0xFFFFFFFF
                held.discard(o)
                free.add(o)
            else:
                live[o] = l
        elif k == "inc":
            live[int(w[1])] = (live[int(w[1])] + int(w[2])) & 0xFFFFFFFF
        elif k == "ren":
            ren[int(w[1])] = int(w[2])
        # conservation on the real internal state: every object exactly once (a list, or a holder)
        lists = in_lists(d)
        acc = sorted(lists + sorted(held))
        missing = set(range(n)) - set(acc)
        finished_unjoined = sum(1 for v in d["B"].values() if v == "+")   # each may hold one object not yet reported
        if len(set(acc)) != len(acc) or any(o < 0 or o >= n for o in acc) or len(missing) > finished_unjoined:
            bad.append((i, "objects not conserved: in queues/fifos %s, held %s, finished background calls %d, expected each of 0..%d exactly once" %
                        (sorted(lists), sorted(held), finished_unjoined, n - 1)))
        # wake-up: a really blocked thread while something is available for it
        for (sd, f), stt in d["B"].items():
            if stt != "-":
                continue
            q = d["E" if sd == "e" else "F"]
            if q["o"]:
                bad.append((i, "thread blocked on %s-fifo %d while the object queue holds %s (lost wake-up)" % (sd, f, q["o"])))
            if f < len(q["f"]) and q["f"][f]["items"] and not q["f"][f]["quit"]:
                bad.append((i, "thread blocked on %s-fifo %d while the fifo holds %s (lost wake-up)" % (sd, f, q["f"][f]["items"])))
            if sd == "f" and k == "shut":
                bad.append((i, "consumer still blocked on fifo %d after svt_shutdown_process" % f))
        if k in ("gf", "join") and res[0] == "shutdown":
            fid = int(w[-1])
            if not d["F"]["f"][fid]["quit"]:
                bad.append((i, "EB_NoErrorFifoShutdown returned without quit_signal"))
    return bad


# ----------------------------------------------------------------------------- evaluate / shrink
def evaluate(mexe, hexe, ops):
    """Run model (dropping skipped ops) and real code on `ops`; returns (failure or None, kept_ops, real_out, model_out).
    failure = (kind, index, text); kind 'oracle' = the real code violates the property, 'corr' = model/real differ."""
    mo = model_batch(mexe, ops)
    keep = [(o, m) for o, m in zip(ops, mo) if not m.startswith("skip") and m != "bad-op"]
    kops = [o for o, _ in keep]
    kmo = [m for _, m in keep]
    if not kops:
        return None, kops, [], kmo
    rc, ro, err = run_real(hexe, kops)
    fail = None
    orc = oracle(kops, ro[:len(kops)]) if ro else []
    srm_lines = [j for j, o in enumerate(kops) if not o.startswith("cb_")]
    orc = [b for b in orc if b[0] in srm_lines]
    if orc:
        fail = ("oracle", orc[0][0], orc[0][1])
    elif rc != 0 or len(ro) != len(kops):
        fail = ("oracle" if rc in (3, -11, -6, 139, 134) else "corr", min(len(ro), len(kops)) - 1,
                "real code exited rc=%d after %d of %d ops (%s)" % (rc, len(ro), len(kops), (ro[-1] if ro else "") + err[-200:]))
    else:
        for j, (a, b) in enumerate(zip(ro, kmo)):
            if a != b:
                fail = ("corr", j, "real : %s\nmodel: %s" % (a, b))
                break
    return fail, kops, ro, kmo


def split_blocks(ops):
    blocks, cur = [], []
    for o in ops:
        if o.startswith("init") or o.startswith("cb_new"):
            if cur:
                blocks.append(cur)
            cur = []
        cur.append(o)
    if cur:
        blocks.append(cur)
    return blocks


def shrink(mexe, hexe, ops, kind, budget=250):
    """ddmin on the ops after the first line (init)."""
    head, body = ops[:1], ops[1:]
    runs = 0

    def fails(b):
        nonlocal runs
        runs += 1
        f, _, _, _ = evaluate(mexe, hexe, head + b)
        return f is not None and f[0] == kind
    chunk = max(1, len(body) // 2)
    while True:
        i, changed = 0, False
        while i < len(body):
            cand = body[:i] + body[i + chunk:]
            if runs < budget and fails(cand):
                body, changed = cand, True
            else:
                i += chunk
        if chunk == 1:
            if not changed or runs >= budget:
                break
        else:
            chunk = max(1, chunk // 2)
    return head + body


def failure_text(title, fail, kops, ro, kmo):
    kind, idx, text = fail
    lines = [title, "first failing op: #%d `%s`" % (idx, kops[idx] if 0 <= idx < len(kops) else "?"), text, "", OPS_MARK]
    lines += kops
    lines += ["--- real outputs ---"] + ro + ["--- model outputs ---"] + kmo
    lines += ["replay: bin/check C23 --replay <this file>"]
    return "\n".join(lines) + "\n"


# ----------------------------------------------------------------------------- run
def gen_cb_stream(rng, nops):
    ops = []
    while len(ops) < nops:
        cap = rng.range(1, 5)
        ops.append("cb_new %d" % cap)
        fill = 0
        over = rng.chance(1, 3)  # allow overflow / underflow (the array code is defined for every op sequence)
        for _ in range(rng.range(5, 40)):
            r = rng.below(10)
            if r < 3 and (over or fill < cap):
                ops.append("cb_pb %d" % rng.range(1, 9)); fill += 1
            elif r < 6 and (over or fill < cap):
                ops.append("cb_pf %d" % rng.range(1, 9)); fill += 1
            elif r < 8 and (over or fill > 0):
                ops.append("cb_pop"); fill = max(0, fill - 1)
            else:
                ops.append("cb_empty")
    return ops


def run(chk, replay_ops=None, replay_stress=None, replay_race=None):
    # the lock/access table is regenerated from the current source BEFORE the proofs are built (srm_steps_atomic decides it)
    timing = {}
    t0 = time.time()

    def lap(name):
        nonlocal t0
        timing[name] = round(timing.get(name, 0) + time.time() - t0, 1)
        t0 = time.time()
    ltable, lstats, ldiag, lerr = regenerate_locks()
    lap("regenerate_lock_table")
    pr = chk.proofs(MODULE, trusted_extra=[
        "xlate/srmlocks.py: clang-14 JSON AST of EbSystemResourceManager.c -> ordered lock/unlock/semaphore/read/write events of every path of every "
        "non-constructor function (helpers inlined, loops unrolled 0/1/2 with a lock-neutrality check, pure if/else branches joined); refuses on anything outside its whitelist; "
        "constructors/destructors are exempt (single-threaded construction)",
        "Model/LockDiscipline.lean: hand-written protection map (live_count/release_enable -> empty queue lockout_mutex of the owning resource; fifo first/last/quit and next_ptr links -> "
        "the fifo's lockout_mutex; ring head/tail/count/slots -> the muxing queue's lockout_mutex; everything else immutable after construction) and the allow-list "
        "(svt_get_empty_object c617/c620: stores to a wrapper this thread has just unlinked and nobody else references)",
        "that the fifo sections nested inside a queue section commute with other threads' steps on that fifo is argued from disjointness, not mechanised",
        "harness/srm_race.c: conflicting operation pairs on the real SRM, free-running and under SVT_VERIF_PERTURB (EbThreads.c hook) with exact end-state oracles",
        "Model/Srm.lean: hand transcription of EbSystemResourceManager.c at mutex granularity (each Op = one critical section or one semaphore operation); "
        "pthread mutex/semaphore assumed sequentially consistent and atomic; one thread per EbFifo",
        "harness/srm_stress.c: N producer / M consumer pthreads on the real SRM with a 20 s watchdog (hang = violation)",
        "harness/srm_seq.c: #includes the real EbSystemResourceManager.c, links real EbThreads.c/EbMalloc.c/EbLog.c; prints returned object / NULL / shutdown and a digest of the real "
        "rings, fifo lists, semaphore values, quit flags, live counts after every call; blocking calls run on real pthreads",
        "the svt_muxing_queue_assignation loop is treated as one atomic step (it runs entirely under the queue's lockout mutex)"])
    lap("lake_build_and_axiom_audit")
    mexe = C.ensure_driver()
    hexe = build_harness()
    lap("driver_and_harness_build")
    quick = chk.tier == "quick"
    target_ops = 80000 if quick else 1200000
    nobj_max = 4 if quick else 6

    failures = []   # (kind, text)
    n_eval = 0
    distinct = set()
    opk, resk, params, skips_all, modes_n = {}, {}, {}, {}, {}
    real_blocks = wakes = shut_wakes = 0

    def account(kops, ro):
        nonlocal n_eval, real_blocks, wakes, shut_wakes
        prevB = {}
        par = ""
        for o, r in zip(kops, ro):
            k = o.split()[0]
            if k.startswith("cb_"):
                opk[k] = opk.get(k, 0) + 1
                n_eval += 1
                distinct.add((k, r))
                continue
            if k == "init":
                par = o[5:]
                params[par] = params.get(par, 0) + 1
                prevB = {}
            opk[k] = opk.get(k, 0) + 1
            rk = (r.split(" | ")[0].split() or ["?"])[0]
            resk[k + "->" + rk] = resk.get(k + "->" + rk, 0) + 1
            n_eval += 1
            dg = r.split(" | ", 1)[1] if " | " in r else ""
            distinct.add((par, k, rk, dg))
            try:
                B = parse_digest(r)["B"]
            except Exception:
                B = {}
            for key, v in B.items():
                if v == "-" and key not in prevB:
                    real_blocks += 1
                if v == "+" and prevB.get(key) == "-":
                    wakes += 1
                    if k == "shut":
                        shut_wakes += 1
            prevB = B

    def handle(ops, mode, pre=None):
        fail, kops, ro, kmo = pre if pre is not None else evaluate(mexe, hexe, ops)
        account(kops, ro)
        if fail:
            # find the failing block and shrink it
            blocks = split_blocks(kops)
            pos, blk = 0, blocks[-1]
            for b in blocks:
                if pos + len(b) > fail[1]:
                    blk = b
                    break
                pos += len(b)
            f2, _, _, _ = evaluate(mexe, hexe, blk)
            if f2 is not None and f2[0] == fail[0]:
                small = shrink(mexe, hexe, blk, fail[0])
                f3, k3, r3, m3 = evaluate(mexe, hexe, small)
                if f3 is not None:
                    fail, kops, ro, kmo = f3, k3, r3, m3
            failures.append((fail[0], mode, failure_text(
                "the REAL system resource manager violates the property" if fail[0] == "oracle"
                else "model and real SRM disagree (the real outputs still satisfy the property oracle)", fail, kops, ro, kmo)))

    def gen_stream(arg):
        """One generator stream (own PRNG derived from the run's seed, own interactive model process).  The streams run
        concurrently only to overlap the per-line round-trip latency with the model process; what they generate depends on
        VERIF_SEED alone."""
        seed, n_ops, first_mode = arg
        rng = C.Rng(seed)
        model = Model(mexe)
        batches, batch, skips, modes = [], [], {}, {}
        mode_cycle = ["valid", "valid", "block", "shut", "malformed", "nb1", "block", "valid"]
        mi, total = first_mode, 0
        try:
            while total < n_ops:
                mode = mode_cycle[mi % len(mode_cycle)]
                mi += 1
                ops, outs, sk = gen_sequence(rng, model, mode, nobj_max, rng.range(20, 160))
                for k, v in sk.items():
                    skips[k] = skips.get(k, 0) + v
                modes[mode] = modes.get(mode, 0) + 1
                batch += ops
                total += len(ops)
                if len(batch) >= 4000:
                    batches.append(batch)
                    batch = []
            if batch:
                batches.append(batch)
        finally:
            model.close()
        return batches, skips, modes

    stress_runs = stress_moved = 0
    stress_fail = None
    race_res, race_fail = [], None
    if replay_race is not None:
        race_res, race_fail = run_race(chk, build_race(), [replay_race])
    elif replay_stress is not None:
        stress_runs, stress_moved, stress_fail = run_stress(chk, build_stress(), [replay_stress[0]], perturb=replay_stress[1])
    elif replay_ops is not None:
        handle(replay_ops, "replay")
    else:
        # corpus first
        cdir = os.path.join(C.VERIF, "corpus")
        if os.path.isdir(cdir):
            for fn in sorted(os.listdir(cdir)):
                if fn.startswith("C23_"):
                    ops = read_ops(os.path.join(cdir, fn))
                    if ops:
                        handle(ops, "corpus:" + fn)
        nstreams = 4
        streams = C.run_parallel(gen_stream, [(chk.rng.next(), (target_ops + nstreams - 1) // nstreams, 3 * i) for i in range(nstreams)], workers=nstreams)
        lap("sequence_generation(4 streams)")
        batches = []
        for bs, sk, md in streams:
            batches += bs
            for k, v in sk.items():
                skips_all[k] = skips_all.get(k, 0) + v
            for k, v in md.items():
                modes_n[k] = modes_n.get(k, 0) + v
        # model (batch) and REAL code on every batch, 4 at a time; accounting / verdicts in order
        for i in range(0, len(batches), 8):
            chunk = batches[i:i + 8]
            for ops, pre in zip(chunk, C.run_parallel(lambda b: evaluate(mexe, hexe, b), chunk, workers=4)):
                handle(ops, "generated", pre=pre)
            if failures:
                break
        if not failures:
            handle(gen_cb_stream(chk.rng, 4000 if quick else 40000), "circbuf")
        lap("sequential_correspondence")
        if not failures:
            cfgs = [(chk.rng.below(1 << 30), chk.rng.range(1, 8), chk.rng.range(1, 4), chk.rng.range(1, 4),
                     chk.rng.choice([2000, 10000, 30000] if quick else [10000, 50000, 150000]), chk.rng.below(2))
                    for _ in range(6 if quick else 60)]
            stress_runs, stress_moved, stress_fail = run_stress(chk, build_stress(), cfgs)
            if not stress_fail:
                # post_full vs get_full from several consumers with the windows in front of every lock / semaphore widened
                pcfgs = [(chk.rng.below(1 << 30), chk.rng.range(1, 4), chk.rng.range(1, 3), chk.rng.range(2, 4),
                          chk.rng.choice([150, 300] if quick else [1000, 3000]), chk.rng.below(2)) for _ in range(2 if quick else 10)]
                pert = "%d:40:150" % chk.rng.range(1, 1 << 20)
                n2, m2, stress_fail = run_stress(chk, build_stress(), pcfgs, perturb=pert)
                stress_runs += n2
                stress_moved += m2
                chk.cov["stress_runs_perturbed"] = {"runs": n2, "objects": m2, "SVT_VERIF_PERTURB": pert, "what": RACE_WHAT["post_get"]}
        lap("producer_consumer_stress")
        if not failures and not stress_fail:
            race_res, race_fail = run_race(chk, build_race(), race_plan(chk))
        lap("race_stress")

    chk.cov["evaluations"] = n_eval
    chk.cov["distinct_nontrivial"] = len(distinct)
    chk.cov["rule"] = ("distinct (SRM parameters, API call kind, result kind, digest of the REAL internal state after the call: both rings, every fifo list, "
                       "semaphore value, quit flag, live counts, release flags, background-call status) tuples over all executed calls; every call is compared with the Lean model line by line")
    chk.cov["op_histogram"] = dict(sorted(opk.items()))
    chk.cov["result_histogram"] = dict(sorted(resk.items()))
    chk.cov["params_histogram(nObj nProd nCons)"] = dict(sorted(params.items()))
    chk.cov["mode_histogram"] = modes_n
    chk.cov["generator_ops_rejected_by_model"] = skips_all
    chk.cov["calls_that_really_blocked"] = real_blocks
    chk.cov["real_wakeups_observed"] = wakes
    chk.cov["real_wakeups_by_shutdown"] = shut_wakes
    chk.cov["stress_runs(real pthreads)"] = stress_runs
    chk.cov["stress_objects_posted_and_consumed"] = stress_moved
    chk.cov["disagreements_checked"] = n_eval
    chk.cov["lock_table"] = dict(lstats, translator_error=lerr, discipline_diagnosis=ldiag[:6],
                                 note="events of every path of every API function of EbSystemResourceManager.c; protected_accesses = reads/writes of mutex-guarded members")
    chk.cov["race_scenarios"] = [{"scenario": it[0], "seed": it[1], "threads": it[2], "iterations": it[3], "perturb": it[4] or "free-running",
                                  "result": out[:160]} for it, ok, out in race_res]
    chk.cov["timing_s"] = timing
    chk.cov["race_runs"] = len(race_res)
    chk.cov["race_iterations_total"] = sum(it[2] * it[3] for it, _, _ in race_res)
    chk.cov["race_scenarios_what"] = RACE_WHAT
    chk.sample({"note": "every executed line: real result + real state digest == model result + model state"})
    chk.assumptions += [
        "one thread per EbFifo at a time (a fifo handle belongs to one process context)",
        "callers post / release only objects that are currently handed out (WellUsed)",
        "pthread mutex / POSIX semaphore are atomic and sequentially consistent; EINTR loop and weak memory not modelled",
        "svt_get_full_object_non_blocking on a resource with more than one consumer fifo can overflow the process ring: outside the modelled domain (model answers ub)"]

    real_viol = [f for f in failures if f[0] == "oracle"]
    corr = [f for f in failures if f[0] == "corr"]
    broken = ""
    if ltable is None:
        broken += "(also: xlate/srmlocks.py refused the current EbSystemResourceManager.c: %s)\n" % lerr
    if not pr.ok:
        broken += "(also: proof obligations of %s no longer check: %s)\n" % (MODULE, "; ".join("%s: %s" % (k, str(v)[:160]) for k, v in pr.failed.items()))
    if ldiag:
        broken += "(lock-discipline diagnosis of the current source: %s)\n" % " | ".join(ldiag[:4])
    if real_viol:
        chk.violation(real_viol[0][2])
    elif stress_fail:
        chk.violation(stress_fail + broken, tag="stress")
    elif race_fail:
        chk.violation(race_fail + broken, tag="race")
    elif ltable is None:
        chk.violation("the lock-discipline translator refused the current source, so C23.srm_steps_atomic / srm_steps_shape say nothing about it:\n%s\n"
                      "no failing run found: %d calls checked by the oracle, %d race runs (%d thread-iterations) and %d stress runs on the real SRM all satisfied the property\n" %
                      (lerr, n_eval, len(race_res), sum(it[2] * it[3] for it, _, _ in race_res), stress_runs), tag="xlate", found_input=False)
    elif not pr.ok:
        chk.violation("proof obligations of %s no longer check:\n%s\nforbidden tokens: %s\n%s"
                      "no input found on which the real SRM violates the property (%d calls executed and checked by the oracle; %d race runs, %d thread-iterations, "
                      "and %d stress runs on the real SRM all satisfied it)\n" %
                      (MODULE, "\n".join("%s: %s" % kv for kv in pr.failed.items()), pr.forbidden,
                       ("lock-discipline diagnosis (python mirror of LockDiscipline.disciplined on the regenerated table):\n  " + "\n  ".join(ldiag[:8]) + "\n") if ldiag else "",
                       n_eval, len(race_res), sum(it[2] * it[3] for it, _, _ in race_res), stress_runs), tag="proof", found_input=False)
    elif corr:
        chk.violation(corr[0][2], tag="corr", found_input=False)


def read_ops(path):
    ops, on = [], False
    for line in open(path):
        line = line.rstrip("\n")
        if line.startswith("--- ops"):
            on = True
            continue
        if on and line.startswith("---"):
            break
        if on and line.strip() and not line.startswith("replay:"):
            ops.append(line)
    return ops


def replay(chk, path):
    lines = open(path).read().split("\n")
    for line in lines:
        if line.startswith("race: "):
            w = line[6:].split()
            return run(chk, replay_race=(w[0], int(w[1]), int(w[2]), int(w[3]), None if w[4] == "-" else w[4]))
        if line.startswith("stress: "):
            pert = [l[9:].strip() for l in lines if l.startswith("perturb: ")]
            return run(chk, replay_stress=(tuple(int(x) for x in line[8:].split()), pert[0] if pert else None))
    ops = read_ops(path)
    if ops:
        run(chk, replay_ops=ops)
    else:
        run(chk)
