"""C04 — encoding is deterministic under every thread interleaving.

(1) Lean: protocol theorems of SvtVerif/Props/C04.lean (task-graph confluence for any number of workers and any
    interleaving, the EncDec-segment instance via C24, completion counters, the me_ready cond-var handshake, FIFO /
    reorder queues re-exported from C23 / C22, determinism of a network of deterministic stages).  They are conditional on
    the named hypothesis H-footprint (kernel bodies touch shared per-picture state only as the task model says).
(2) Oracle on the REAL encoder (exercises H-footprint): every configuration is encoded in-process (harness/enc_e2e.c)
      * once with logical_processors = 1,
      * K times with its own thread count under K different schedules: one unperturbed run and K-1 runs with the guarded
        hook SVT_VERIF_PERTURB=<seed>[:pct[:max_us]] (seeded sched_yield / usleep at every semaphore, mutex and cond-var
        wrapper of EbThreads.c),
    and packets (pts, flags, size, content hash) + reconstructed pictures (pts, content hash) must be identical across all
    runs of the configuration.  Every run is under a watchdog; a timeout counts only if it reproduces.
    Three families of configurations:
      main  CQP, cfg.enable_tpl_la = 0.  Any difference is a VIOLATION.
      tpl   CQP, TPL look-ahead on (the library default), run under CPU contention (two cores, several encodes at once).
            Known defect: with enable_tpl_la = 1 and >= 2 logical processors the encoder occasionally does not reproduce its
            own packets at FIXED settings (first differing picture: pts 1).  A difference is classified by a differential test
            (re-run each of the two differing settings; re-run with enable_tpl_la = 0) and goes through the family key
            C04-tpl-nondeterministic-lp2plus only if it has that signature; anything else is a VIOLATION.
      rc    rate_control_mode 1 / 2: same treatment with key C04-rate-control-schedule-dependent (knob: rate_control_mode = 0).
"""
import os
import re
import time
import zlib
from . import common as C

LEVEL = "other"
MODULE = "SvtVerif.Props.C04"
WATCHDOG = 300          # seconds (>= 20x a typical run)
PAR = 4                 # parallel encodes (machine is shared)
KEY_TPL = "C04-tpl-nondeterministic-lp2plus"
KEY_RC = "C04-rate-control-schedule-dependent"
TPL = "cfg.enable_tpl_la"
RCM = "cfg.rate_control_mode"
E = "cfg.enc_mode"
LP = "cfg.logical_processors"

EXPLANATION = (
    "LEVEL other: the machine-checked part are PROTOCOL theorems, each for all sizes / any number of threads / all interleavings "
    "(dag_confluence, dag_equals_sequential, dag_progress; encdec_guard_enforced + encdec_confluence + encdec_terminates from C24; "
    "last_one_fires_once; handshake_no_lost_wakeup; reorder_inorder and srm_fifo re-exported from C22/C23; "
    "network_output_deterministic / determinism_under_footprint for a Kahn network of stages).  They are CONDITIONAL on hypothesis "
    "H-footprint (kernel bodies touch shared per-picture state only as the task model says; each stage is a function of its input "
    "histories), which is NOT proved of the ~100k lines of pixel code.  H-footprint is exercised, not proved, by the sweep: every "
    "configuration is really encoded with 1 thread and K times with its own thread count under seeded schedule perturbation, and "
    "packets + reconstructions are compared byte-wise.  The main sweep runs with enable_tpl_la=0 and CQP; H-footprint is known to be "
    "FALSE of the real code with the TPL look-ahead on (default) and with rate control on: those two families are swept separately and "
    "their differences are reported as the listed findings after a differential test.  Sequentially-consistent memory is assumed by "
    "the models; TSan is not used.")


def e2e(args, timeout, env=None, retry=True):
    try:
        return C.run_e2e(args, timeout=timeout, env=env, retry_hung=retry)
    except TypeError:
        return C.run_e2e(args, timeout=timeout, env=env)


# ----------------------------------------------------------------------------- configurations
def main_configs(chk):
    cs = [
        ("small-8bit", dict(w=64, h=64, n=10, bd=8, content=4, **{E: 8, LP: 4})),
        ("one-sb-wide", dict(w=64, h=256, n=8, bd=8, content=4, **{E: 8, LP: 4})),          # 64-wide: the F2 grid
        ("m4-hl4", dict(w=192, h=128, n=10, bd=8, content=4, **{E: 4, LP: 4, "cfg.hierarchical_levels": 4})),
        ("tiles-10bit", dict(w=256, h=192, n=8, bd=10, content=0, **{E: 6, LP: 16, "cfg.tile_columns": 1, "cfg.tile_rows": 1})),
        ("lp2-gradient", dict(w=128, h=128, n=12, bd=8, content=2, **{E: 8, LP: 2, "cfg.hierarchical_levels": 3})),
        ("screen-m5", dict(w=192, h=128, n=8, bd=8, content=5, **{E: 5, LP: 4, "cfg.screen_content_mode": 1})),
        ("wide-tiles-m7", dict(w=320, h=192, n=8, bd=10, content=4, **{E: 7, LP: 16, "cfg.tile_columns": 1})),
        ("long-64", dict(w=64, h=64, n=33, bd=8, content=4, **{E: 8, LP: 4})),
    ]
    if chk.tier == "thorough":
        r = chk.rng
        sizes = [(64, 64), (64, 192), (128, 64), (192, 128), (72, 88), (128, 128), (256, 192), (320, 192), (136, 72), (64, 320), (384, 256)]
        for i in range(10):
            w, h = r.choice(sizes)
            a = dict(w=w, h=h, n=r.range(3, 14), bd=r.choice([8, 8, 10]), content=r.choice([0, 2, 4, 4, 5, 3]))
            a[E] = r.choice([4, 5, 6, 7, 8, 8])
            a[LP] = r.choice([2, 4, 4, 16])
            if r.chance(1, 2):
                a["cfg.hierarchical_levels"] = r.range(0, 4)
            if r.chance(1, 3):
                a["cfg.intra_period_length"] = r.range(1, 8)
            if r.chance(1, 3) and w >= 256:
                a["cfg.tile_columns"] = 1
                a["cfg.tile_rows"] = r.range(0, 1)
            if r.chance(1, 4):
                a["cfg.qp"] = r.choice([20, 35, 50, 60])
            cs.append(("rnd%d" % i, a))
    out = []
    for name, a in cs:
        a = dict(a)
        a[TPL] = 0
        out.append((name, a, "main"))
    # TPL on (the library default) in the main sweep again since the quantizer-table race was repaired (0e5755e): any difference is a VIOLATION.
    # One stream is longer than the parent-PCS pool (~31 pictures at lp 4), so that every picture control set, with its me_ready
    # handshake state, is recycled several times (seeded change C04-1: a recycled PCS keeps me_ready = 1).
    out.append(("tpl-long-recycle", dict(w=256, h=144, n=80, bd=8, content=4, **{E: 8, LP: 4, "cfg.hierarchical_levels": 3, TPL: 1}), "main"))
    out.append(("tpl-m6-10bit", dict(w=192, h=128, n=12, bd=10, content=4, **{E: 6, LP: 4, TPL: 1}), "main"))
    out.append(("twin-tiles-2col", dict(w=256, h=128, n=24, bd=8, content=3, **{E: 8, LP: 4, "cfg.tile_columns": 1, TPL: 0}), "main"))
    out.append(("twin-tiles-2x2", dict(w=256, h=256, n=12, bd=8, content=3, **{E: 8, LP: 8, "cfg.tile_columns": 1, "cfg.tile_rows": 1, TPL: 0}), "main"))
    return out


def family_configs(chk):
    tpl = [
        ("tpl-c05-repro", dict(w=64, h=64, n=5, bd=8, content=4, seed=3000, **{E: 8, LP: 3, "cfg.hierarchical_levels": 2, TPL: 1})),
        ("tpl-small-8bit", dict(w=64, h=64, n=10, bd=8, content=4, **{E: 8, LP: 4, TPL: 1})),
        ("tpl-10bit-hl3", dict(w=192, h=128, n=9, bd=10, content=4, **{E: 7, LP: 4, "cfg.hierarchical_levels": 3, TPL: 1})),
    ]
    rc = [
        ("vbr", dict(w=64, h=64, n=12, bd=8, content=4, **{E: 8, LP: 4, RCM: 1, "cfg.target_bit_rate": 200000, TPL: 0})),
        ("cvbr", dict(w=128, h=64, n=12, bd=8, content=4, **{E: 8, LP: 4, RCM: 2, "cfg.target_bit_rate": 200000, TPL: 0})),
    ]
    if chk.tier == "thorough":
        tpl.append(("tpl-long-64", dict(w=64, h=64, n=33, bd=8, content=4, **{E: 8, LP: 4, TPL: 1})))
        rc.append(("vbr-tpl", dict(w=128, h=64, n=12, bd=8, content=4, **{E: 8, LP: 4, RCM: 1, "cfg.target_bit_rate": 300000, TPL: 1})))
    return [(n, a, "tpl") for n, a in tpl] + [(n, a, "rc") for n, a in rc]


def seeds_for(chk, K):
    """K schedules: None = unperturbed, then seeded perturbations of varying strength."""
    base = chk.rng.below(1 << 30)
    out = [None]
    for j in range(1, K):
        s = base + 7919 * j
        out.append(["%d:40:60" % s, "%d" % s, "%d:25:300" % s, "%d:5:600" % s][j % 4])
    return out


# ----------------------------------------------------------------------------- running
def encode(args, pert, watchdog=WATCHDOG):
    a = dict(args)
    a["decode"] = 0
    a["watchdog"] = watchdog
    a.setdefault("final_nb", 1)     # non-blocking final drain: the blocking one can deadlock against the recon pool (C27 finding)
    t0 = time.time()
    # run_e2e's own retry (once, alone, 4x watchdog) implements "a timeout counts only if it reproduces"
    r = e2e(a, watchdog + 60, {"SVT_VERIF_PERTURB": pert} if pert else None)
    r["wall"] = time.time() - t0
    r["pert"] = pert
    return r


def run_ok(r, args):
    return (not r["hung"] and not r["crashed"] and r["SETPARAM"] == 0 and not r["ERR"] and r["END"] is not None
            and len(r["PKT"]) == args["n"] and (not args.get("recon", 1) or len(r["RECON"]) == args["n"]))


def argline(args, pert=None):
    s = " ".join("%s=%s" % kv for kv in args.items())
    return ("SVT_VERIF_PERTURB=%s " % pert if pert else "") + "enc_e2e " + s


def first_diff(ra, rb):
    """-> (text, pts of the first differing packet or None)"""
    for i, (p, q) in enumerate(zip(ra["PKT"], rb["PKT"])):
        if (p["pts"], p["flags"], p["size"], p["crc"]) != (q["pts"], q["flags"], q["size"], q["crc"]):
            return ("packet %d: pts %s/%s size %s/%s crc %s/%s" % (i, p["pts"], q["pts"], p["size"], q["size"], p["crc"], q["crc"]),
                    p["pts"] if p["pts"] == q["pts"] else None)
    if len(ra["PKT"]) != len(rb["PKT"]):
        return "packet count %d/%d" % (len(ra["PKT"]), len(rb["PKT"])), None
    a = dict((x["pts"], x["crc"]) for x in ra["RECON"])
    b = dict((x["pts"], x["crc"]) for x in rb["RECON"])
    for k in sorted(set(a) | set(b)):
        if a.get(k) != b.get(k):
            return "recon pts %s: %s/%s (packets identical)" % (k, a.get(k), b.get(k)), None
    return "?", None


def run_config(item):
    """All runs of one configuration; returns a result dict."""
    name, args, fam, perts = item
    old_aff = None
    if fam == "tpl":
        # CPU contention makes the TPL race visible: this worker thread (and the encoder processes it starts) is confined to two cores
        try:
            old_aff = os.sched_getaffinity(0)
            cpus = sorted(old_aff)[:2]
            os.sched_setaffinity(0, set(cpus))
        except (AttributeError, OSError):
            old_aff = None
    try:
        runs = []
        a1 = dict(args)
        a1[LP] = 1
        runs.append(("lp1", a1, None))
        for p in perts:
            runs.append(("lp%s" % args.get(LP, 4), args, p))
        res = [(tag, a, p, encode(a, p)) for tag, a, p in runs]
    finally:
        if old_aff is not None:
            try:
                os.sched_setaffinity(0, old_aff)
            except OSError:
                pass
    return {"name": name, "args": args, "family": fam, "runs": res}


def classify(cfg):
    """-> (kind, text, (runA, runB) or None) or None.  kind in {'hang','crash','error','schedule','threads'}"""
    runs = cfg["runs"]
    for tag, a, p, r in runs:
        if r["hung"]:
            return ("hang", "watchdog timeout (%d s, and again alone with %d s)\n%s\npackets so far: %d of %d" %
                    (WATCHDOG, 4 * WATCHDOG, argline(a, p), len(r["PKT"]), a["n"]), None)
        if r["crashed"]:
            return ("crash", "encoder process died rc=%s\n%s\n%s" % (r["rc"], argline(a, p), r["stderr"][-600:]), None)
        if not run_ok(r, a):
            return ("error", "encode did not complete normally: SETPARAM=%s ERR=%s packets=%d recons=%d of %d\n%s" %
                    (r["SETPARAM"], r["ERR"][:3], len(r["PKT"]), len(r["RECON"]), a["n"], argline(a, p)), None)
    sigs = [C.e2e_signature(r) for _, _, _, r in runs]
    for i in range(2, len(runs)):
        if sigs[i] != sigs[1]:
            ra, rb = runs[1], runs[i]
            return ("schedule", "two encodes of the SAME configuration and input differ (only the thread schedule differs)\n"
                    "run A: %s\nrun B: %s\nfirst difference: %s" % (argline(ra[1], ra[2]), argline(rb[1], rb[2]), first_diff(ra[3], rb[3])[0]),
                    (ra, rb))
    if sigs[0] != sigs[1]:
        ra, rb = runs[0], runs[1]
        return ("threads", "the single-thread encode differs from the multi-thread encodes (which agree with each other)\n"
                "run A: %s\nrun B: %s\nfirst difference: %s" % (argline(ra[1], ra[2]), argline(rb[1], rb[2]), first_diff(ra[3], rb[3])[0]),
                (ra, rb))
    return None


def differential(cfg, pair, reps=4):
    """Differential test for a difference met in a labelled family.  -> (is_known_signature, text)."""
    fam = cfg["family"]
    knob = (TPL, 0) if fam == "tpl" else (RCM, 0)
    (ta, aa, pa, ra), (tb, ab, pb, rb) = pair
    txt, pts = first_diff(ra, rb)
    lines = []
    # (1) nondeterminism at FIXED settings: each of the two settings re-run `reps` times
    for label, a, p, r0 in (("A", aa, pa, ra), ("B", ab, pb, rb)):
        sigs = [C.e2e_signature(r0)]
        for _ in range(reps):
            r = encode(a, p)
            if run_ok(r, a):
                sigs.append(C.e2e_signature(r))
            if len(set(sigs)) > 1:
                break
        lines.append("setting %s re-run %d times: %d distinct outputs" % (label, len(sigs) - 1, len(set(sigs))))
        if len(set(sigs)) > 1:
            return True, "\n".join(lines) + "\n=> nondeterministic at fixed settings"
    # (2) does the difference vanish with the knob off?
    a2, b2 = dict(aa), dict(ab)
    a2[knob[0]] = knob[1]
    b2[knob[0]] = knob[1]
    same = True
    for _ in range(2):
        x, y = encode(a2, pa), encode(b2, pb)
        if not (run_ok(x, a2) and run_ok(y, b2) and C.e2e_signature(x) == C.e2e_signature(y)):
            same = False
    lines.append("with %s=%s the two settings %s" % (knob[0], knob[1], "agree" if same else "still differ"))
    if same and (fam == "rc" or pts == 1):
        return True, "\n".join(lines) + "\n=> the difference needs %s != %s%s" % (knob[0], knob[1], "; first differing picture is pts 1" if fam == "tpl" else "")
    return False, "\n".join(lines) + "\n=> NOT the signature of the listed finding (first differing packet pts %s)" % pts


# ----------------------------------------------------------------------------- check
def run(chk, only=None):
    pr = chk.proofs(MODULE, trusted_extra=[
        "Model/Wavefront.lean, Model/CondVar.lean, Model/Counter.lean, Model/Kahn.lean are hand-written abstractions of the encoder's "
        "synchronisation idioms (line references in the files); they are tied to the code only through C23 / C24 (SRM and EncDec "
        "segment models, validated by their own correspondence harnesses) and through the end-to-end oracle of this check",
        "hypothesis H-footprint (C04.HFootprint / Wavefront.Footprint) is NOT proved of the C code",
        "sequentially consistent atomic steps; pthread mutex / semaphore / cond-var primitives assumed correct",
        "schedule perturbation hook in EbThreads.c (guard SVT_AV1_VERIF, env SVT_VERIF_PERTURB); harness/enc_e2e.c; "
        "FNV-1a 64-bit content hashes of packets and reconstructions stand for byte equality"])
    K = 4 if chk.tier == "quick" else 24
    configs = only if only is not None else main_configs(chk) + family_configs(chk)
    C.e2e_exe()
    # the tpl family goes first and together, so that its encodes overlap (contention)
    configs = [c for c in configs if c[2] == "tpl"] + [c for c in configs if c[2] != "tpl"]
    items = [(name, args, fam, seeds_for(chk, K)) for name, args, fam in configs]
    # twin tiles: both tile columns carry identical content, so their entropy-coding / filtering tasks finish together; heavy sleeps at
    # every mutex acquisition then land inside "last one completes the picture" windows (seeded change C04-2: a per-tile done flag set
    # outside the picture mutex lets two tiles both complete the picture)
    items = [(n_, a_, f_, ps + (["%d:60:3000" % (chk.rng.below(1 << 30)), "%d:35:8000" % (chk.rng.below(1 << 30))] if n_.startswith("twin-tiles") else []))
             for n_, a_, f_, ps in items]
    results = C.run_parallel(run_config, items, workers=PAR)
    nrun = 0
    compared = set()
    hist = {"lp": {}, "enc_mode": {}, "size": {}, "bd": {}, "family": {}, "content": {}}
    wall = []
    bad = []
    for cfg in results:
        a = cfg["args"]
        for k, v in (("lp", a.get(LP, 4)), ("enc_mode", a.get(E, 8)), ("size", "%dx%d" % (a["w"], a["h"])),
                     ("bd", a["bd"]), ("family", cfg["family"]), ("content", a["content"])):
            hist[k][str(v)] = hist[k].get(str(v), 0) + 1
        for tag, aa, p, r in cfg["runs"]:
            nrun += 1
            wall.append(r["wall"])
            if run_ok(r, aa) and tag != "lp1":
                compared.add((cfg["name"], p))
        c = classify(cfg)
        if c:
            bad.append((cfg, c))
    chk.cov["evaluations"] = nrun
    chk.cov["configurations"] = len(results)
    chk.cov["schedules_per_configuration"] = K
    chk.cov["distinct_nontrivial"] = len(compared)
    chk.cov["rule"] = ("distinct (configuration, schedule seed) pairs with >= 2 logical processors whose encode completed and whose packets + "
                       "reconstructions were compared byte-wise (content hash) with every other run of the configuration, incl. the 1-thread run")
    chk.cov["histograms"] = hist
    chk.cov["run_wall_s"] = {"max": round(max(wall), 1) if wall else 0, "mean": round(sum(wall) / max(1, len(wall)), 1)}
    chk.cov["explanation"] = EXPLANATION
    chk.cov["not_done"] = "SRM / segment event traces of the real runs are not replayed through the C23 / C24 models (no trace hook in the tree)"
    for cfg in results[:3]:
        tag, aa, p, r = cfg["runs"][-1]
        chk.sample({"config": argline(aa, p), "family": cfg["family"], "packets": len(r["PKT"]),
                    "first_packet_crc": r["PKT"][0]["crc"] if r["PKT"] else None})
    chk.assumptions += ["H-footprint (not proved): kernel bodies touch shared per-picture state only as the task model says",
                        "main sweep: enable_tpl_la = 0, rate_control_mode = 0, speed_control_flag = 0; one encoder instance per process"]
    family_notes = []
    for cfg, (kind, text, pair) in bad:
        key = None
        extra = ""
        if cfg["family"] in ("tpl", "rc") and kind in ("schedule", "threads") and pair is not None:
            known, dtxt = differential(cfg, pair)
            extra = "\ndifferential test:\n" + dtxt
            if known:
                key = KEY_TPL if cfg["family"] == "tpl" else KEY_RC
            family_notes.append("%s: %s" % (cfg["name"], dtxt.replace("\n", "; ")))
        chk.violation("C04 violated on the real encoder (%s, family %s): configuration '%s'\n%s%s\nreplay: bin/check C04 --replay <this file>\n"
                      "config: family=%s %s\n" % (kind, cfg["family"], cfg["name"], text, extra, cfg["family"],
                                                   " ".join("%s=%s" % kv for kv in cfg["args"].items())), key=key)
    chk.cov["family_differences"] = family_notes
    if chk.violations:
        return
    if not pr.ok:
        chk.violation("proof obligations no longer check:\n%s\nforbidden tokens: %s\nno input found on which the implementation "
                      "violates the property (%d encodes of %d configurations compared)\n" %
                      ("\n".join("%s: %s" % x for x in pr.failed.items()), pr.forbidden, nrun, len(results)),
                      tag="proof", found_input=False)


def replay(chk, path):
    configs = []
    for line in open(path):
        m = re.match(r"\s*config:\s*(.+)$", line)
        if m:
            a = {}
            fam = "main"
            for tok in m.group(1).split():
                k, v = tok.split("=", 1)
                if k == "family":
                    fam = v
                else:
                    a[k] = int(v) if re.match(r"-?\d+$", v) else v
            configs.append(("replay%d" % len(configs), a, fam))
    run(chk, configs or None)
