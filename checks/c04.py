"""C04 — encoding is deterministic under every thread interleaving.

(1) Lean: protocol theorems of SvtVerif/Props/C04.lean (task-graph confluence for any number of workers and any
    interleaving, the EncDec-segment instance via C24, completion counters, the me_ready cond-var handshake, FIFO /
    reorder queues re-exported from C23 / C22, determinism of a network of deterministic stages).  They are conditional on
    the named hypothesis H-footprint (kernel bodies touch shared per-picture state only as the task model says).
(2) Oracle on the REAL encoder (exercises H-footprint): every configuration is encoded in-process (harness/enc_e2e.c)
      * once with logical_processors = 1,
      * K times with its own thread count under K different schedules: one unperturbed run and K-1 runs with the guarded
        hook SVT_VERIF_PERTURB=<seed>[:pct[:max_us]] (seeded sched_yield / usleep at every semaphore, mutex and cond-var
        wrapper of EbThreads.c),
    and packets (pts, flags, size, content hash) + reconstructed pictures (pts, content hash) must be identical across all
    runs of the configuration.  Every run is under a watchdog; a timeout counts only if it reproduces on a second seed.
"""
import os
import re
import time
import zlib
from . import common as C

LEVEL = "other"


def e2e(args, timeout, env=None):
    """C.run_e2e without its automatic 4x-watchdog retry: this check does its own reproduction of timeouts (an intermittent
    deadlock must not be retried away)."""
    try:
        return C.run_e2e(args, timeout=timeout, env=env, retry_hung=False)
    except TypeError:
        return C.run_e2e(args, timeout=timeout, env=env)
MODULE = "SvtVerif.Props.C04"
WATCHDOG = 420          # seconds (>= 20x a typical run)
PAR = 4                 # parallel encodes (machine is shared)

EXPLANATION = (
    "LEVEL other: the machine-checked part are PROTOCOL theorems, each for all sizes / any number of threads / all interleavings "
    "(dag_confluence, dag_equals_sequential, dag_progress; encdec_guard_enforced + encdec_confluence + encdec_terminates from C24; "
    "last_one_fires_once; handshake_no_lost_wakeup; reorder_inorder and srm_fifo re-exported from C22/C23; "
    "network_output_deterministic / determinism_under_footprint for a Kahn network of stages).  They are CONDITIONAL on hypothesis "
    "H-footprint (kernel bodies touch shared per-picture state only as the task model says; each stage is a function of its input "
    "histories), which is NOT proved of the ~100k lines of pixel code.  H-footprint is exercised, not proved, by the sweep: every "
    "configuration is really encoded with 1 thread and K times with its own thread count under seeded schedule perturbation, and "
    "packets + reconstructions are compared byte-wise.  Sequentially-consistent memory is assumed by the models; TSan is not used.")


# ----------------------------------------------------------------------------- configurations
def fixed_configs():
    E = "cfg.enc_mode"
    LP = "cfg.logical_processors"
    return [
        ("small-8bit", dict(w=64, h=64, n=10, bd=8, content=4, **{E: 8, LP: 4})),
        ("one-sb-wide", dict(w=64, h=256, n=8, bd=8, content=4, **{E: 8, LP: 4})),          # 64-wide: the F2 grid
        ("m4-hl4", dict(w=192, h=128, n=10, bd=8, content=4, **{E: 4, LP: 4, "cfg.hierarchical_levels": 4})),
        ("tiles-10bit", dict(w=256, h=192, n=8, bd=10, content=0, **{E: 6, LP: 16, "cfg.tile_columns": 1, "cfg.tile_rows": 1})),
        ("lp2-gradient", dict(w=128, h=128, n=12, bd=8, content=2, **{E: 8, LP: 2, "cfg.hierarchical_levels": 3})),
        ("screen-m5", dict(w=192, h=128, n=8, bd=8, content=5, **{E: 5, LP: 4, "cfg.screen_content_mode": 1})),
        ("wide-tiles-m7", dict(w=320, h=192, n=8, bd=10, content=4, **{E: 7, LP: 16, "cfg.tile_columns": 1})),
        ("long-64", dict(w=64, h=64, n=33, bd=8, content=4, **{E: 8, LP: 4})),
        ("vbr", dict(w=64, h=64, n=12, bd=8, content=4, **{E: 8, LP: 4, "cfg.rate_control_mode": 1, "cfg.target_bit_rate": 200000})),
        ("cvbr", dict(w=128, h=64, n=12, bd=8, content=4, **{E: 8, LP: 4, "cfg.rate_control_mode": 2, "cfg.target_bit_rate": 200000})),
    ]


def random_configs(chk, count):
    r = chk.rng
    sizes = [(64, 64), (64, 192), (128, 64), (192, 128), (72, 88), (128, 128), (256, 192), (320, 192), (136, 72), (64, 320), (384, 256)]
    out = []
    for i in range(count):
        w, h = r.choice(sizes)
        a = dict(w=w, h=h, n=r.range(3, 14), bd=r.choice([8, 8, 10]), content=r.choice([0, 2, 4, 4, 5, 3]))
        a["cfg.enc_mode"] = r.choice([4, 5, 6, 7, 8, 8])
        a["cfg.logical_processors"] = r.choice([2, 4, 4, 16])
        if r.chance(1, 2):
            a["cfg.hierarchical_levels"] = r.range(0, 4)
        if r.chance(1, 3):
            a["cfg.intra_period_length"] = r.range(1, 8)
        if r.chance(1, 3) and w >= 256:
            a["cfg.tile_columns"] = 1
            a["cfg.tile_rows"] = r.range(0, 1)
        rc = r.choice([0, 0, 0, 0, 1, 2])
        if rc:
            a["cfg.rate_control_mode"] = rc
            a["cfg.target_bit_rate"] = r.choice([100000, 300000, 1000000])
        if r.chance(1, 4):
            a["cfg.qp"] = r.choice([20, 35, 50, 60])
        out.append(("rnd%d" % i, a))
    return out


def seeds_for(chk, K):
    """K schedules: None = unperturbed, then seeded perturbations of varying strength."""
    base = chk.rng.below(1 << 30)
    out = [None]
    for j in range(1, K):
        s = base + 7919 * j
        out.append(["%d:40:60" % s, "%d" % s, "%d:25:300" % s, "%d:5:600" % s][j % 4])
    return out


# ----------------------------------------------------------------------------- running
def encode(args, pert, watchdog=WATCHDOG):
    a = dict(args)
    a["decode"] = 0
    a["watchdog"] = watchdog
    a.setdefault("final_nb", 1)     # non-blocking final drain: the blocking one can deadlock against the recon pool (C27 finding)
    t0 = time.time()
    r = e2e(a, watchdog + 60, {"SVT_VERIF_PERTURB": pert} if pert else None)
    r["wall"] = time.time() - t0
    r["pert"] = pert
    return r


def run_ok(r, args):
    return (not r["hung"] and not r["crashed"] and r["SETPARAM"] == 0 and not r["ERR"] and r["END"] is not None
            and len(r["PKT"]) == args["n"] and (not args.get("recon", 1) or len(r["RECON"]) == args["n"]))


def argline(args, pert=None):
    s = " ".join("%s=%s" % kv for kv in args.items())
    return ("SVT_VERIF_PERTURB=%s " % pert if pert else "") + "enc_e2e " + s


def first_diff(ra, rb):
    for i, (p, q) in enumerate(zip(ra["PKT"], rb["PKT"])):
        if (p["pts"], p["flags"], p["size"], p["crc"]) != (q["pts"], q["flags"], q["size"], q["crc"]):
            return "packet %d: pts %s/%s size %s/%s crc %s/%s" % (i, p["pts"], q["pts"], p["size"], q["size"], p["crc"], q["crc"])
    if len(ra["PKT"]) != len(rb["PKT"]):
        return "packet count %d/%d" % (len(ra["PKT"]), len(rb["PKT"]))
    a = dict((x["pts"], x["crc"]) for x in ra["RECON"])
    b = dict((x["pts"], x["crc"]) for x in rb["RECON"])
    for k in sorted(set(a) | set(b)):
        if a.get(k) != b.get(k):
            return "recon pts %s: %s/%s (packets identical)" % (k, a.get(k), b.get(k))
    return "?"


def run_config(item):
    """All runs of one configuration; returns a result dict."""
    name, args, perts = item
    runs = []
    a1 = dict(args)
    a1["cfg.logical_processors"] = 1
    runs.append(("lp1", a1, None))
    for p in perts:
        runs.append(("lp%s" % args.get("cfg.logical_processors", 4), args, p))
    res = []
    for tag, a, p in runs:
        r = encode(a, p)
        if r["hung"]:
            # R6: a watchdog hit counts only if it reproduces on a second seed
            p2 = "%d" % ((zlib.crc32(("%s|%s" % (name, p)).encode()) & 0xFFFFF) + 11)
            r2 = encode(a, p2)
            if r2["hung"]:
                r["hang_confirmed"] = p2
            else:
                r = r2
                r["retried_after_timeout"] = True
        res.append((tag, a, p, r))
    return {"name": name, "args": args, "runs": res}


def classify(cfg):
    """-> (kind, text) or None.  kind in {'hang','crash','error','schedule','threads'}"""
    args = cfg["args"]
    runs = cfg["runs"]
    for tag, a, p, r in runs:
        if r.get("hang_confirmed"):
            return ("hang", "watchdog timeout (%ds), reproduced with a second perturbation seed (%s)\n%s\npackets so far: %d of %d" %
                    (WATCHDOG, r["hang_confirmed"], argline(a, p), len(r["PKT"]), a["n"]))
        if r["crashed"]:
            return ("crash", "encoder process died rc=%s\n%s\n%s" % (r["rc"], argline(a, p), r["stderr"][-600:]))
        if not run_ok(r, a):
            return ("error", "encode did not complete normally: SETPARAM=%s ERR=%s packets=%d recons=%d of %d\n%s" %
                    (r["SETPARAM"], r["ERR"][:3], len(r["PKT"]), len(r["RECON"]), a["n"], argline(a, p)))
    sigs = [C.e2e_signature(r) for _, _, _, r in runs]
    multi = list(range(1, len(runs)))
    for i in multi[1:]:
        if sigs[i] != sigs[multi[0]]:
            ta, aa, pa, ra = runs[multi[0]]
            tb, ab, pb, rb = runs[i]
            return ("schedule", "two encodes of the SAME configuration and input differ (only the thread schedule differs)\n"
                    "run A: %s\nrun B: %s\nfirst difference: %s" % (argline(aa, pa), argline(ab, pb), first_diff(ra, rb)))
    if sigs[0] != sigs[1]:
        ta, aa, pa, ra = runs[0]
        tb, ab, pb, rb = runs[1]
        return ("threads", "the single-thread encode differs from the multi-thread encodes (which agree with each other)\n"
                "run A: %s\nrun B: %s\nfirst difference: %s" % (argline(aa, pa), argline(ab, pb), first_diff(ra, rb)))
    return None


def finding_key(kind, args):
    rc = int(args.get("cfg.rate_control_mode", 0))
    if kind in ("schedule", "threads") and rc != 0:
        return "C04-rate-control-schedule-dependent"
    if kind == "hang":
        return "C04-hang-%dx%d" % (args["w"], args["h"])
    if kind in ("schedule", "threads"):
        return "C04-output-differs-%dx%d-n%d-m%s-lp%s" % (args["w"], args["h"], args["n"], args.get("cfg.enc_mode", 8),
                                                          args.get("cfg.logical_processors", 4))
    return None


def minimise(chk, args, budget=10):
    """Shrink a schedule-dependent configuration: fewer frames / smaller picture / fewer threads, keeping the difference
    reproducible within 4 runs."""
    def differs(a):
        sigs = set()
        for p in (None, None, "%d" % (chk.seed + 3), "%d:25:300" % (chk.seed + 5)):
            r = encode(a, p, watchdog=WATCHDOG)
            if not run_ok(r, a):
                return False
            sigs.add(C.e2e_signature(r))
        return len(sigs) > 1
    best = dict(args)
    tries = 0
    for key, cands in (("n", [best["n"] // 2, best["n"] * 3 // 4]), ("w", [64, 128]), ("h", [64, 128]), ("cfg.logical_processors", [2])):
        for v in cands:
            if tries >= budget or v <= 0 or v >= best.get(key, 1 << 30):
                continue
            t = dict(best)
            t[key] = v
            tries += 1
            if differs(t):
                best = t
                break
    return best


# ----------------------------------------------------------------------------- check
def run(chk, only=None):
    pr = chk.proofs(MODULE, trusted_extra=[
        "Model/Wavefront.lean, Model/CondVar.lean, Model/Counter.lean, Model/Kahn.lean are hand-written abstractions of the encoder's "
        "synchronisation idioms (line references in the files); they are tied to the code only through C23 / C24 (SRM and EncDec "
        "segment models, validated by their own correspondence harnesses) and through the end-to-end oracle of this check",
        "hypothesis H-footprint (C04.HFootprint / Wavefront.Footprint) is NOT proved of the C code",
        "sequentially consistent atomic steps; pthread mutex / semaphore / cond-var primitives assumed correct",
        "schedule perturbation hook in EbThreads.c (guard SVT_AV1_VERIF, env SVT_VERIF_PERTURB); harness/enc_e2e.c; "
        "FNV-1a 64-bit content hashes of packets and reconstructions stand for byte equality"])
    K = 4 if chk.tier == "quick" else 24
    if only is not None:
        configs = only
    elif chk.tier == "quick":
        configs = fixed_configs()
    else:
        configs = fixed_configs() + random_configs(chk, 10)
    C.e2e_exe()
    items = [(name, args, seeds_for(chk, K)) for name, args in configs]
    results = C.run_parallel(run_config, items, workers=PAR)
    nrun = 0
    compared = set()
    hist = {"lp": {}, "enc_mode": {}, "size": {}, "bd": {}, "rc": {}, "content": {}}
    wall = []
    bad = []
    for cfg in results:
        a = cfg["args"]
        for k, v in (("lp", a.get("cfg.logical_processors", 4)), ("enc_mode", a.get("cfg.enc_mode", 8)), ("size", "%dx%d" % (a["w"], a["h"])),
                     ("bd", a["bd"]), ("rc", a.get("cfg.rate_control_mode", 0)), ("content", a["content"])):
            hist[k][str(v)] = hist[k].get(str(v), 0) + 1
        for tag, aa, p, r in cfg["runs"]:
            nrun += 1
            wall.append(r["wall"])
            if run_ok(r, aa) and tag != "lp1":
                compared.add((cfg["name"], p))
        c = classify(cfg)
        if c:
            bad.append((cfg, c))
    chk.cov["evaluations"] = nrun
    chk.cov["configurations"] = len(results)
    chk.cov["schedules_per_configuration"] = K
    chk.cov["distinct_nontrivial"] = len(compared)
    chk.cov["rule"] = ("distinct (configuration, schedule seed) pairs with >= 2 logical processors whose encode completed and whose packets + "
                       "reconstructions were compared byte-wise (content hash) with every other run of the configuration, incl. the 1-thread run")
    chk.cov["histograms"] = hist
    chk.cov["run_wall_s"] = {"max": round(max(wall), 1) if wall else 0, "mean": round(sum(wall) / max(1, len(wall)), 1)}
    chk.cov["explanation"] = EXPLANATION
    chk.cov["not_done"] = "SRM / segment event traces of the real runs are not replayed through the C23 / C24 models (no trace hook in the tree)"
    for cfg in results[:3]:
        tag, aa, p, r = cfg["runs"][-1]
        chk.sample({"config": argline(aa, p), "packets": len(r["PKT"]), "first_packet_crc": r["PKT"][0]["crc"] if r["PKT"] else None})
    chk.assumptions += ["H-footprint (not proved): kernel bodies touch shared per-picture state only as the task model says",
                        "speed_control_flag = 0; one encoder instance per process"]
    for cfg, (kind, text) in bad:
        key = finding_key(kind, cfg["args"])
        known = key is not None and any(k["key"] == key for k in chk.known)
        mini = ""
        if kind == "schedule" and not known and chk.tier == "thorough":
            m = minimise(chk, cfg["args"])
            if m != cfg["args"]:
                mini = "\nminimised configuration that still differs between runs: %s" % argline(m)
        chk.violation("C04 violated on the real encoder (%s): configuration '%s'\n%s%s\nreplay: bin/check C04 --replay <this file>\n"
                      "config: %s\n" % (kind, cfg["name"], text, mini, " ".join("%s=%s" % kv for kv in cfg["args"].items())), key=key)
    if chk.violations:
        return
    if not pr.ok:
        chk.violation("proof obligations no longer check:\n%s\nforbidden tokens: %s\nno input found on which the implementation "
                      "violates the property (%d encodes of %d configurations compared)\n" %
                      ("\n".join("%s: %s" % x for x in pr.failed.items()), pr.forbidden, nrun, len(results)),
                      tag="proof", found_input=False)


def replay(chk, path):
    configs = []
    for line in open(path):
        m = re.match(r"\s*config:\s*(.+)$", line)
        if m:
            a = {}
            for tok in m.group(1).split():
                k, v = tok.split("=", 1)
                a[k] = int(v) if re.match(r"-?\d+$", v) else v
            configs.append(("replay%d" % len(configs), a))
    run(chk, configs or None)
