"""C09 — multi-threaded decoding is safe and equals single-thread decoding (proof of the wavefront protocol +
correspondence with the real control code + end-to-end thread-count / schedule oracle on the real decoder)."""
import hashlib
import json
import os
import re
import subprocess
import sys
import time
from concurrent.futures import ThreadPoolExecutor
from . import common as C

sys.path.insert(0, os.path.join(C.VERIF, "xlate"))
LEVEL = "proof"
MODULE = "SvtVerif.Props.C09"
PF = "Source/Lib/Decoder/Codec/EbDecProcessFrame.c"
PP = "Source/Lib/Decoder/Codec/EbDecProcess.c"
# (file, function, number of EMPTY spin loops `while (cond) ;` expected in its text)
EXTRACT = [(PF, "decode_tile_row", 1), (PF, "decode_tile", 1), (PF, "start_decode_tile", 0),
           (PP, "get_sb_row_to_process", 0), (PP, "decode_tile_job", 0), (PP, "decode_frame_tiles", 0)]
# text fragments of the stages that have no extracted harness (LF / CDEF / LR): the model's `pass` / `pubVal` / gate
# transcriptions are only valid while these still occur verbatim (whitespace-normalised)
FRAGMENTS = [
    ("Source/Lib/Decoder/Codec/EbDecLF.c", "while (*sb_lf_completed_in_prev_row < MIN((x_sb_index + 2), pic_width_in_sb - 1)) ;"),
    ("Source/Lib/Decoder/Codec/EbDecLF.c", "*sb_lf_completed_in_row = x_sb_index;"),
    ("Source/Lib/Decoder/Codec/EbDecCdef.c", "if (sb_fbc == pic_width_in_sb - 1) nsync = 0;"),
    ("Source/Lib/Decoder/Codec/EbDecCdef.c", "while (*cdef_completed_in_prev_row < (uint32_t)(sb_fbc + 1) + nsync) ;"),
    ("Source/Lib/Decoder/Codec/EbDecCdef.c", "*cdef_completed_in_row = (uint32_t)(sb_fbc + 1);"),
    ("Source/Lib/Decoder/Codec/EbDecRestoration.c", "if (col_y >= tile_w_y - w_y) nsync = 0; while (*sb_lr_completed_in_prev_row < (sb_col_y + nsync)) ;"),
    ("Source/Lib/Decoder/Codec/EbDecRestoration.c", "*sb_lr_completed_in_row = sb_col_y;"),
    (PP, "memset(lf_frame_info->sb_lf_completed_in_row, -1, picture_height_in_sb * sizeof(int32_t));"),
    (PP, "memset(dec_mt_frame_data->cdef_completed_in_row, 0, nvfb * sizeof(uint32_t));"),
    (PP, "memset(dec_mt_frame_data->sb_lr_completed_in_row, -1, picture_height_in_sb * sizeof(int32_t));"),
    (PP, "row_index[0] = (sb_row)*tiles_info->tile_cols; row_index[1] = (sb_row - (sb_row == 0 ? 0 : 1)) * tiles_info->tile_cols; "
         "row_index[2] = (sb_row + (sb_row == (dec_mt_frame_data->sb_rows - 1) ? 0 : 1)) * tiles_info->tile_cols;"),
    (PP, "if (sb_row != 0) { dec_save_lf_boundary_lines_sb_row( dec_handle, tile_rect_p, sb_row - 1, src, stride, num_planes); "
         "/* Update LF done map */ dec_mt_frame_data1->lf_row_map[sb_row - 1] = 1; }"),
    # the LF row gate itself (model: lfGate = recon rows r-1, r, r+1 complete in EVERY tile column); seeded change C09-2 dropped one `+ i`
    (PP, "while ((!start_lf[0]) || (!start_lf[1]) || (!start_lf[2])) { start_lf[0] = 1; start_lf[1] = 1; start_lf[2] = 1; "
         "for (int i = 0; i < tiles_info->tile_cols; i++) { start_lf[0] &= dec_mt_frame_data->sb_recon_row_map[row_index[0] + i]; "
         "start_lf[1] &= dec_mt_frame_data->sb_recon_row_map[row_index[1] + i]; "
         "start_lf[2] &= dec_mt_frame_data->sb_recon_row_map[row_index[2] + i]; } }"),
    (PP, "int32_t offset = sb_row == dec_mt_frame_data->sb_rows - 1 ? 0 : 1;"),
    (PP, "(volatile int32_t *)&dec_mt_frame_data->lf_row_map[sb_row + offset]; while (!*start_cdef) ;"),
    (PP, "dec_mt_frame_data1->cdef_completed_for_row_map[sb_row] = 1;"),
    (PP, "(volatile int32_t *)&dec_mt_frame_data->cdef_completed_for_row_map[sb_row]; while (!*start_lr) ;"),
    ("Source/Lib/Decoder/Codec/EbDecParseObu.c", "memset(sb_recon_completed_in_row, 0, tile_num_sb_rows * sizeof(uint32_t));"),
]
KEY_LR_DET = "C09-lr-mt-deterministic-mismatch"
KEY_LR_RACE = "C09-lr-mt-boundary-save-race"
# Set to True once the three loop-restoration fixes (hooks/fix-c09-lr-mt-last-stripe-boundary.patch,
# hooks/fix-c09-cdef-waits-own-lf-row-map.patch, hooks/fix-c09-lf-waits-recon-two-rows-up.patch) are in /repo: the labelled probes then
# become ordinary regression streams (any mismatch is a VIOLATION) and the seed-dependent streams switch restoration ON.
LR_FIXED = False
THREADS = [1, 2, 3, 4, 8, 16]


def norm_ws(s):
    return re.sub(r"\s+", " ", s).strip()


def fragments_missing():
    miss, cache = [], {}
    for path, frag in FRAGMENTS:
        if path not in cache:
            cache[path] = norm_ws(open(os.path.join(C.REPO, path)).read())
        if norm_ws(frag) not in cache[path]:
            miss.append("%s: %s" % (os.path.basename(path), frag[:60]))
    return miss


def rewrite_spins(text, site_base):
    """`while (cond) ;`  ->  `while (cond) hook_spin(site);`   (balanced-parenthesis scan; only EMPTY bodies)."""
    res, pos, sites, n = "", 0, 0, len(text)
    pat = re.compile(r"\bwhile\s*\(")
    while True:
        m = pat.search(text, pos)
        if not m:
            return res + text[pos:], sites
        j, depth = m.end(), 1
        while depth and j < n:
            depth += {"(": 1, ")": -1}.get(text[j], 0)
            j += 1
        k = j
        while k < n and text[k] in " \t\r\n":
            k += 1
        if k < n and text[k] == ";":
            res += text[pos:j] + " hook_spin(%d);" % (site_base + sites)
            sites += 1
            pos = k + 1
        else:
            res += text[pos:j]
            pos = j


def build_protocol_harness():
    """Extract the real control functions, rewrite the empty spins, compile.  Returns (exe, problems)."""
    import extract
    parts, problems, site = [], [], 0
    for path, fn, nspin in EXTRACT:
        txt = extract.function_text(path, fn)
        new, n = rewrite_spins(txt, site)
        if n != nspin:
            problems.append("%s: %d empty spin loops (model assumes %d)" % (fn, n, nspin))
        site += n
        parts.append("/* ---- %s : %s ---- */\n%s" % (path, fn, new))
    text = "\n\n".join(parts) + "\n"
    gdir = os.path.join(C.CACHE, "gen_src", "c09")
    os.makedirs(gdir, exist_ok=True)
    hp = os.path.join(gdir, "c09_extracted.h")
    if not os.path.exists(hp) or open(hp).read() != text:
        open(hp, "w").write(text)
    sha = hashlib.sha256(text.encode()).hexdigest()[:12]
    exe = C.compile_harness("c09_decwf", [os.path.join(C.VERIF, "harness", "decwf.c")],
                            extra=["-I" + gdir, "-DEXTRACT_SHA=\"%s\"" % sha])
    return exe, problems


def e2e_decoder():
    return C.compile_harness("c09_decwf_e2e", [os.path.join(C.VERIF, "harness", "decwf.c")],
                             libs=["libSvtAv1Dec.a"], flavour="rel", extra=["-DDECWF_E2E"])


def par_lines(cmd, lines, nproc):
    """Run `cmd` on `lines` split over `nproc` processes (contiguous chunks); returns all output lines in order."""
    if not lines:
        return []
    nproc = max(1, min(nproc, len(lines) // 40 + 1))
    size = (len(lines) + nproc - 1) // nproc
    chunks = [lines[i:i + size] for i in range(0, len(lines), size)]

    def one(ch):
        p = subprocess.run(cmd, input="".join(ch).encode(), stdout=subprocess.PIPE, stderr=subprocess.PIPE, timeout=7200)
        if p.returncode != 0:
            raise RuntimeError("%s failed rc=%d: %s" % (cmd[0], p.returncode, p.stderr.decode()[-1500:]))
        return [l for l in p.stdout.decode().split("\n") if l]
    with ThreadPoolExecutor(max_workers=nproc) as ex:
        outs = list(ex.map(one, chunks))
    return [l for o in outs for l in o]


def kv(fields):
    return dict(x.split("=", 1) for x in fields if "=" in x)


# ----------------------------------------------------------------------------- protocol ops
def gen_protocol_ops(chk):
    rng = chk.rng
    ops = []

    def tile(W, H, N=None, mode=None, pmode=None):
        sbl = 7 if rng.chance(1, 5) else 6
        sbmi = 1 << (sbl - 2)
        c0 = rng.choice([0, 0, 1, rng.range(2, 9)])
        r0 = rng.choice([0, 0, rng.range(1, 5)])
        rp = rng.below(2)
        lastw = rng.choice([sbmi, sbmi, 1, rng.range(1, sbmi)])
        n = N if N is not None else rng.choice([1, 2, 2, 3, 4, 4, 5, 6, 8])
        ops.append("tile %d %d %d %d %d %d %d %d %d %d %d 0\n" % (
            sbl, W, H, c0, r0, rp, lastw, n, rng.next() & 0xFFFFFFFF,
            mode if mode is not None else rng.below(7), pmode if pmode is not None else rng.below(3)))

    def frame(maxc, maxr, N=None):
        sbl = 7 if rng.chance(1, 6) else 6
        sbmi = 1 << (sbl - 2)
        tc, tr = rng.range(1, 4), rng.range(1, 4)
        cs, rs, c, r = [], [], 0, 0
        for _ in range(tc):
            c += rng.range(1, max(1, maxc // tc))
            cs.append(c)
        for _ in range(tr):
            r += rng.range(1, max(1, maxr // tr))
            rs.append(r)
        n = N if N is not None else rng.choice([1, 2, 3, 4, 5, 8])
        ops.append("frame %d %d %s %d %s %d %d %d %d %d 0\n" % (
            sbl, tc, " ".join(map(str, cs)), tr, " ".join(map(str, rs)), rng.choice([sbmi, 1, rng.range(1, sbmi)]),
            n, rng.next() & 0xFFFFFFFF, rng.below(7), rng.below(3)))

    # corner grids first: one column / one row / one SB, one worker and many
    for (W, H) in [(1, 1), (1, 2), (1, 12), (2, 1), (12, 1), (2, 2), (1, 34), (64, 1), (2, 34), (64, 2)]:
        for n in (1, 2, 8):
            tile(W, H, N=n)
    if chk.tier == "quick":
        for W in range(1, 21):
            for H in range(1, 13):
                tile(W, H)
                if (W + H) % 2 == 0:
                    tile(W, H, mode=3, pmode=2)        # run-ahead scheduler + lazy parser
        for _ in range(30):
            tile(rng.range(21, 64), rng.range(2, 34))
        for _ in range(160):
            frame(12, 8)
        for _ in range(10):
            frame(40, 20)
    else:
        for W in range(1, 21):
            for H in range(1, 13):
                for n in (1, 2, 3, 4, 8):
                    tile(W, H, N=n)
                    tile(W, H, N=n, mode=rng.choice([3, 4, 6]), pmode=2)
                tile(W, H)
        for _ in range(300):
            tile(rng.range(21, 64), rng.range(2, 34))
        for _ in range(1200):
            frame(12, 8)
        for _ in range(120):
            frame(48, 24)
    return ops


def gen_walks(chk):
    rng = chk.rng
    walks = []
    kmax = 2 if chk.tier == "quick" else 6
    for kind in (1, 2, 3, 0):
        for W in range(1, 9 if chk.tier == "quick" else 13):
            for H in range(1, 6 if chk.tier == "quick" else 9):
                for _ in range(kmax):
                    walks.append("walk %d %d %d %d %d %d %d\n" % (kind, rng.below(3) if kind == 0 else 0, W, H,
                                                                  0 if rng.chance(1, 8) else 1, rng.range(1, 5), rng.next() & 0xFFFFFFFF))
    nf = 150 if chk.tier == "quick" else 1500
    for _ in range(nf):
        tc, tr = rng.range(1, 3), rng.range(1, 3)
        cs, rs, c, r = [], [], 0, 0
        for _ in range(tc):
            c += rng.range(1, 3)
            cs.append(c)
        for _ in range(tr):
            r += rng.range(1, 3)
            rs.append(r)
        Wf = c
        walks.append("fwalk %d %s %d %s %d %d %d %d %d %d %d %d\n" % (
            tc, " ".join(map(str, cs)), tr, " ".join(map(str, rs)), Wf, Wf, rng.choice([Wf, max(1, Wf // 2), 2 * Wf]),
            0 if rng.chance(1, 3) else 1, 0 if rng.chance(1, 5) else 1, 0 if rng.chance(1, 5) else 1, rng.range(1, 4),
            rng.next() & 0xFFFFFFFF))
    return walks


def run_protocol(chk, ops, model_ok):
    exe, problems = build_protocol_harness()
    nproc = max(2, min(4, C.NCPU // 4))
    hout = par_lines([exe], ops, nproc)
    runs, oracles, model_in = [], [], []
    for l in hout:
        if l.startswith("ops "):
            head, rest = l.split(" :", 1)
            model_in.append("replay %s 0 :%s\n" % (" ".join(head.split()[1:]), rest))
        elif l.startswith("run "):
            runs.append(l)
        elif l.startswith("oracle "):
            oracles.append(l)
        else:
            raise RuntimeError("unexpected harness line: %r" % l[:200])
    if len(oracles) != len(ops):
        raise RuntimeError("harness produced %d oracle lines for %d ops" % (len(oracles), len(ops)))
    res = {"runs": runs, "oracles": oracles, "problems": problems, "disagree": [], "model_lines": 0, "tokens": 0}
    res["tokens"] = sum(len(x.split()) for x in model_in)
    if model_ok:
        mexe = C.ensure_driver()
        mout = par_lines([mexe, "decwf"], model_in, nproc)
        res["model_lines"] = len(mout)
        if len(mout) != len(runs):
            res["disagree"].append(("<line count>", str(len(runs)), str(len(mout))))
        for a, b, src in zip(runs, mout, model_in):
            if a != b:
                res["disagree"].append((src[:4000], a, b))
    return res


def run_walks(chk, walks):
    mexe = C.ensure_driver()
    out = par_lines([mexe, "decwf"], walks, max(2, min(4, C.NCPU // 4)))
    bad, w1_runs, lead_cdef_recon, lead_cdef_save, lead_lf_save = [], 0, 0, 0, 0
    for l in out:
        f = l.split()
        if f[0] == "walk":
            kind, W, H, en, n = int(f[1]), int(f[3]), int(f[4]), int(f[5]), int(f[6])
            d = kv(f[9:])
            if W == 1 and H >= 2 and n >= 2 and en:
                w1_runs += 1
            if d["safe_viol"] != "0" or d["twice"] != "0" or d["missing"] != "0" or d["unfinished_rows"] != "0" or d["runaway"] != "false":
                bad.append(l)
        elif f[0] == "fwalk":
            colon = f.index(":")
            a = [int(x) for x in f[1:colon]]
            tc = a[0]
            tr = a[1 + tc]
            lfW, cdefW, lrW, lfEn, cdefEn, lrEn = a[2 + tc + tr: 8 + tc + tr]
            d = kv(f[colon + 1:])
            H = int(d["H"])
            if (d["lf_early"] != "0" or d["cdef_early_lf"] != "0" or d["lr_early"] != "0" or d["unfinished_rows"] != "0" or d["runaway"] != "false"
                    or int(d["lr_rows_done"]) != H):
                bad.append(l)
            if d["cdef_early_recon"] != "0":
                if lfEn == 0 and tr >= 2:
                    lead_cdef_recon += 1
                else:
                    bad.append(l)
            lead_cdef_save += 1 if d["cdef_before_lf_save"] != "0" else 0
            if d["lf_save_before_recon"] != "0":
                if lfEn == 0 and tr >= 2:
                    lead_lf_save += 1
                else:
                    bad.append(l)
        else:
            bad.append(l)
    return {"n": len(out), "bad": bad, "w1_runs": w1_runs, "lead_cdef_recon": lead_cdef_recon, "lead_cdef_save": lead_cdef_save,
            "lead_lf_save": lead_lf_save}


# ----------------------------------------------------------------------------- end-to-end streams
def stream_list(chk):
    """Streams of the end-to-end oracle.  The encoder harness runs preset 8, where loop restoration is OFF unless
    enable_restoration_filtering=1 is given (EbResourceCoordinationProcess.c:189).  With restoration ON the multi-threaded decoder has
    recorded defects (deterministic: height % 64 == 0 or > 56; racy: boundary lines saved too late / too early).  While LR_FIXED is False
    the seed-dependent streams therefore keep restoration OFF and the defects are probed only by streams labelled probe=... with a fixed
    seed and content; with LR_FIXED = True every restoration stream is an ordinary regression case."""
    rng = chk.rng
    S = []

    def add(name, w, h, n=3, bd=8, dec16=0, seed=None, content=None, probe=None, **cfg):
        sd, ct = rng.range(1, 10**6), rng.choice([0, 2, 4, 4, 5])     # always drawn: the other streams do not depend on the probes
        lr_on = cfg.get("enable_restoration_filtering", 0) == 1 or cfg.get("enc_mode", 8) <= 6
        if LR_FIXED:
            probe, seed, content = None, None, None
        assert LR_FIXED or probe or not lr_on, name
        S.append({"name": name, "w": w, "h": h, "n": n, "bd": bd, "dec16": dec16, "cfg": cfg, "seed": seed if seed is not None else sd,
                  "content": content if content is not None else ct, "probe": probe, "lr_on": lr_on})

    def lr(extra=None):          # restoration ON for seed-dependent streams only once the fixes are in
        d = {"enable_restoration_filtering": 1} if LR_FIXED else {}
        d.update(extra or {})
        return d
    add("one-sb-wide", 64, 256)                                    # pic_width_in_sb == 1, 4 SB rows (regression: CDEF row sync, c7d082d)
    add("tiles-2cols", 192, 128, **lr({"tile_columns": 1}))
    add("portrait-odd-tilerows", 136, 200, **lr({"tile_rows": 1}))
    add("tenbit", 128, 128, bd=10, **lr())
    # tile layout changes mid-stream (seeded change C09-1: the last worker kept its freed context after the re-initialisation)
    S.append({"name": "tile-layout-changes", "w": 256, "h": 128, "n": 4, "bd": 8, "dec16": 0, "cfg": {}, "seed": rng.range(1, 10**6), "content": 4,
              "probe": None, "lr_on": False,
              "parts": [{}, {"tile_columns": 1}, {"tile_columns": 1, "tile_rows": 1}, {"tile_rows": 1}, {}]})
    add("lr-mt-probe-stripe", 192, 128, n=4, seed=77, content=4, probe="lr", enable_restoration_filtering=1)
    add("lr-mt-probe-race", 136, 200, n=3, seed=99518, content=4, probe="lr-race", tile_rows=1, enable_restoration_filtering=1)
    if chk.tier != "quick":
        add("tiles-2x2", 256, 192, **lr({"tile_columns": 1, "tile_rows": 1}))
        add("one-sb-wide-tall", 64, 448, n=2, **lr())
        add("one-sb-wide-3rows", 64, 136, **lr())
        add("one-sb-high", 320, 64, **lr({"tile_columns": 1}))
        add("one-sb", 64, 64, **lr())
        add("odd-both", 200, 136, **lr())
        add("tenbit-tiles-16bitpipe", 192, 192, bd=10, dec16=1, **lr({"tile_columns": 1}))
        add("eightbit-16bitpipe", 136, 136, dec16=1)
        add("no-lf-tilerows", 192, 256, **lr({"tile_rows": 1, "disable_dlf_flag": 1}))
        add("no-lf-2x2", 256, 296, **lr({"tile_rows": 1, "tile_columns": 1, "disable_dlf_flag": 1}))
        add("no-cdef", 192, 168, **lr({"cdef_level": 0}))
        add("no-restoration", 192, 192, enable_restoration_filtering=0)
        add("low-qp", 192, 256, **lr({"qp": 8, "tile_rows": 1}))
        add("high-qp", 256, 128, qp=62)
        add("screen", 256, 192, screen_content_mode=1)
        add("tiles-4cols", 512, 128, **lr({"tile_columns": 2}))
        add("tiles-4rows", 128, 488, n=2, **lr({"tile_rows": 2}))
        add("long", 128, 192, n=12)
        add("lr-mt-probe-preset2-one-sb", 64, 64, n=4, seed=1025, content=4, probe="lr", enc_mode=2, hierarchical_levels=2)
        add("lr-mt-probe-race-notiles", 136, 136, n=3, seed=99518, content=4, probe="lr-race", enable_restoration_filtering=1)
        add("lr-mt-probe-race-no-lf", 136, 200, n=3, seed=99518, content=4, probe="lr-race", tile_rows=1, disable_dlf_flag=1,
            enable_restoration_filtering=1)
        add("lr-mt-probe-preset2-tools", 136, 104, n=3, seed=4242, content=4, probe="lr-race", enc_mode=2, hierarchical_levels=2)
        for i in range(4):
            w = rng.choice([72, 96, 128, 160, 200, 264, 328])
            h = rng.choice([72, 96, 136, 168, 232, 296])
            add("random%d" % i, w, h, bd=rng.choice([8, 8, 10]), **lr({"tile_columns": rng.below(2), "tile_rows": rng.below(2)}))
    return S


def encode_stream(s):
    if s.get("parts"):
        # several coded video sequences of the same resolution, back to back in one stream: the tile layout changes mid-stream, which makes
        # the multi-threaded decoder tear down and re-create its per-worker contexts (check_mt_support -> dec_system_resource_init)
        merged = None
        for k, cfg in enumerate(s["parts"]):
            r = encode_stream(dict(s, parts=None, cfg=cfg, seed=s["seed"] + k))
            if r["crashed"] or r["hung"] or not r["HEX"]:
                return r
            if merged is None:
                merged = r
                merged["HEX"] = dict(r["HEX"])
            else:
                base = max(merged["HEX"]) + 1
                for i in sorted(r["HEX"]):
                    merged["HEX"][base + i] = r["HEX"][i]
                merged["DEC"] = merged["DEC"] + r["DEC"]
                merged["CMP"] = merged["CMP"] + r["CMP"]
                merged["argv"] += "  ++  " + r["argv"]
        return merged
    args = {"w": s["w"], "h": s["h"], "n": s["n"], "bd": s["bd"], "seed": s["seed"], "content": s["content"], "hex": 1,
            "dec_threads": 1, "watchdog": 900}
    for k, v in s["cfg"].items():
        args["cfg." + k] = v
    r = C.run_e2e(args, timeout=1200)
    return r


def decode_run(exe, path, s, threads, pseed, watchdog):
    env = dict(os.environ)
    if pseed is not None:
        env["SVT_VERIF_PERTURB"] = "%d:30:300" % pseed
    else:
        env.pop("SVT_VERIF_PERTURB", None)
    argv = [exe, path, str(threads), str(s["w"]), str(s["h"]), str(s["bd"]), str(s["dec16"]), str(watchdog)]
    t0 = time.time()
    try:
        p = subprocess.run(argv, stdout=subprocess.PIPE, stderr=subprocess.PIPE, timeout=watchdog + 60, env=env)
        out, rc = p.stdout.decode("utf-8", "replace"), p.returncode
    except subprocess.TimeoutExpired as ex:
        out, rc = (ex.stdout or b"").decode("utf-8", "replace") + "\nTIMEOUT phase=outer\n", 124
    r = {"rc": rc, "dec": [], "err": [], "decoded": None, "deinit": None, "end": False, "timeout": None, "wall": time.time() - t0,
         "threads": threads, "pseed": pseed}
    for l in out.split("\n"):
        f = l.split()
        if not f:
            continue
        if f[0] == "DEC" and len(f) >= 3:
            r["dec"].append(f[2])
        elif f[0] == "ERR":
            r["err"].append(l)
        elif f[0] == "DECODED":
            r["decoded"] = int(f[1])
        elif f[0] == "DEINIT":
            r["deinit"] = kv(f[3:])
            r["deinit"]["codes"] = f[1:3]
        elif f[0] == "END":
            r["end"] = True
        elif f[0] == "TIMEOUT":
            r["timeout"] = l
    return r


def run_e2e_streams(chk, streams, K, only=None):
    exe = e2e_decoder()
    C.e2e_exe()          # build the encoder harness once, before the parallel encodes
    sdir = os.path.join(C.CACHE, "c09_streams")
    os.makedirs(sdir, exist_ok=True)
    jobs = max(2, min(4, C.NCPU // 4))
    with ThreadPoolExecutor(max_workers=jobs) as ex:
        encs = list(ex.map(encode_stream, streams))
    results = []
    watchdog = 300 if chk.tier == "quick" else 600
    for s, e in zip(streams, encs):
        rec = {"stream": s, "enc_ok": True, "runs": [], "problems": []}
        results.append(rec)
        if e["crashed"] or e["hung"] or e["SETPARAM"] not in (0, None) and e["SETPARAM"] != 0 or not e["HEX"]:
            rec["enc_ok"] = False
            rec["problems"].append("encoder did not produce a stream (rc=%s setparam=%s): %s" % (e["rc"], e["SETPARAM"], e["argv"]))
            continue
        path = os.path.join(sdir, "%s_%d.hex" % (s["name"], chk.seed))
        with open(path, "w") as fh:
            for i in sorted(e["HEX"]):
                fh.write(e["HEX"][i] + "\n")
        rec["path"], rec["argv"] = path, e["argv"]
        rec["enc_dec"] = [d["crc"] for d in e["DEC"]]
        rec["enc_cmp_bad"] = [c for c in e["CMP"] if c[1] != "MATCH"]
        combos = []
        for th in (only or THREADS):
            combos.append((th, None))
            if th > 1:
                for k in range(K if th < 16 else K // 2):
                    combos.append((th, chk.rng.range(1, 10**6)))
        # the decoder's workers busy-wait: keep the number of spinning threads near the number of cores
        small = [c for c in combos if c[0] < 8]
        big = [c for c in combos if c[0] >= 8]
        runs = {}
        with ThreadPoolExecutor(max_workers=jobs) as ex:
            for c, r in zip(small, ex.map(lambda c: decode_run(exe, path, s, c[0], c[1], watchdog), small)):
                runs[c] = r
        with ThreadPoolExecutor(max_workers=2) as ex:
            for c, r in zip(big, ex.map(lambda c: decode_run(exe, path, s, c[0], c[1], watchdog), big)):
                runs[c] = r
        # a watchdog hit is re-run once, alone, with twice the time, before it counts as a hang
        for c in combos:
            r = runs[c]
            if r["timeout"] or r["rc"] in (3, 124):
                r2 = decode_run(exe, path, s, c[0], c[1], 2 * watchdog)
                r2["retried_after_timeout"] = r["timeout"] or "wall-clock"
                runs[c] = r2
        rec["runs"] = [runs[c] for c in combos]
    return results


def judge_e2e(chk, results):
    """Returns (violations, stats).  A violation is (key or None, title, text)."""
    viol, stats = [], {"streams": 0, "decodes": 0, "mt_decodes": 0, "diff_runs": 0, "badfree_runs": 0, "crash_runs": 0, "hang_runs": 0,
                       "threads_hist": {}, "teardown_ms_max": 0}
    for rec in results:
        s = rec["stream"]
        if not rec["enc_ok"]:
            stats.setdefault("encoder_failures", []).append(rec["problems"][0][:300])
            continue
        stats["streams"] += 1
        ref = [r for r in rec["runs"] if r["threads"] == 1 and r["pseed"] is None]
        refdec = ref[0]["dec"] if ref else None
        desc = "stream %s: %dx%d %d-bit n=%d %s (enc_e2e %s)" % (s["name"], s["w"], s["h"], s["bd"], s["n"], json.dumps(s["cfg"]), rec["argv"])
        one_sb_wide = s["w"] <= 64
        if refdec is not None and rec["enc_dec"] and refdec != rec["enc_dec"]:
            viol.append((None, "threads=1 decode differs between two runs of the same stream",
                         "%s\nstandalone: %s\nin-process: %s" % (desc, refdec, rec["enc_dec"])))
        diffs, badfree, crashes, hangs = [], [], [], []
        for r in rec["runs"]:
            stats["decodes"] += 1
            stats["threads_hist"][str(r["threads"])] = stats["threads_hist"].get(str(r["threads"]), 0) + 1
            if r["threads"] > 1:
                stats["mt_decodes"] += 1
            tag = "threads=%d perturb=%s" % (r["threads"], r["pseed"])
            if r.get("retried_after_timeout"):
                stats["slow_runs_retried"] = stats.get("slow_runs_retried", 0) + 1
            if r["timeout"] or r["rc"] in (3, 124):
                hangs.append((tag, r["timeout"] or "wall-clock"))
                continue
            if r["rc"] != 0:
                crashes.append((tag, "exit status %d after %s" % (r["rc"], "all pictures were delivered (teardown)" if r["decoded"] is not None else
                                                                  "%d pictures" % len(r["dec"]))))
            if r["err"]:
                crashes.append((tag, "; ".join(r["err"][:3])))
            if refdec is not None and r["rc"] == 0 and r["dec"] != refdec:
                diffs.append((tag, r["dec"]))
            elif refdec is not None and r["rc"] != 0 and r["decoded"] is not None and r["dec"] != refdec:
                diffs.append((tag, r["dec"]))
            if r["deinit"]:
                stats["teardown_ms_max"] = max(stats["teardown_ms_max"], int(r["deinit"].get("ms", 0)))
                if int(r["deinit"].get("badfree_teardown", 0)) > 0 or int(r["deinit"].get("badfree_decode", 0)) > 0:
                    badfree.append((tag, r["deinit"]))
        stats["diff_runs"] += len(diffs)
        stats["badfree_runs"] += len(badfree)
        stats["crash_runs"] += len(crashes)
        stats["hang_runs"] += len(hangs)
        replay_line = "input: e2e %s" % json.dumps(s, sort_keys=True)
        if badfree:
            viol.append((None, "the decoder frees a block that is not live (double / invalid free)",
                         "%s\n%s\n%d of %d runs; first: %s %s\n(the harness skips the bad free; without the tracker glibc aborts / corrupts the heap: "
                         "'free(): double free', 'corrupted double-linked list', SIGSEGV in svt_av1_dec_deinit)\n"
                         "regression of c2a0b82? (dec_system_resource_init registered dec_mod_ctxt_arr in the memory map AND freed it itself)" %
                         (replay_line, desc, len(badfree), len(rec["runs"]), badfree[0][0], badfree[0][1])))
        if diffs:
            mt_ok = [tuple(r["dec"]) for r in rec["runs"] if r["threads"] > 1 and r["decoded"] is not None]
            deterministic = len(set(mt_ok)) == 1 and len(mt_ok) >= 3
            lr_det_why = ("EVERY multi-threaded run (all thread counts, all perturbation seeds) produced the same pictures, and they differ from the "
                          "single-thread result: not a race.  Root cause: dec_save_lf_boundary_lines_sb_row (EbDecProcess.c:634-703, called from "
                          "dec_av1_loop_filter_frame_mt) saves the deblocked boundary lines of ONE restoration stripe per 64 lines of an SB row; the "
                          "stripes are offset upwards by 8 lines, so when height % 64 == 0 or > 56 the last SB row also holds the start of one more "
                          "stripe, whose 'above' lines are never saved (the single-thread dec_av1_loop_restoration_save_boundary_lines walks all "
                          "stripes); loop restoration of the last 8 picture lines then filters with stale context.  Needs loop restoration ON "
                          "(enc_mode <= 6 or enable_restoration_filtering=1).  Proposed fix: hooks/fix-c09-lr-mt-last-stripe-boundary.patch\n")
            lr_race_why = ("loop restoration is ON and the results vary from run to run: the deblocked boundary lines that loop restoration uses as "
                           "stripe context are saved by the LF workers at the wrong moments.  (a) CDEF row r starts when lf_row_map[r+1] is set (by the "
                           "worker of LF row r+2), but the boundary lines of stripe r — two lines of SB row r that CDEF row r overwrites — are saved "
                           "by the worker of LF row r+1 AFTER its row body, with nothing ordering that save before the gate (EbDecProcess.c:875-888 vs "
                           "999-1006); (b) the save for stripe r-1 reads two lines of SB row r-2, whose reconstruction is not awaited when the loop "
                           "filter is off for the frame and row r-2 lies in another tile row (EbDecProcess.c:841-859).  Both are visible in the Lean "
                           "frame model (stage_order_cdef gives only 'columns complete' for LF row r+1; coverage fields model_lead_*).  With the "
                           "proposed fixes hooks/fix-c09-cdef-waits-own-lf-row-map.patch + hooks/fix-c09-lf-waits-recon-two-rows-up.patch 168 of "
                           "168 decodes of seven such streams equal the single-thread result (before: 30-90% differ at threads >= 5)\n")
            if s.get("probe") == "lr" and deterministic:
                key, why = KEY_LR_DET, lr_det_why
            elif s.get("probe") in ("lr", "lr-race"):
                key, why = KEY_LR_RACE, lr_race_why
            elif one_sb_wide and s["h"] > 64 and not deterministic:
                key = None
                why = ("picture one superblock wide, results vary from run to run: regression of c7d082d? (svt_cdef_sb_row_mt must wait for the "
                       "previous CDEF row also when pic_width_in_sb == 1)\n")
            elif s.get("lr_on"):
                key = None
                why = ("loop restoration is ON for this stream: %s family met outside its labelled probes (%s)\n" %
                       ((KEY_LR_DET, "all runs agree") if deterministic else (KEY_LR_RACE, "runs differ")))
            else:
                key, why = None, ""
            viol.append((key, "multi-threaded decode produces pictures that differ from the single-thread result",
                         "%s\n%s\n%sreference (threads=1): %s\n%d of %d multi-threaded runs differ (%d distinct results), e.g.\n%s" %
                         (replay_line, desc, why, refdec, len(diffs), sum(1 for r in rec["runs"] if r["threads"] > 1), len(set(mt_ok)),
                          "\n".join("  %s: %s" % d for d in diffs[:4]))))
        if crashes:
            viol.append((None, "decoder crashed / reported an error", "%s\n%s\n%s" % (replay_line, desc, "\n".join("  %s: %s" % c for c in crashes[:6]))))
        if hangs:
            viol.append((None, "decoder hung (watchdog)", "%s\n%s\n%s" % (replay_line, desc, "\n".join("  %s: %s" % c for c in hangs[:6]))))
    return viol, stats


# ----------------------------------------------------------------------------- the check
def run(chk, protocol_ops=None, streams=None):
    pr = chk.proofs(MODULE, trusted_extra=[
        "Model/DecWavefront.lean is a hand transcription of decode_tile / decode_tile_row / get_sb_row_to_process and of the row loops, "
        "spin tests, counter encodings and row-map gates of the LF, CDEF and LR stages; the reconstruction part is validated every run by "
        "harness/decwf.c, which compiles the extracted text of the real functions (only edit: a yield inside the two empty spin loops) and runs "
        "it under a seeded coroutine scheduler: every recorded schedule must be enabled step by step in the model and end in the same state; "
        "the LF/CDEF/LR part is tied to the source by verbatim text fragments only",
        "atomicity: one step = the code between two scheduling points (mutex, each evaluation of a spin condition, start/end of an SB); memory is "
        "sequentially consistent in the model",
        "each stage / tile is given an arbitrary non-empty pool of workers; the hand-over of threads between stages (start_*_frame flags, "
        "semaphores, the end-of-frame barriers) is not modelled — it is exercised by the end-to-end decodes only",
        "equality with the single-thread result (decwf_confluence / decwf_eq_single_thread) is conditional on H-footprint: the processing of "
        "SB (r, j) reads, of what its stage writes, only cells inside its wavefront cone and writes only its own cell"])
    missing = fragments_missing()
    t0 = time.time()
    # ---- protocol correspondence + oracle on the real control code
    ops = protocol_ops if protocol_ops is not None else gen_protocol_ops(chk)
    pres = run_protocol(chk, ops, pr.build_ok) if ops else {"runs": [], "oracles": [], "problems": [], "disagree": [], "model_lines": 0, "tokens": 0}
    real_fail, distinct = [], set()
    hist_n, hist_mode, hist_pmode, hist_tiles = {}, {}, {}, {}
    for op, l in zip(ops, pres["oracles"]):
        f = l.split()
        d = kv(f[f.index(":") + 1:])
        a = op.split()
        if a[0] == "tile":
            W, H, N, mode, pmode = int(a[2]), int(a[3]), int(a[8]), int(a[10]), int(a[11])
            if W >= 2 and H >= 2 and N >= 2:
                distinct.add(("tile", W, H, N))
        else:
            N, mode, pmode = int(a[-5]), int(a[-3]), int(a[-2])
            if int(d["tiles"]) >= 2 and N >= 2:
                distinct.add(("frame", tuple(a[1:-6]), N))
        hist_n[N] = hist_n.get(N, 0) + 1
        hist_mode[mode] = hist_mode.get(mode, 0) + 1
        hist_pmode[pmode] = hist_pmode.get(pmode, 0) + 1
        hist_tiles[int(d["tiles"])] = hist_tiles.get(int(d["tiles"]), 0) + 1
        left, total = d["workers_left"].split("/")
        if (d["safe_viol"] != "0" or d["twice"] != "0" or d["missing"] != "0" or d["order_bad"] != "0" or d["deadlock"] != "0" or left != total
                or d["rowmap_bad"] != "0" or d["started_bad"] != "0" or d["foreign_mutex"] != "0" or d["semaphore_waits"] != "0"):
            real_fail.append((op.strip(), l))
    # ---- model-only walks (sanity of the LF / CDEF / LR transcriptions and of the frame model)
    wres = run_walks(chk, gen_walks(chk)) if pr.build_ok and protocol_ops is None else {"n": 0, "bad": [], "w1_runs": 0, "lead_cdef_recon": 0, "lead_cdef_save": 0, "lead_lf_save": 0}
    t1 = time.time()
    # ---- end-to-end: real decoder, thread counts x perturbation seeds
    sl = streams if streams is not None else stream_list(chk)
    K = 1 if chk.tier == "quick" else 3
    eres = run_e2e_streams(chk, sl, K) if sl else []
    eviol, estats = judge_e2e(chk, eres)
    t2 = time.time()

    chk.cov["evaluations"] = len(ops) + wres["n"] + estats["decodes"]
    chk.cov["protocol_ops"] = len(ops)
    chk.cov["protocol_model_lines_compared"] = pres["model_lines"]
    chk.cov["protocol_schedule_tokens_replayed"] = pres["tokens"]
    chk.cov["distinct_nontrivial"] = len(distinct) + estats["mt_decodes"]
    chk.cov["rule"] = ("distinct (grid, workers) driven through the REAL decode_tile / decode_frame_tiles text under an adversarial schedule with >= 2 rows, "
                       ">= 2 columns (or >= 2 tiles) and >= 2 workers, plus the number of multi-threaded decodes of real streams compared with the "
                       "single-thread result")
    chk.cov["workers_histogram"] = {str(k): v for k, v in sorted(hist_n.items())}
    chk.cov["scheduler_mode_histogram"] = {str(k): v for k, v in sorted(hist_mode.items())}
    chk.cov["parser_mode_histogram"] = {str(k): v for k, v in sorted(hist_pmode.items())}
    chk.cov["tiles_per_op_histogram"] = {str(k): v for k, v in sorted(hist_tiles.items())}
    chk.cov["model_walks"] = wres["n"]
    chk.cov["model_one_column_stage_walks"] = wres["w1_runs"]
    chk.cov["model_lead_cdef_before_recon_when_lf_disabled"] = (
        "%d random frame schedules with loop filter disabled and >= 2 tile rows enter a CDEF row before the reconstruction of that row has "
        "finished in the other tile row (hypothesis F.lf.en of stage_order_cdef is forced); the real decoder was run on such streams "
        "(disable_dlf_flag=1, tile_rows=1) in the thorough tier" % wres["lead_cdef_recon"])
    chk.cov["model_lead_cdef_before_lf_row_saved_boundary_lines"] = (
        "%d random frame schedules enter CDEF row r while LF row r+1 has finished its columns but not yet stored lf_row_map[r] (in C: not yet "
        "saved the deblocked boundary lines of stripe r, which CDEF row r overwrites): stage_order_cdef gives 'fin' only for row r+2; real "
        "defect when loop restoration is on (finding %s)" % (wres["lead_cdef_save"], KEY_LR_RACE))
    chk.cov["model_lead_lf_save_before_recon_two_rows_up"] = (
        "%d random frame schedules with loop filter disabled and >= 2 tile rows let LF row r publish (save stripe r-1's boundary lines, two "
        "of them in SB row r-2) before the reconstruction of row r-2 is finished (finding %s)" % (wres["lead_lf_save"], KEY_LR_RACE))
    chk.cov["e2e"] = estats
    chk.cov["e2e_streams"] = [{"name": r["stream"]["name"], "w": r["stream"]["w"], "h": r["stream"]["h"], "bd": r["stream"]["bd"], "cfg": r["stream"]["cfg"],
                               "runs": len(r["runs"])} for r in eres]
    chk.cov["spin_rewrite_sites"] = "decode_tile_row: 1, decode_tile: 1 (hook_spin inserted in the empty loop body), other extracted functions: 0"
    chk.cov["stage_fragments_verbatim"] = not missing
    chk.cov["phase_wall_s"] = {"protocol+walks": round(t1 - t0, 1), "e2e": round(t2 - t1, 1)}
    if pres["runs"]:
        chk.sample({"harness_run": pres["runs"][len(pres["runs"]) // 2][:300]})
        chk.sample({"oracle": pres["oracles"][len(pres["oracles"]) // 3][:400]})
    for r in eres[:3]:
        if r["enc_ok"] and r["runs"]:
            chk.sample({"stream": r["stream"]["name"], "threads1": r["runs"][0]["dec"][:3], "last_run": {k: r["runs"][-1][k] for k in ("threads", "pseed", "rc", "deinit")}})
    chk.assumptions += [
        "W, H >= 1 per tile / stage; at least one worker per stage (n >= 1)",
        "PassSound is proved for all four stages at every width (pass_sound), so no theorem carries a hypothesis on the spin tests",
        "H-footprint for the equality with the single-thread result",
        "the spin-waits read plain `volatile` ints (a data race in the C11 memory model; the model is sequentially consistent): not decidable here",
        "intra-block-copy blocks add a wait on an EARLIER row of the same tile (EbDecProcessBlock.c:176-213); it only delays a step and cannot "
        "block the least unfinished row; it waits for the SB holding the LEFT edge of the reference block only (not modelled; lead)",
        "memory safety of the multi-threaded path is observed only through the allocation tracker of the harness (bad frees); valgrind additionally "
        "reports a 4-byte read past the caller's packet buffer in svt_av1_scan_tiles -> dec_bits_init (multi-thread path only; C10 territory)"]

    # ---- verdicts
    if real_fail:
        op, l = real_fail[0]
        chk.violation("the real decode_tile / decode_frame_tiles control code violated the wavefront property under a scheduled interleaving "
                      "(safe_viol = an SB started before its left/upper-left/upper/upper-right neighbour finished; twice/missing = an SB not "
                      "decoded exactly once; deadlock = all workers spinning)\ninput: %s\n%s\nfailing ops: %d\n" % (op, l, len(real_fail)))
    seen = {}
    for key, title, text in eviol:
        seen.setdefault((key, title), []).append(text)
    for (key, title), texts in seen.items():
        more = "" if len(texts) == 1 else "\n(the same kind of failure was observed on %d streams in this run; inputs of the others:\n%s)" % (
            len(texts), "\n".join(t.split("\n")[0] for t in texts[1:]))
        chk.violation("%s\n%s%s\n" % (title, texts[0], more), key=key, tag="e2e" if key is None else "replay")
    if chk.violations:
        return
    if not pr.ok:
        chk.violation("proof obligations no longer check:\n%s\nforbidden tokens: %s\nno input found on which the implementation violates the "
                      "property (%d protocol ops, %d decodes tried)\n" % ("\n".join("%s: %s" % x for x in pr.failed.items()), pr.forbidden,
                                                                          len(ops), estats["decodes"]), tag="proof", found_input=False)
    elif pres["problems"] or missing:
        chk.violation("the source text the model is tied to has changed: %s %s\nno failing input found (%d protocol ops, %d decodes tried)\n" %
                      (pres["problems"], missing, len(ops), estats["decodes"]), tag="corr", found_input=False)
    elif pres["disagree"]:
        src, a, b = pres["disagree"][0]
        chk.violation("Lean model and the real control code disagree on a recorded schedule, but the real events satisfy the property oracle\n"
                      "%s\nC   : %s\nLean: %s\ndisagreeing lines: %d\n" % (src, a[:2000], b[:2000], len(pres["disagree"])), tag="corr", found_input=False)
    elif wres["bad"]:
        chk.violation("a random schedule of the Lean model violates what the theorems state (model / driver inconsistency)\n%s\n" % wres["bad"][0],
                      tag="corr", found_input=False)


def replay(chk, path):
    ops, streams = [], []
    for line in open(path):
        m = re.match(r"\s*(?:input:\s*)?((?:tile|frame)\s[\d\s]+)$", line)
        if m:
            ops.append(m.group(1).strip() + "\n")
        m = re.match(r"\s*input:\s*e2e\s+(\{.*\})\s*$", line)
        if m:
            streams.append(json.loads(m.group(1)))
    if not ops and not streams:
        run(chk)
    else:
        run(chk, protocol_ops=ops, streams=streams)
