"""C07 — every SIMD kernel is a bit-exact drop-in for its C reference.

LEVEL "other": a Lean proof `k_simd = k_c` exists only for the kernels listed in lean/SvtVerif/Props/C07a.lean and
C07b.lean (all widths/heights/strides/sample values of their domain); every other dispatch entry is SAMPLED by the
generic differential harness, and the entries the harness cannot drive are listed by name in the evidence.

(1) Lean: SvtVerif.Props.C07a (residual8bit avx2, picture_average sse2, picture_average1_line sse2) and
    SvtVerif.Props.C07b (full_distortion_kernel32_bits / _cbf_zero32_bits avx2); lane-level models Model/Simd.lean +
    Model/SimdKernelsA.lean / SimdKernelsB.lean.
(2) Model validation: every modelled intrinsic and every modelled kernel (both variants) is run in Lean (`svtmodel simd`)
    and on the hardware / in the REAL library (harness/simd_ops_a.c, simd_ops_b.c) on the same op lines.
(3) Generic differential harness (xlate/kernel_protos.py generates the per-entry drivers from the dispatch table parsed by
    xlate/rtcd.py; harness/kernels.c is the runtime): for every drivable dispatch entry the `_c` function and every
    registered SIMD variant are called BY NAME on identical buffers; outputs, return values, stride padding and guard
    bands are compared.  Property oracle on REAL output: `_simd != _c` on a concrete buffer -> violation with the
    replay command of that buffer.
"""
import os
import re
import subprocess
import sys
import time
from . import common as C

sys.path.insert(0, os.path.join(C.VERIF, "xlate"))
LEVEL = "other"
MODULES = ["SvtVerif.Props.C07a", "SvtVerif.Props.C07b"]

def _kv(line):
    return dict(w.split("=", 1) for w in line.split() if "=" in w)


def _ints(d, *ks):
    try:
        return [int(d[k]) for k in ks]
    except (KeyError, ValueError):
        return None


def _fd32(d):
    # closed form proved in Lean (C07.fullDist32_eq_iff_noCarry): AVX2 residual = C residual - 2^32 * (lost carries); prediction term equal
    v = _ints(d, "c", "simd", "idx")
    return d.get("what") == "out:distortion_result" and v is not None and v[2] == 0 and v[0] > v[1] and (v[0] - v[1]) % (1 << 32) == 0


def _sad_sat(d):
    # 16-bit saturating SAD accumulation (_mm_adds_epu16 partial sums): whenever the true SAD exceeds 65535 the SIMD code may report less
    # (65535 for widths 8; 16-wide part + saturated 8-wide part for width 24, ...); the derived best position may then differ too
    v = _ints(d, "c", "simd")
    return (d.get("what") == "out:best_sad" and v is not None and v[0] > 65535 and v[1] < v[0]) or \
        d.get("what", "").startswith(("out:x_search_center", "out:y_search_center"))


def _mse_ret(d):
    return d.get("what") == "ret"


# genuine defects of the unchanged tree: (dispatch pointer, SIMD function) -> (key in known_findings.txt, predicate on the FAIL line).
# A FAIL of the same function that does not satisfy the predicate is NOT the known finding and is reported as a new violation.
KNOWN = {
    ("svt_full_distortion_kernel32_bits", "svt_full_distortion_kernel32_bits_avx2"): ("C07-fd32-avx2-add-epi32", _fd32),
    ("svt_sad_loop_kernel", "svt_sad_loop_kernel_sse4_1_intrin"): ("C07-sad-loop-sse4_1-u16-saturation", _sad_sat),
    ("svt_sad_loop_kernel", "svt_sad_loop_kernel_avx2_intrin"): ("C07-sad-loop-avx2-u16-saturation", _sad_sat),
    ("svt_aom_mse16x16", "svt_aom_mse16x16_avx2"): ("C07-mse16x16-avx2-return-value", _mse_ret),
}


def sh_lines(cmd, text, timeout):
    p = subprocess.run(cmd, input=text.encode(), stdout=subprocess.PIPE, stderr=subprocess.PIPE, timeout=timeout)
    return p.returncode, p.stdout.decode("utf-8", "replace").split("\n"), p.stderr.decode("utf-8", "replace")[-1500:]


def model_vs_hardware(chk, pr):
    """(2): returns (n_ops, mismatches [(op, lean, real)], kernel_divergences [(op_c, out_c, op_simd, out_simd)], problems)"""
    import importlib
    problems, mism, diverg = [], [], []
    n_ops = 0
    per_kind = {}
    for tag in ("a", "b"):
        try:
            ops_mod = importlib.import_module("checks.c07ops_" + tag)
        except ImportError as e:
            problems.append("checks/c07ops_%s.py missing: %s" % (tag, e))
            continue
        ops = ops_mod.gen_ops(chk.rng, chk.tier)
        text = "\n".join(ops) + "\n"
        exe = C.compile_harness("c07_simd_ops_" + tag, [os.path.join(C.VERIF, "harness", "simd_ops_%s.c" % tag)],
                                libs=["libSvtAv1Enc.a"], extra=["-mavx2", "-msse4.1", "-mssse3"])
        rc, real, err = sh_lines([exe], text, 1800)
        real = [l for l in real if l != ""]
        if rc != 0 or len(real) != len(ops):
            problems.append("simd_ops_%s: rc=%d printed %d lines for %d ops: %s" % (tag, rc, len(real), len(ops), err[-300:]))
            continue
        lean = None
        if pr is not None and pr.build_ok:
            try:
                # op lines are independent: split them over 4 driver processes (the functional memory model is slow on big buffers)
                C.ensure_driver()
                n = (len(ops) + 3) // 4
                chunks = [ops[i:i + n] for i in range(0, len(ops), n)]
                outs = C.run_parallel(lambda ch: C.run_model("simd", "\n".join(ch) + "\n", timeout=3600), chunks, workers=4)
                lean = [l for o in outs for l in o.split("\n") if l != ""]
            except (RuntimeError, C.BuildError) as e:
                problems.append("svtmodel simd failed: %s" % str(e)[-400:])
            if lean is not None and len(lean) != len(ops):
                problems.append("svtmodel simd printed %d lines for %d ops (%s)" % (len(lean), len(ops), tag))
                lean = None
        n_ops += len(ops)
        last_c = {}
        for i, op in enumerate(ops):
            ws = op.split()
            kind = " ".join(ws[:2])
            per_kind[kind] = per_kind.get(kind, 0) + 1
            if lean is not None and lean[i] != real[i]:
                mism.append((op, lean[i], real[i]))
            # kernel ops: `K <kernel> <variant> args...`; the same args with variant c / simd must give the same output
            if ws[0] == "K" and len(ws) > 3:
                key = (ws[1],) + tuple(ws[3:])
                if ws[2] == "c":
                    last_c[key] = (op, real[i])
                elif key in last_c and last_c[key][1] != real[i]:
                    diverg.append((last_c[key][0], last_c[key][1], op, real[i]))
    chk.cov["model_ops"] = per_kind
    return n_ops, mism, diverg, problems


def generic_harness(chk, replay_case=None):
    """(3): returns dict(entries, fails, crashes, summary, wall, ...)"""
    import kernel_protos
    gen_dir = os.path.join(C.gen_src_dir(), "c07")
    os.makedirs(gen_dir, exist_ok=True)
    info = kernel_protos.generate(gen_dir)
    srcs = [os.path.join(C.VERIF, "harness", "kernels.c"), os.path.join(gen_dir, "kernels_gen.c")]
    for h in sorted(os.listdir(os.path.join(C.VERIF, "harness"))):      # headers are part of the harness identity (cache key)
        if re.fullmatch(r"(kernels.*|kshapes_.*)\.h", h):
            srcs.append(os.path.join(C.VERIF, "harness", h))
    exe = compile_kernels(srcs)
    passes = 30 if chk.tier == "quick" else 300
    argv = [exe, "seed=%d" % chk.seed, "passes=%d" % passes]
    if replay_case:
        argv = [exe, "replay=%s" % replay_case, "dump=1"]      # the case id carries its own seed
    t0 = time.time()
    try:
        p = subprocess.run(argv, stdout=subprocess.PIPE, stderr=subprocess.PIPE, timeout=1200 if chk.tier == "quick" else 5400)
        rc, out, err = p.returncode, p.stdout.decode("utf-8", "replace"), p.stderr.decode("utf-8", "replace")[-1000:]
    except subprocess.TimeoutExpired as ex:
        rc, out, err = 124, (ex.stdout or b"").decode("utf-8", "replace"), "[timeout]"
    res = {"info": info, "rc": rc, "err": err, "entries": {}, "fails": [], "crashes": [], "summary": None, "wall": time.time() - t0,
           "exe": exe, "passes": passes, "raw": out if replay_case else ""}
    for line in out.split("\n"):
        ws = line.split()
        if not ws:
            continue
        if ws[0] == "ENTRY" and len(ws) >= 3:
            kv = _kv(line)
            res["entries"][ws[1]] = {"variants": kv.get("variants", "").split(","), "cases": int(kv.get("cases", 0)),
                                     "checks": int(kv.get("checks", 0)), "ok": ws[-1] == "ok"}
        elif ws[0] == "FAIL" and len(ws) >= 3:
            res["fails"].append({"ptr": ws[1], "fn": ws[2], "line": line, "kv": _kv(line)})
        elif ws[0] == "CRASH":
            res["crashes"].append(line)
        elif ws[0] == "SUMMARY":
            res["summary"] = _kv(line)
    return res


def compile_kernels(srcs):
    """compile_harness with the .h files only contributing to the cache key (gcc gets the two .c files)"""
    import hashlib
    h = hashlib.sha256()
    for f in srcs:
        h.update(open(f, "rb").read())
    cfiles = [f for f in srcs if f.endswith(".c")]
    return C.compile_harness("c07_kernels_" + h.hexdigest()[:8], cfiles, libs=["libSvtAv1Enc.a"])


def run(chk, replay_case=None):
    chk.cov["explanation"] = (
        "`_simd = _c` is PROVED (Lean, all sizes of the kernel's table, all strides, all sample values) only for the kernels named under "
        "`proved_kernels`; for svt_full_distortion_kernel32_bits the proof gives the exact divergence condition (lost carries) and the excluded region "
        "is a real defect (known finding). Every other dispatch entry is only SAMPLED by the generic differential harness (extreme/ramp/random "
        "buffers, all block sizes, odd strides, guard bands) inside hand-written valid domains; entries the harness cannot drive are listed under "
        "`not_exercised` and are not checked at all. Bit-exactness of the sampled kernels outside the sampled buffers is not shown.")
    trusted = [
        "lean/SvtVerif/Model/Simd.lean: hand-written lane-level semantics of the x86 intrinsics used by the modelled kernels, each validated against the "
        "real instruction on boundary + random operands (harness/simd_ops_*.c vs `svtmodel simd`)",
        "lean/SvtVerif/Model/SimdKernels*.lean: hand transcription of the _c and SIMD sources (line references in comments), validated 4-way "
        "(Lean c, Lean simd, real c, real simd) on generated buffers",
        "xlate/kernel_protos.py + kernel_handlers*.py + harness/kernels.c + kshapes_*.h: generic differential harness; valid domains per prototype family are "
        "hand-written (listed in evidence under harness_domains)"]
    prs = [chk.proofs(m, trusted_extra=trusted) for m in MODULES]

    class _PR:      # the modules together
        ok = all(p.ok for p in prs)
        build_ok = all(p.build_ok for p in prs)
        failed = dict(kv for p in prs for kv in p.failed.items())
        forbidden = [x for p in prs for x in p.forbidden]
    pr = _PR()
    chk.cov["checker_cmd"] = "cd lean && lake build %s && lake env lean <#print axioms for every theorem>" % " ".join(MODULES)
    chk.cov["proved_kernels"] = [
        "svt_residual_kernel8bit: c vs avx2 (widths 4,8,16,32,64,128)", "svt_picture_average_kernel: c vs sse2_intrin",
        "svt_full_distortion_kernel_cbf_zero32_bits: c vs avx2 (all int32 inputs)",
        "svt_full_distortion_kernel32_bits: c vs avx2 — prediction term for all inputs; residual term equal IFF no low-dword lane sum reaches 2^32 "
        "(closed form of the AVX2 result proved; divergence witness proved)"]
    # ---- (2) model validation
    n_ops, mism, diverg, mproblems = (0, [], [], []) if replay_case else model_vs_hardware(chk, pr)
    chk.cov["model_ops_compared"] = n_ops
    # ---- (3) generic harness
    g = generic_harness(chk, replay_case)
    info = g["info"]
    driven = sorted(g["entries"])
    chk.cov["dispatch_entries"] = len(info["driven"]) + len(info["not_driven"])
    chk.cov["entries_driven"] = len(info["driven"])
    chk.cov["entries_not_exercised"] = len(info["not_driven"])
    chk.cov["not_exercised"] = sorted("%s (%s)" % (p, why) for p, why in info["not_driven"])
    chk.cov["simd_variants_compared"] = sum(max(0, len(e["variants"]) - 1) for e in g["entries"].values())
    chk.cov["harness_domains"] = info.get("domains", {})
    chk.cov["harness_summary"] = g["summary"]
    chk.cov["harness_wall_s"] = round(g["wall"], 1)
    cases = sum(e["cases"] for e in g["entries"].values())
    chk.cov["evaluations"] = cases + n_ops
    chk.cov["distinct_nontrivial"] = sum(1 for e in g["entries"].values() if e["cases"] > 0 and len(e["variants"]) > 1)
    chk.cov["rule"] = ("distinct_nontrivial = number of dispatch entries for which at least one SIMD variant was executed and compared with the C reference on "
                       "at least one buffer; evaluations = buffers (cases) run through the generic harness + op lines of the model validation")
    for ptr in driven[:3] + driven[len(driven) // 2:len(driven) // 2 + 2]:
        chk.sample({"entry": ptr, **g["entries"][ptr]})
    chk.assumptions += ["valid domains of the generic harness are hand-written per prototype family from the C sources, asserts and /repo/test (see harness_domains); "
                        "cases outside them (harness option ext=1) are not part of the verdict",
                        "AVX-512 variants are not built (EN_AVX512_SUPPORT=0) and not exercised"]

    # ---- verdict (`found` = a NEW real failing input was reported; reproduced known findings do not count)
    found = False
    by = {}
    for f in g["fails"]:
        known = KNOWN.get((f["ptr"], f["fn"]))
        key = known[0] if known and known[1](f["kv"]) else None
        by.setdefault((f["ptr"], f["fn"], key), []).append(f["line"])
    for (ptr, fn, key), lines in sorted(by.items(), key=lambda kv: (kv[0][0], kv[0][1], kv[0][2] or "")):
        m = re.search(r"case=(\S+)", lines[0])
        found |= chk.violation("C07 violated: %s differs from the C reference of %s on a concrete buffer\n%s\nfailing cases printed for this variant: %d\n"
                               "replay-case: %s:%s\nreproduce by hand (prints every input buffer and both outputs in hex):\n  %s seed=%d passes=%d replay=%s:%s dump=1\n"
                               "or: bin/check C07 --replay <this file>\n" %
                               (fn, ptr, "\n".join(lines[:3]), len(lines), ptr, m.group(1) if m else "?", g["exe"], chk.seed, g["passes"], ptr,
                                m.group(1) if m else "?"), tag="kernel", key=key)
    for line in g["crashes"]:
        found |= chk.violation("C07: a kernel variant crashed inside the valid domain\n%s\n" % line, tag="crash")
    for opc, outc, ops, outs in diverg:
        ws = ops.split()
        key = {"fd32": "C07-fd32-avx2-add-epi32"}.get(ws[1])
        if chk.violation("C07 violated on a modelled kernel: real C and real SIMD variant differ\nop (c):    %s\n -> %s\nop (simd): %s\n -> %s\n"
                         "feed the op lines to harness/simd_ops_*.c to reproduce\n" % (opc[:2000], outc, ops[:2000], outs), tag="modelled", key=key):
            found = True
            break
    chk.cov["modelled_kernel_divergences"] = len(diverg)
    chk.cov["model_mismatches"] = len(mism)
    if replay_case:
        chk.cov["replay_output"] = g["raw"][-4000:]
        return
    if not found:
        if not pr.ok:
            chk.violation("proof obligations do not check:\n%s\nforbidden tokens: %s\nno new SIMD/C difference on the %d buffers tried\n" %
                          ("\n".join("%s: %s" % kv for kv in pr.failed.items()), pr.forbidden, cases), tag="proof", found_input=False)
        if mism or mproblems:
            chk.violation("Lean SIMD model and the hardware / real library disagree (model validation failed)\n%s\n%s\n" %
                          ("\n".join(mproblems), "\n".join("op %s\n lean %s\n real %s" % (o[:400], l[:200], r[:200]) for o, l, r in mism[:5])),
                          tag="corr", found_input=False)
        if g["rc"] != 0 or g["summary"] is None:
            chk.violation("generic kernel harness did not finish: rc=%s %s\n" % (g["rc"], g["err"]), tag="harness", found_input=False)
        if len(info["driven"]) != len(g["entries"]):
            chk.violation("generic kernel harness reported %d entries, generator says %d driven\n" % (len(g["entries"]), len(info["driven"])),
                          tag="harness", found_input=False)
    else:
        chk.cov["model_problems"] = mproblems


def replay(chk, path):
    """Re-run exactly the case named by `replay-case: <ptr>:<seed>.<index>` of a replay file (seed/passes taken from the case id)."""
    case = None
    for line in open(path):
        if line.startswith("replay-case: "):
            case = line.split()[1]
            break
    if case and re.fullmatch(r"[\w]+:\d+\.\d+", case):
        chk.seed = int(case.split(":")[1].split(".")[0])
        run(chk, replay_case=case)
    else:
        run(chk)
