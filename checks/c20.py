"""C20 — a coding tool the configuration switches off never appears in the bitstream; the requested tiling is used.

LEVEL "other": the header-gating lemmas (Props/C20.lean: tool_off_flag_off_*, flag_off_block_off, tool_off_block_off,
tile_info_spec, tile_requested_used, api_sizes_need_no_minimum_tiling) are proved of Model/ToolGate.lean, a hand
TRANSCRIPTION of ~40 derivation sites of /repo.  A site the transcription missed is only caught by parts (3)-(5):

(1) Lean proofs (all presets / picture kinds / search results, all frame sizes for the tile layout; no enumeration).
(2) tile layout: `svtmodel toolgate TILE` against an independent transcription of AV1 5.9.15 (uniform spacing) written
    in this file, on a size x SB size x request grid.
(3) real encodes (C.run_e2e) per switch x preset x screen_content_mode x content that WOULD pick the tool; every
    sequence / frame header of every packet is parsed by the Lean parser (`svtmodel obu`, validated against the real
    decoder's parser by C02) and
      (a) the property's own oracle runs on the REAL packets: switch OFF => header bit OFF; parsed tile layout ==
          requested, clamped per the specification;
      (b) the model's predicted bits (`svtmodel toolgate SEQ|FRM|TILE`) are compared with the parsed bits for OFF,
          ON and DEFAULT settings (correspondence of the transcription).  Search results (picked filter levels, CDEF
          strengths, restoration types, GM types) and the screen-content verdict enter the model as observed; the
          temporal layer and the reference flag are not visible in a header, so a field is compared against the SET of
          predictions over those two unknowns.
(4) block-level usage: tools without a frame-level flag (palette alone, CfL, OBMC while warp is on, ...) cannot be seen in
    headers.  harness/dec_toolcount.c decodes the real packets with the REAL decoder and reads the guarded per-block
    counters of hooks/hook-dec-toolcount.patch (EbDecParseBlock.c): a counter of a switched-off tool must be 0.
    WITHOUT the hook (`HOOK present=0`) this part is skipped and reported in the evidence as `block_level: not covered`.
(5) sensitivity: "all on" encodes record which counters / header bits are non-zero when the tool is ON, so a 0 in the OFF
    run means something.
"""
import os
from . import common as C

LEVEL = "other"
MODULE = "SvtVerif.Props.C20"

CNT = ("blocks inter_blocks palette_y palette_uv intrabc obmc warp filter_intra cfl interintra interintra_wedge compound_blocks "
       "comp_wedge comp_diffwtd comp_distwtd cdef_idx cdef_nonzero lr_units lr_filtered").split()
SEQ_BITS = "filter_intra intra_edge interintra masked warped jnt_comp ref_mvs sct superres cdef restoration".split()
FRM_BITS = ("allow_sct allow_intrabc lf_y0 lf_y1 lf_u lf_v cdef_bits cdef_y cdef_uv lr_y lr_u lr_v warped switchable_motion ref_mvs "
            "gm use_superres").split()

# switch -> (config assignments that switch it OFF, presets where the DEFAULT would have it ON, contents that would use it)
SWITCHES = {
    "dlf": ({"cfg.disable_dlf_flag": 1}, range(0, 9), [0, 4]),
    "cdef": ({"cfg.cdef_level": 0}, range(0, 9), [0, 4]),
    "restoration": ({"cfg.enable_restoration_filtering": 0}, range(0, 7), [0, 4]),
    "palette": ({"cfg.palette_level": 0, "cfg.screen_content_mode": 1}, range(0, 9), [5]),
    "screen_content": ({"cfg.screen_content_mode": 0}, range(0, 9), [5]),
    "intrabc": ({"cfg.intrabc_mode": 0, "cfg.screen_content_mode": 1}, range(0, 9), [5]),
    "global_motion": ({"cfg.enable_global_motion": 0}, range(0, 9), [2, 4]),
    "warped_motion": ({"cfg.enable_warped_motion": 0}, range(0, 9), [2, 4]),
    "obmc": ({"cfg.obmc_level": 0}, range(0, 6), [4, 2]),
    "filter_intra": ({"cfg.filter_intra_level": 0}, range(0, 6), [4, 0]),
    "inter_intra": ({"cfg.inter_intra_compound": 0}, range(0, 3), [4]),
    "compound": ({"cfg.compound_level": 0}, range(0, 9), [4]),
    "superres": ({"cfg.superres_mode": 0}, range(0, 9), [4]),
    "cfl": ({"cfg.disable_cfl_flag": 1}, range(0, 9), [4, 5, 0]),
    "intra_edge": ({"cfg.enable_intra_edge_filter": 0}, range(0, 9), [4]),
    "mfmv": ({"cfg.enable_mfmv": 0}, range(0, 9), [4]),
}
ALL_ON = {"cfg.disable_dlf_flag": 0, "cfg.cdef_level": 1, "cfg.enable_restoration_filtering": 1, "cfg.enable_global_motion": 1,
          "cfg.enable_warped_motion": 1, "cfg.obmc_level": 1, "cfg.filter_intra_level": 1, "cfg.inter_intra_compound": 1,
          "cfg.compound_level": 1, "cfg.disable_cfl_flag": 0, "cfg.enable_intra_edge_filter": 1, "cfg.enable_mfmv": 1}
ALL_ON_SC = dict(ALL_ON, **{"cfg.screen_content_mode": 1, "cfg.palette_level": 1, "cfg.intrabc_mode": 1})


def kv(line):
    d = {}
    for tok in line.split():
        if "=" in tok:
            k, v = tok.split("=", 1)
            d[k] = v
    return d


def describe(a):
    return " ".join("%s=%s" % (k, v) for k, v in a.items() if k != "_meta")


# ----------------------------------------------------------------------------- AV1 5.9.15 tile_info(), uniform spacing
def spec_tile_log2(blk, target):
    k = 0
    while (blk << k) < target:
        k += 1
    return k


def spec_tiles(w, h, sb128, req_cols, req_rows):
    """What a conforming decoder derives when the encoder asks for as many increment bits as allowed up to the request."""
    mi_cols, mi_rows = 2 * ((w + 7) >> 3), 2 * ((h + 7) >> 3)
    sb_shift = 5 if sb128 else 4
    sb_cols = (mi_cols + (1 << sb_shift) - 1) >> sb_shift
    sb_rows = (mi_rows + (1 << sb_shift) - 1) >> sb_shift
    sb_size_log2 = sb_shift + 2
    max_w_sb = 4096 >> sb_size_log2
    max_area_sb = (4096 * 2304) >> (2 * sb_size_log2)
    min_cols = spec_tile_log2(max_w_sb, sb_cols)
    max_cols = spec_tile_log2(1, min(sb_cols, 64))
    max_rows = spec_tile_log2(1, min(sb_rows, 64))
    min_tiles = max(min_cols, spec_tile_log2(max_area_sb, sb_rows * sb_cols))
    cl = min(max(req_cols, min_cols), max_cols)
    tw = (sb_cols + (1 << cl) - 1) >> cl
    col_starts = list(range(0, sb_cols, tw))
    min_rows = max(min_tiles - cl, 0)
    rl = min(max(req_rows, min_rows), max_rows)
    th = (sb_rows + (1 << rl) - 1) >> rl
    row_starts = list(range(0, sb_rows, th))
    return {"tile_cols_log2": cl, "tile_rows_log2": rl, "tile_cols": len(col_starts), "tile_rows": len(row_starts),
            "col_starts": col_starts, "row_starts": row_starts, "sb_cols": sb_cols, "sb_rows": sb_rows, "min_rows_spec": min_rows}


def tile_grid(chk):
    """(2) model TILE vs the specification transcription + the statement of tile_info_spec evaluated on the outputs."""
    r = chk.rng
    cases = []
    widths = [8, 16, 64, 65, 72, 128, 129, 192, 256, 320, 352, 640, 704, 1024, 1280, 1920, 2048, 3840, 4096]
    heights = [8, 16, 64, 65, 88, 128, 136, 192, 288, 384, 480, 720, 1080, 1088, 2160]
    for w in widths:
        for h in heights:
            for sb in (0, 1):
                for rc in range(0, 5):
                    for rr in (0, 1, 3, 6):
                        cases.append((w, h, sb, rc, rr))
    for _ in range(400 if chk.tier == "quick" else 6000):
        cases.append((r.range(8, 4096) & ~7 | (8 if r.chance(1, 2) else 0), r.range(8, 2160) & ~1, r.below(2), r.range(0, 6), r.range(0, 6)))
    text = "".join("TILE w=%d h=%d sb128=%d cols=%d rows=%d\n" % c for c in cases)
    out = [kv(l) for l in C.run_model("toolgate", text).split("\n") if l.startswith("TILE ")]
    bad = []
    if len(out) != len(cases):
        return len(cases), [("count", "model printed %d lines for %d ops" % (len(out), len(cases)))], 0
    distinct = set()
    for c, m in zip(cases, out):
        s = spec_tiles(*c)
        for k in ("tile_cols_log2", "tile_rows_log2", "tile_cols", "tile_rows", "sb_cols", "sb_rows", "min_rows_spec"):
            if int(m[k]) != s[k]:
                bad.append((c, "%s: model=%s spec=%s" % (k, m[k], s[k])))
        cs = [int(x) for x in m["col_starts"].split(",") if x != ""]
        rs = [int(x) for x in m["row_starts"].split(",") if x != ""]
        if cs != s["col_starts"] or rs != s["row_starts"]:
            bad.append((c, "starts: model=%s/%s spec=%s/%s" % (cs, rs, s["col_starts"], s["row_starts"])))
        # statement of tile_info_spec on the model output: non-empty tiles, count in (2^(k-1), 2^k]
        for n, k, sbn in ((len(cs), int(m["tile_cols_log2"]), s["sb_cols"]), (len(rs), int(m["tile_rows_log2"]), s["sb_rows"])):
            if not (1 <= n <= (1 << k)) or (k > 0 and n <= (1 << (k - 1))) or n > sbn:
                bad.append((c, "count %d outside (2^(k-1), 2^k] for k=%d" % (n, k)))
        distinct.add((s["sb_cols"], s["sb_rows"], s["tile_cols_log2"], s["tile_rows_log2"]))
    return len(cases), bad, len(distinct)


# ----------------------------------------------------------------------------- encode matrix
def base_args(chk, i, w, h, n, content, preset, extra, meta):
    a = dict(w=w, h=h, n=n, bd=8, content=content)
    a["cfg.enc_mode"] = preset
    a["cfg.qp"] = meta.pop("qp", 35)
    a.update(extra)
    a.update(hex=1, recon=0, decode=0, seed=chk.seed * 1000 + i, watchdog=600 if preset < 4 else 300)
    a["_meta"] = meta
    return a


def cases(chk):
    r = chk.rng
    cs = []
    quick = chk.tier == "quick"
    small = [(128, 64), (128, 128), (192, 128), (136, 72), (96, 80)]

    def add(w, h, n, content, preset, extra, **meta):
        cs.append(base_args(chk, len(cs), w, h, n, content, preset, extra, meta))

    # A. every switch OFF on its own, at a preset whose default has the tool ON, on content that would pick it
    for name, (off, presets, contents) in SWITCHES.items():
        ps = list(presets)
        reps = 2 if quick else 3
        for k in range(reps):
            p = r.choice([x for x in ps if x >= (3 if k == 0 else 2)] or ps) if quick else r.choice(ps)
            if name == "inter_intra":
                p = r.choice([1, 2]) if quick else r.choice([0, 1, 2])
            w, h = r.choice(small)
            ex = dict(off)
            nfr = 6 if quick else r.range(5, 9)
            if name in ("compound", "inter_intra", "obmc", "warped_motion", "mfmv"):
                ex["cfg.hierarchical_levels"] = r.choice([2, 3])
                nfr = 9
            add(w, h, nfr, r.choice(contents), p, ex, off=[name], kind="single-off", qp=r.choice([20, 35, 50]))
    # B. everything OFF at once (natural + screen content), several presets
    all_off = {}
    for name, (off, _, _) in SWITCHES.items():
        if name not in ("palette", "intrabc"):
            all_off.update(off)
    names_nat = [n for n in SWITCHES if n not in ("palette", "intrabc")]
    for p in ([8, 4] if quick else [8, 7, 6, 5, 4, 3, 2, 1, 0]):
        add(128, 64, 6, 4, p, all_off, off=names_nat, kind="all-off")
    sc_off = dict(all_off)
    sc_off.update({"cfg.screen_content_mode": 1, "cfg.palette_level": 0, "cfg.intrabc_mode": 0})
    for p in ([8, 5] if quick else [8, 6, 4, 2, 0]):
        add(128, 96, 5, 5, p, sc_off, off=[n for n in SWITCHES if n != "screen_content"], kind="all-off-sc")
    # C. everything ON explicitly / DEFAULT: correspondence of the ON and preset-default branches, sensitivity of the counters
    for p in ([8, 4, 2] if quick else [8, 7, 6, 5, 4, 3, 2, 1, 0]):
        add(128, 64, 7, r.choice([4, 2]), p, {}, off=[], kind="default")
    # hierarchical_levels=2 (mini-GOP 4) so that 9 pictures contain bi-predicted frames: compound / distance / wedge modes
    for p in ([8, 3] if quick else [8, 6, 4, 2, 0]):
        add(128, 64, 9, 4, p, dict(ALL_ON, **{"cfg.hierarchical_levels": 2}), off=[], kind="all-on", qp=30)
    for p in ([8, 4] if quick else [8, 6, 4, 2]):
        add(128, 96, 5, 5, p, ALL_ON_SC, off=[], kind="all-on-sc", qp=30)
    for p in ([8] if quick else [8, 5, 3]):
        add(128, 96, 5, 5, p, {"cfg.screen_content_mode": 2}, off=[], kind="sc-auto")
    # superres ON (needs loop restoration; TPL off: superres + TPL crashes in tpl_mc_flow, C02 side finding)
    for p in ([8] if quick else [8, 6, 4]):
        add(128, 128, 6, 4, p, {"cfg.superres_mode": 1, "cfg.superres_denom": 12, "cfg.superres_kf_denom": 10,
                                "cfg.enable_restoration_filtering": 1, "cfg.enable_tpl_la": 0, "cfg.intra_period_length": 3},
            off=[], kind="superres-on")
    # D. tiles: request x size x SB size (preset <= 4 uses 128x128 SBs)
    tile_sizes = [(640, 384), (320, 192), (448, 256), (256, 512), (704, 128), (192, 128), (64, 64)]
    treq = [(1, 0), (0, 1), (2, 1), (1, 2), (2, 2), (3, 0), (4, 0), (0, 3), (3, 3), (4, 2), (1, 6), (0, 6), (2, 5)]
    ntile = 6 if quick else 30
    fixed = [((640, 384), (2, 1), 8), ((320, 192), (2, 2), 8), ((448, 256), (4, 0), 8), ((256, 512), (1, 6), 8)]
    for k in range(ntile):
        if k < len(fixed):
            (w, h), (tc, tr), p = fixed[k]
        else:
            w, h = r.choice(tile_sizes)
            tc, tr = r.choice(treq)
            p = r.choice([8, 8, 6, 4])
        if (1 << tc) * (1 << tr) > 128:
            tr = 6 - tc if tc <= 1 else 1
        add(w, h, 2 if w * h > 100000 else 3, r.choice([0, 4]), p, {"cfg.tile_columns": tc, "cfg.tile_rows": tr},
            off=[], kind="tiles", req=(tc, tr))
    return cs


# ----------------------------------------------------------------------------- per-encode evaluation
def model_input(r):
    lines = ["RESET"]
    for i in sorted(r["HEX"]):
        lines.append("PKT %d %s" % (i, r["HEX"][i]))
    return lines


def split_streams(out):
    streams, cur = [], None
    for line in out.split("\n"):
        if line == "reset":
            cur = {"seq": [], "frm": [], "bad": []}
            streams.append(cur)
        elif cur is None:
            continue
        elif line.startswith("pkt="):
            k = kv(line)
            if k.get("ok") != "1":
                cur["bad"].append(line[:200])
        elif line.startswith("SEQ "):
            cur["seq"].append(kv(line))
        elif line.startswith("FRM "):
            cur["frm"].append(kv(line))
    return streams


def cfg_tokens(a):
    return " ".join("%s=%s" % (k, v) for k, v in a.items() if k.startswith("cfg."))


def all_zero(csv):
    return all(x == "0" for x in csv.split(",") if x != "")


def oracle_headers(off, seq, frames):
    """Property oracle on the parsed REAL headers -> list of (switch, what, text)."""
    bad = []

    def seqbit(sw, key):
        for s in seq:
            if s.get(key) != "0":
                bad.append((sw, "seq-" + key, "sequence header %s=%s" % (key, s.get(key))))
                break

    def frm(sw, what, pred, show):
        for f in frames:
            if f.get("show_existing") == "1":
                continue
            if not pred(f):
                bad.append((sw, what, "packet %s frame %s (frame_type=%s): %s" % (f.get("pkt"), f.get("k"), f.get("frame_type"), show(f))))
                break

    if "dlf" in off:
        frm("dlf", "lf-level", lambda f: f["lf_y0"] == "0" and f["lf_y1"] == "0", lambda f: "loop_filter_level = %s,%s" % (f["lf_y0"], f["lf_y1"]))
    if "cdef" in off:
        seqbit("cdef", "cdef")
        frm("cdef", "cdef-strength", lambda f: f["cdef_bits"] == "0" and all_zero(f["cdef_y"]) and all_zero(f["cdef_uv"]),
            lambda f: "cdef_bits=%s y=%s uv=%s" % (f["cdef_bits"], f["cdef_y"], f["cdef_uv"]))
    if "restoration" in off:
        seqbit("restoration", "restoration")
        frm("restoration", "lr-type", lambda f: (f["lr_y"], f["lr_u"], f["lr_v"]) == ("0", "0", "0"), lambda f: "lr types %s,%s,%s" % (f["lr_y"], f["lr_u"], f["lr_v"]))
    if "screen_content" in off:
        frm("screen_content", "allow-sct", lambda f: f["allow_sct"] == "0" and f["allow_intrabc"] == "0",
            lambda f: "allow_screen_content_tools=%s allow_intrabc=%s" % (f["allow_sct"], f["allow_intrabc"]))
    if "intrabc" in off:
        frm("intrabc", "allow-intrabc", lambda f: f["allow_intrabc"] == "0", lambda f: "allow_intrabc=1")
    if "global_motion" in off:
        frm("global_motion", "gm-type", lambda f: all_zero(f["gm"]), lambda f: "gm types %s" % f["gm"])
    if "warped_motion" in off:
        seqbit("warped_motion", "warped")
        frm("warped_motion", "allow-warped", lambda f: f["warped"] == "0", lambda f: "allow_warped_motion=1")
    if "obmc" in off and "warped_motion" in off:
        frm("obmc", "switchable-motion", lambda f: f["switchable_motion"] == "0", lambda f: "is_motion_mode_switchable=1")
    if "filter_intra" in off:
        seqbit("filter_intra", "filter_intra")
    if "inter_intra" in off:
        seqbit("inter_intra", "interintra")
    if "compound" in off:
        seqbit("compound", "masked")
        seqbit("compound", "jnt_comp")
    if "superres" in off:
        seqbit("superres", "superres")
        frm("superres", "use-superres", lambda f: f["use_superres"] == "0", lambda f: "use_superres=1 denom=%s" % f.get("superres_denom"))
    if "intra_edge" in off:
        seqbit("intra_edge", "intra_edge")
    if "mfmv" in off:
        frm("mfmv", "use-ref-frame-mvs", lambda f: f["ref_mvs"] == "0", lambda f: "use_ref_frame_mvs=1")
    return bad


# counters that must be 0 per switched-off tool
COUNTER_RULES = {
    "palette": ["palette_y", "palette_uv"], "screen_content": ["palette_y", "palette_uv", "intrabc"], "intrabc": ["intrabc"],
    "obmc": ["obmc"], "warped_motion": ["warp"], "filter_intra": ["filter_intra"], "cfl": ["cfl"],
    "inter_intra": ["interintra"], "compound": ["comp_wedge", "comp_diffwtd", "comp_distwtd"],
    "cdef": ["cdef_nonzero", "cdef_idx"], "restoration": ["lr_filtered", "lr_units"],
}


def run_counters(exe, a, r):
    text = "RESET %d %d %d\n" % (a["w"], a["h"], a["bd"]) + "".join("PKT %d %s\n" % (i, r["HEX"][i]) for i in sorted(r["HEX"]))
    rc, out = C.sh([exe], input=text.encode(), timeout=600)
    res = {"hook": None, "tc": [], "err": [], "rc": rc}
    for line in out.split("\n"):
        if line.startswith("HOOK "):
            res["hook"] = kv(line).get("present") == "1"
        elif line.startswith("TC "):
            k = kv(line)
            vals = [int(x) for x in k["c"].split(",")]
            res["tc"].append((int(k["pkt"]), int(k["k"]), dict(zip(CNT, vals))))
        elif line.startswith("DPK "):
            k = kv(line)
            if k.get("err") != "0":
                res["err"].append(line)
    return res


def run(chk, only_args=None):
    # ---- 1. proofs
    pr = chk.proofs(MODULE, trusted_extra=[
        "Model/ToolGate.lean is a hand transcription (file:line comments) of the configuration -> signal -> header-bit sites of /repo; it is "
        "tied to the code only by the real-encode correspondence and oracle of this check",
        "`svtmodel obu` (Model/Av1Header.lean): the Lean sequence/frame header parser, validated against the real decoder's parser by C02",
        "harness/enc_e2e.c: the real encoder; harness/dec_toolcount.c + hooks/hook-dec-toolcount.patch: the real decoder's block parser with "
        "guarded counters",
        "the AV1 block-syntax table `mayBePresent` and spec_tiles() in checks/c20.py are hand transcriptions of AV1 specification 5.11.x / 5.9.15"])
    chk.cov["explanation"] = (
        "LEVEL other: the lemmas are proved of a transcription of scattered derivation sites; a site the transcription missed is only caught by "
        "the real-encode oracle (header bits) and the decoder block counters, which are sampled, not exhaustive.")
    import time
    t_mark = time.time()
    chk.cov["phase_seconds"] = {"proofs": round(t_mark - chk.t0, 1)}
    # ---- 2. tile grid: model vs specification
    tile_err = None
    n_tile, tile_bad, tile_distinct = 0, [], 0
    try:
        n_tile, tile_bad, tile_distinct = tile_grid(chk)
    except (RuntimeError, C.BuildError) as e:
        tile_err = str(e)[-1500:]
    chk.cov["tile_grid_cases"] = n_tile
    chk.cov["tile_grid_distinct_layouts"] = tile_distinct
    chk.cov["phase_seconds"]["tile_grid"] = round(time.time() - t_mark, 1)
    t_mark = time.time()
    # ---- 3. real encodes
    cs = [only_args] if only_args else cases(chk)
    for a in cs:
        a.setdefault("_meta", {"off": [], "kind": "replay"})

    def enc(a):
        return C.run_e2e({k: v for k, v in a.items() if k != "_meta"}, timeout=900)
    results = C.run_parallel(enc, cs, workers=4)
    chk.cov["phase_seconds"]["encodes"] = round(time.time() - t_mark, 1)
    t_mark = time.time()
    usable, enc_problems = [], []
    for a, r in zip(cs, results):
        if r["crashed"] or r["hung"] or r["SETPARAM"] not in (0,) or not r["PKT"] or len(r["HEX"]) != len(r["PKT"]):
            enc_problems.append((describe(a), "rc=%s setparam=%s packets=%d hung=%s err=%s" % (r["rc"], r["SETPARAM"], len(r["PKT"]), r["hung"], r["ERR"][:2])))
        else:
            usable.append((a, r))
    chk.cov["encodes"] = len(cs)
    chk.cov["encodes_usable"] = len(usable)
    if enc_problems:
        chk.cov["encodes_not_usable"] = enc_problems[:10]
    model_err = None
    streams = []
    if usable:
        try:
            streams = split_streams(C.run_model("obu", "\n".join("\n".join(model_input(r)) for _, r in usable) + "\n"))
        except (RuntimeError, C.BuildError) as e:
            model_err = str(e)[-1500:]
    # ---- 4. decoder block counters
    hook_present = None
    counters = [None] * len(usable)
    cnt_err = None
    try:
        dexe = C.compile_harness("dec_toolcount", [os.path.join(C.VERIF, "harness", "dec_toolcount.c")], libs=["libSvtAv1Dec.a"])
        counters = C.run_parallel(lambda ar: run_counters(dexe, ar[0], ar[1]), usable, workers=4)
        hook_present = bool(counters) and all(c["hook"] for c in counters)
    except (RuntimeError, C.BuildError) as e:
        cnt_err = str(e)[-1500:]

    chk.cov["phase_seconds"]["parse_and_counters"] = round(time.time() - t_mark, 1)
    # ---- 5. evaluate
    oracle_fail = []     # (args, r, switch, what, text)
    corr_fail = []       # (args, text)
    n_frames = n_seq = n_fields = n_determined = 0
    seen_on = {}         # sensitivity: tool -> count when not switched off
    off_hist, kind_hist, preset_hist, content_hist = {}, {}, {}, {}
    distinct = set()
    tc_frames = 0
    samples = 0
    tg_lines, tg_refs = [], []
    for si, (a, r) in enumerate(usable):
        if si >= len(streams):
            break
        st = streams[si]
        meta = a["_meta"]
        off = meta.get("off", [])
        kind_hist[meta.get("kind")] = kind_hist.get(meta.get("kind"), 0) + 1
        preset_hist[str(a["cfg.enc_mode"])] = preset_hist.get(str(a["cfg.enc_mode"]), 0) + 1
        content_hist[str(a["content"])] = content_hist.get(str(a["content"]), 0) + 1
        for sw in off:
            off_hist[sw] = off_hist.get(sw, 0) + 1
            distinct.add((sw, a["cfg.enc_mode"], a["content"]))
        if st["bad"] or not st["seq"] or not st["frm"]:
            corr_fail.append((a, "Lean header parser rejected a packet: %s" % (st["bad"][:1] or "no sequence/frame header found")))
            continue
        frames = [f for f in st["frm"] if f.get("show_existing") != "1"]
        n_frames += len(frames)
        n_seq += len(st["seq"])
        # (a) property oracle on the real headers
        for sw, what, text in oracle_headers(off, st["seq"], st["frm"]):
            oracle_fail.append((a, r, sw, what, text))
        # tiles: oracle against the specification (requested, clamped)
        req = meta.get("req") or (int(a.get("cfg.tile_columns", 0)), int(a.get("cfg.tile_rows", 0)))
        sb128 = int(st["seq"][0]["sb128"])
        for f in frames:
            s = spec_tiles(int(f["w"]), int(f["h"]), sb128, req[0], req[1])
            got = tuple(int(f[k]) for k in ("tile_cols_log2", "tile_rows_log2", "tile_cols", "tile_rows", "uniform"))
            want = (s["tile_cols_log2"], s["tile_rows_log2"], s["tile_cols"], s["tile_rows"], 1)
            distinct.add(("tiles",) + want + (sb128,))
            if got != want:
                oracle_fail.append((a, r, "tiles", "layout", "packet %s: signalled (cols_log2, rows_log2, cols, rows, uniform)=%s, requested %s on %sx%s "
                                    "sb128=%d gives %s" % (f.get("pkt"), got, req, f["w"], f["h"], sb128, want)))
                break
        # (b) correspondence with the model: queue the toolgate ops
        ct = cfg_tokens(a)
        anyscaled = int(any(f["use_superres"] == "1" for f in frames))
        tg_lines.append("SEQ anyscaled=%d %s" % (anyscaled, ct))
        tg_refs.append(("seq", a, st["seq"]))
        for f in frames:
            picks = ("p.frame_type=%s p.error_res=%s p.scaled=%s p.sc=%s p.lf_y0=%s p.lf_y1=%s p.lf_u=%s p.lf_v=%s p.cdef_bits=%s p.cdef_y=%s "
                     "p.cdef_uv=%s p.lr_y=%s p.lr_u=%s p.lr_v=%s p.gm=%s" % (
                         f["frame_type"], f["error_res"], f["use_superres"], f["allow_sct"], f["lf_y0"], f["lf_y1"], f.get("lf_u", 0),
                         f.get("lf_v", 0), f["cdef_bits"], f["cdef_y"], f["cdef_uv"], f["lr_y"], f["lr_u"], f["lr_v"], f["gm"]))
            for tl in (0, 1):
                for ref in (0, 1):
                    tg_lines.append("FRM %s %s p.tl=%d p.is_ref=%d" % (ct, picks, tl, ref))
            tg_refs.append(("frm", a, f))
        f0 = frames[0]
        tg_lines.append("TILE w=%s h=%s sb128=%d cols=%d rows=%d" % (f0["w"], f0["h"], sb128, req[0], req[1]))
        tg_refs.append(("tile", a, f0))
        # block counters
        c = counters[si]
        if c is not None and c["hook"]:
            if c["err"] or len(c["tc"]) == 0:
                corr_fail.append((a, "real decoder failed on the packets while counting tools: %s rc=%s" % (c["err"][:1], c["rc"])))
            tot = {k: 0 for k in CNT}
            for pkt, k, d in c["tc"]:
                tc_frames += 1
                for key, v in d.items():
                    tot[key] += v
            for sw in off:
                for key in COUNTER_RULES.get(sw, []):
                    if tot[key] != 0:
                        first = next(((p_, k_) for p_, k_, d in c["tc"] if d[key]), None)
                        oracle_fail.append((a, r, sw, "block-" + key, "decoder block counter %s = %d with the tool switched off (first in packet %s frame %s); "
                                            "totals %s" % (key, tot[key], first[0], first[1], {k: v for k, v in tot.items() if v})))
            for key in CNT[2:]:
                blocked = any(key in COUNTER_RULES.get(sw, []) for sw in off)
                if not blocked and tot[key]:
                    seen_on[key] = seen_on.get(key, 0) + tot[key]
            if samples < 6:
                chk.sample({"encode": describe(a), "off": off, "block_counters": {k: v for k, v in tot.items() if v}})
                samples += 1
        # header-level sensitivity
        for f in frames:
            for key, pred in (("hdr_lf", f["lf_y0"] != "0"), ("hdr_cdef", not all_zero(f["cdef_y"])), ("hdr_lr", (f["lr_y"], f["lr_u"], f["lr_v"]) != ("0", "0", "0")),
                              ("hdr_allow_sct", f["allow_sct"] == "1"), ("hdr_allow_intrabc", f["allow_intrabc"] == "1"), ("hdr_gm", not all_zero(f["gm"])),
                              ("hdr_warped", f["warped"] == "1"), ("hdr_switchable", f["switchable_motion"] == "1"), ("hdr_ref_mvs", f["ref_mvs"] == "1"),
                              ("hdr_superres", f["use_superres"] == "1"), ("hdr_tiles", f["tile_cols"] != "1" or f["tile_rows"] != "1")):
                if pred:
                    seen_on[key] = seen_on.get(key, 0) + 1
        for s in st["seq"][:1]:
            for key in ("filter_intra", "interintra", "masked", "jnt_comp", "warped", "cdef", "restoration", "superres", "intra_edge"):
                if s.get(key) == "1":
                    seen_on["seq_" + key] = seen_on.get("seq_" + key, 0) + 1

    # model predictions
    if tg_lines and not model_err:
        try:
            mout = [l for l in C.run_model("toolgate", "\n".join(tg_lines) + "\n").split("\n") if l]
        except (RuntimeError, C.BuildError) as e:
            mout, model_err = [], str(e)[-1500:]
        pos = 0
        for what, a, obj in tg_refs:
            if model_err or pos >= len(mout):
                break
            if what == "seq":
                m = kv(mout[pos]); pos += 1
                for s in obj:
                    for key in SEQ_BITS:
                        n_fields += 1
                        n_determined += 1
                        if m.get(key) != s.get(key):
                            corr_fail.append((a, "sequence header %s: model=%s stream=%s" % (key, m.get(key), s.get(key))))
            elif what == "frm":
                preds = [kv(x) for x in mout[pos:pos + 4]]; pos += 4
                for key in FRM_BITS:
                    okey = key
                    vals = set(p.get(key) for p in preds)
                    n_fields += 1
                    n_determined += len(vals) == 1
                    ov = obj.get(okey)
                    if key in ("lf_u", "lf_v") and obj["lf_y0"] == "0" and obj["lf_y1"] == "0":
                        continue
                    if ov not in vals:
                        corr_fail.append((a, "packet %s frame %s (type %s) %s: model in %s, stream=%s" % (obj.get("pkt"), obj.get("k"), obj.get("frame_type"), key, sorted(vals), ov)))
            else:
                m = kv(mout[pos]); pos += 1
                for key in ("tile_cols_log2", "tile_rows_log2", "tile_cols", "tile_rows"):
                    n_fields += 1
                    n_determined += 1
                    if m.get(key) != obj.get(key):
                        corr_fail.append((a, "tile info %s: model=%s stream=%s (frame %sx%s)" % (key, m.get(key), obj.get(key), obj["w"], obj["h"])))

    # ---- 6. coverage
    chk.cov["evaluations"] = n_frames + n_tile
    chk.cov["frame_headers_checked"] = n_frames
    chk.cov["sequence_headers_checked"] = n_seq
    chk.cov["header_fields_compared_with_model"] = n_fields
    chk.cov["header_fields_determined_by_model"] = n_determined
    chk.cov["distinct_nontrivial"] = len(distinct) + tile_distinct
    chk.cov["rule"] = ("distinct_nontrivial = distinct (switched-off tool, preset, content) triples encoded + distinct signalled tile layouts in real streams + "
                       "distinct (sb_cols, sb_rows, cols_log2, rows_log2) of the model-vs-specification tile grid; every frame header of every usable encode "
                       "goes through the property oracle and the model correspondence")
    chk.cov["switch_off_encodes"] = off_hist
    chk.cov["encode_kinds"] = kind_hist
    chk.cov["presets"] = preset_hist
    chk.cov["contents"] = content_hist
    chk.cov["tools_seen_when_not_switched_off"] = seen_on
    chk.cov["disagreements_checked"] = n_fields + n_tile
    if hook_present:
        chk.cov["block_level"] = "covered: decoder block counters read for %d frames" % tc_frames
    else:
        chk.cov["block_level"] = ("NOT COVERED: hooks/hook-dec-toolcount.patch is not applied to the tree (or the harness did not build: %s); tools without a header flag "
                                  "(palette with screen content on, CfL, OBMC while warp is on, inter-intra/compound per block) were not observed" % (cnt_err or "HOOK present=0"))
        print("[C20] block-level part skipped: decoder counter hook absent — palette / CfL / OBMC / per-block usage NOT covered by this run")
    chk.assumptions += [
        "8-bit 4:2:0, CQP, logical_processors=4, default prediction structure (the C03 deadlock/crash families hierarchical_levels=5, enable_overlays=1, "
        "enable_tpl_la with lp=1 are kept out)",
        "base_q_idx > 0 (coded_lossless = 0)",
        "global-motion use has no block counter (only the header types are checked)"]

    # ---- 7. verdict
    def replay_text(a, r, what):
        return ("%s\nencode: %s\nreplay: bin/check C20 --replay <this file>\n--- packets (feed to `svtmodel obu`) ---\n%s\n" %
                (what, describe(a), "\n".join(model_input(r))))

    reported = set()
    for a, r, sw, what, text in oracle_fail:
        key = "C20-%s-%s" % (sw, what)
        if key in reported:
            continue
        reported.add(key)
        n_same = sum(1 for x in oracle_fail if x[2] == sw and x[3] == what)
        chk.violation(replay_text(a, r, "C20 violated by a real encoder output: tool `%s` is switched off but appears in the bitstream\n%s\n"
                                        "occurrences in this run: %d" % (sw, text, n_same)), tag=key.replace("C20-", ""), key=key)
    if not oracle_fail:
        if not pr.ok:
            chk.violation("proof obligations do not check:\n%s\nforbidden tokens: %s\nno real stream violates the property (%d frames)\n" %
                          ("\n".join("%s: %s" % x for x in pr.failed.items()), pr.forbidden, n_frames), tag="proof", found_input=False)
        if model_err or tile_err:
            chk.violation("svtmodel failed: %s\n" % (model_err or tile_err), tag="model", found_input=False)
        if tile_bad:
            chk.violation("model tile layout and the AV1 5.9.15 transcription disagree on %d grid points\nfirst: %s %s\n" %
                          (len(tile_bad), tile_bad[0][0], tile_bad[0][1]), tag="tilegrid", found_input=False)
        if corr_fail:
            a, text = corr_fail[0]
            chk.violation("the ToolGate model and the real streams disagree (the transcription no longer describes the code); the streams satisfy the C20 oracle\n"
                          "encode: %s\n%s\ndisagreements: %d\n%s\n" % (describe(a), text, len(corr_fail), "\n".join("%s | %s" % (describe(x[0])[:120], x[1]) for x in corr_fail[:20])),
                          tag="corr", found_input=False)
        if len(usable) * 5 < len(cs) * 4:
            chk.violation("only %d of %d encodes were usable: %s\n" % (len(usable), len(cs), enc_problems[:5]), tag="enc", found_input=False)


def replay(chk, path):
    """Re-run the encode named in the replay file (line `encode: k=v ...`); the `off` list is rebuilt from the OFF values present."""
    args = None
    for line in open(path):
        if line.startswith("encode: "):
            args = {}
            for tok in line[len("encode: "):].split():
                k, v = tok.split("=", 1)
                args[k] = int(v) if v.lstrip("-").isdigit() else v
            break
    if args is None:
        raise RuntimeError("no `encode:` line in %s" % path)
    off = [name for name, (cfg, _, _) in SWITCHES.items() if all(args.get(k) == v for k, v in cfg.items()
                                                                   if not (k == "cfg.screen_content_mode" and name in ("palette", "intrabc")))
           and any(k in args for k in cfg if k != "cfg.screen_content_mode" or name == "screen_content")]
    args["_meta"] = {"off": off, "kind": "replay"}
    run(chk, only_args=args)
