"""Shared glue of checks/c03.py and checks/c19.py for real end-to-end encodes.

  * harness/gop_e2e.c   real encoder (+ decoder) in process: arbitrary pts sequences, distinct p_app_private values,
                        watchdog with the phase it fired in
  * harness/dec_suffix.c real decoder on a suffix of a packet list (random access)
  * `svtmodel obu`      Lean OBU / frame-header parser -> per packet the list of frame headers
  * reconstruction of the decode-order frame list (display number lifted from order_hint) from the parsed headers

Nothing here decides a verdict.
"""
import os
import subprocess
import sys
import threading

from . import common as C

EOS, SHOW_EXT, HAS_TD, IS_ALT_REF = 1, 2, 4, 8


def _cfg_header():
    sys.path.insert(0, os.path.join(C.VERIF, "xlate"))
    import cfgfields
    hdr = os.path.join(C.gen_src_dir(), "cfg_fields.h")
    txt = cfgfields.xmacro_header()
    if not os.path.exists(hdr) or open(hdr).read() != txt:
        open(hdr, "w").write(txt)


_EXE = {}
_EXE_LOCK = threading.Lock()


def enc_exe():
    """Compiled once per process (call it before fanning out to threads)."""
    with _EXE_LOCK:
        if "enc" not in _EXE:
            _cfg_header()
            _EXE["enc"] = C.compile_harness("gop_e2e", [os.path.join(C.VERIF, "harness", "gop_e2e.c")],
                                            libs=["libSvtAv1Enc.a", "libSvtAv1Dec.a"], extra=["-I" + C.gen_src_dir()])
        return _EXE["enc"]


def dec_exe():
    with _EXE_LOCK:
        if "dec" not in _EXE:
            _EXE["dec"] = C.compile_harness("dec_suffix", [os.path.join(C.VERIF, "harness", "dec_suffix.c")], libs=["libSvtAv1Dec.a"])
        return _EXE["dec"]


def describe(args):
    return " ".join("%s=%s" % (k, v) for k, v in args.items())


def parse_describe(text):
    args = {}
    for tok in text.split():
        if "=" in tok:
            k, v = tok.split("=", 1)
            args[k] = int(v) if v.lstrip("-").isdigit() else v
    return args


def run_enc(args, timeout=None):
    """One real encode.  Returns common.parse_e2e's dict + IN [(pts, priv)], FINALWAIT ms, TIMEOUT_PHASE, wall_s."""
    import time
    exe = enc_exe()
    argv = [exe] + ["%s=%s" % (k, v) for k, v in args.items()]
    wd = int(args.get("watchdog", 120))
    t0 = time.time()
    try:
        p = subprocess.run(argv, stdout=subprocess.PIPE, stderr=subprocess.PIPE, timeout=timeout or (wd + 60))
        out, err, rc = p.stdout.decode("utf-8", "replace"), p.stderr.decode("utf-8", "replace"), p.returncode
    except subprocess.TimeoutExpired as ex:
        out = (ex.stdout or b"").decode("utf-8", "replace")
        err, rc = "[harness wall-clock timeout]", 124
    r = C.parse_e2e(out)
    r["rc"], r["stderr"], r["argv"], r["wall_s"] = rc, err[-2000:], describe(args), time.time() - t0
    r["crashed"] = rc not in (0, 3, 124)
    r["hung"] = rc in (3, 124) or r["TIMEOUT"]
    r["IN"], r["FINALWAIT"], r["TIMEOUT_PHASE"] = [], None, None
    for line in out.split("\n"):
        ws = line.split()
        if not ws:
            continue
        try:
            if ws[0] == "IN":
                r["IN"].append((int(ws[2]), int(ws[3])))
            elif ws[0] == "FINALWAIT":
                r["FINALWAIT"] = float(ws[1])
            elif ws[0] == "TIMEOUT":
                r["TIMEOUT_PHASE"] = " ".join(ws[1:])
        except (IndexError, ValueError):
            pass
    r["DECPKT"] = []
    for line in out.split("\n"):
        if line.startswith("DEC "):
            ws = line.split()
            try:
                r["DECPKT"].append((int(ws[1]), ws[2], int(ws[-1].split("=")[1])))
            except (IndexError, ValueError):
                pass
    return r


def kv(line):
    d = {}
    for tok in line.split():
        if "=" in tok:
            k, v = tok.split("=", 1)
            d[k] = v
    return d


def obu_input(r):
    lines = ["RESET"]
    for i in sorted(r["HEX"]):
        lines.append("PKT %d %s" % (i, r["HEX"][i]))
    return lines


def parse_streams(results):
    """Run `svtmodel obu` over the packets of all `results` (each needs HEX).  -> list (per result) of list (per packet) of
    dict(ok, err, frm=[kv...], seq=[kv...])."""
    text = "\n".join("\n".join(obu_input(r)) for r in results) + "\n"
    out = C.run_model("obu", text)
    streams, cur = [], None
    for line in out.split("\n"):
        if not line:
            continue
        if line == "reset":
            cur = []
            streams.append(cur)
        elif line.startswith("pkt="):
            k = kv(line)
            cur.append({"ok": k.get("ok") == "1", "err": k.get("err"), "kv": k, "frm": [], "seq": []})
        elif line.startswith("FRM "):
            cur[-1]["frm"].append(kv(line))
        elif line.startswith("SEQ "):
            cur[-1]["seq"].append(kv(line))
    return streams


class CodedFrame(object):
    __slots__ = ("idx", "pkt", "disp", "oh", "shown", "ftype", "refresh", "ref_idx", "showable", "hse", "alt", "hdr")

    def __repr__(self):
        return "F(d%d pkt%d disp%d %s t%s%s%s)" % (self.idx, self.pkt, self.disp, "S" if self.shown else "h", self.ftype,
                                                   " hse" if self.hse else "", " alt" if self.alt else "")


def frames_of(stream):
    """Decode-order list of coded frames + per-packet display info reconstructed from the parsed headers.

    Returns (frames, shows, problems):
      frames  [CodedFrame] in decode order (= packet order, order inside the packet)
      shows   per packet: dict(kind 'coded'|'existing'|None, frame (CodedFrame shown, for 'existing' the frame held by the slot),
                               ftype (frame_type of the displayed frame), ncoded)
      problems [str] structural surprises (a packet without exactly one displayed frame, order hint of the shown frame not
               congruent with the display position, show-existing of an empty slot ...)
    """
    frames, shows, problems = [], [], []
    bits = 7
    slots = [None] * 8
    for i, p in enumerate(stream):
        for s in p["seq"]:
            try:
                bits = int(s.get("order_hint_bits", bits))
            except ValueError:
                pass
        M = 1 << bits
        show = {"kind": None, "frame": None, "ftype": None, "ncoded": 0}
        if not p["ok"]:
            problems.append("packet %d does not parse: %s" % (i, p["err"]))
            shows.append(show)
            continue
        nshown = 0
        for h in p["frm"]:
            if h.get("show_existing") == "1":
                idx = int(h.get("existing_idx", "0"))
                f = slots[idx]
                nshown += 1
                if f is None:
                    problems.append("packet %d: show_existing_frame of empty slot %d" % (i, idx))
                else:
                    show = {"kind": "existing", "frame": f, "ftype": f.ftype, "ncoded": show["ncoded"]}
                    if f.ftype == 0:       # spec 7.21: showing a key frame reloads it into every slot
                        slots = [f] * 8
                continue
            f = CodedFrame()
            f.idx, f.pkt, f.hdr = len(frames), i, h
            f.oh = int(h.get("order_hint", "0"))
            f.shown = h.get("show_frame") == "1"
            f.ftype = int(h.get("frame_type", "1"))
            f.refresh = int(h.get("refresh", "0"))
            f.showable = h.get("showable") == "1"
            f.ref_idx = [int(x) for x in h.get("ref_idx", "").split(",") if x != ""]
            f.hse, f.alt = False, False
            # display number: the packet index i is the display position of the picture shown by this packet; a frame decoded
            # in packet i is picture >= i
            f.disp = i + ((f.oh - i) % M)
            if f.shown:
                nshown += 1
                if f.disp != i:
                    problems.append("packet %d: shown frame has order_hint %d, display position %d" % (i, f.oh, i))
                show = {"kind": "coded", "frame": f, "ftype": f.ftype, "ncoded": show["ncoded"]}
            show["ncoded"] += 1
            frames.append(f)
            for s in range(8):
                if (f.refresh >> s) & 1:
                    slots[s] = f
        if nshown != 1:
            problems.append("packet %d displays %d frames" % (i, nshown))
        shows.append(show)
    # has_show_existing: the shown coded frame of packet i is followed by a show-existing packet
    for i, sh in enumerate(shows):
        if sh["kind"] == "coded" and i + 1 < len(shows) and shows[i + 1]["kind"] == "existing":
            sh["frame"].hse = True
    # alt-ref: a non-shown frame whose picture is later coded again as a shown frame (the overlay)
    shown_coded = {}
    for f in frames:
        if f.shown:
            shown_coded.setdefault(f.disp, f)
    for f in frames:
        if not f.shown and f.disp in shown_coded and shown_coded[f.disp].idx > f.idx:
            f.alt = True
    return frames, shows, problems


def packetize_line(frames, pts_of, priv_of, depth=2048):
    """Input line of `svtmodel packetize` for the reconstructed decode-order list, arriving in decode order."""
    parts = ["%d %d %d" % (depth, len(frames) - 1, len(frames))]
    for f in frames:
        parts.append("%d %d %d %d %d %d %d 0" % (f.idx, f.disp, pts_of(f.disp), 1 if f.shown else 0, 1 if f.hse else 0,
                                                   1 if f.alt else 0, priv_of(f.disp)))
    return " ".join(parts)


def decode_suffixes(r, dims, cuts, timeout=600):
    """Real decoder on packets[k:] for every k in cuts.  -> {k: {'out': [(j, crc, pkt)], 'err': [...], 'n': int}}"""
    exe = dec_exe()
    lines = ["RESET %d %d %d" % dims]
    for i in sorted(r["HEX"]):
        lines.append("PKT %d %s" % (i, r["HEX"][i]))
    for k in cuts:
        lines.append("DECODE %d" % k)
    try:
        p = subprocess.run([exe], input=("\n".join(lines) + "\n").encode(), stdout=subprocess.PIPE, stderr=subprocess.PIPE, timeout=timeout)
        out, rc = p.stdout.decode("utf-8", "replace"), p.returncode
    except subprocess.TimeoutExpired:
        out, rc = "", 124
    res = {k: {"out": [], "err": [], "n": None} for k in cuts}
    for line in out.split("\n"):
        ws = line.split()
        if not ws:
            continue
        try:
            if ws[0] == "OUT":
                res[int(ws[1])]["out"].append((int(ws[2]), ws[3], int(ws[4].split("=")[1])))
            elif ws[0] == "DERR":
                res[int(ws[1])]["err"].append(" ".join(ws[2:]))
            elif ws[0] == "DONE":
                res[int(ws[1])]["n"] = int(ws[2])
        except (IndexError, ValueError, KeyError):
            pass
    res["rc"] = rc
    return res
