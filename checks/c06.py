"""C06 — output independent of the instruction set used.

(1) xlate/rtcd.py regenerates lean/SvtVerif/Gen/Dispatch.lean from the gcc -E expansion of every SET_* registration
    (both rtcd files, build configuration and EN_AVX512_SUPPORT=1) and the flag-masking sites.
(2) Lean: SvtVerif.Props.C06 (select mirrors SET_FUNCTIONS; table obligations by kernel `decide`; masking; congruence).
(3) Translator tie: a generated C program links the REAL library, calls setup_common_rtcd_internal(flags) and
    setup_rtcd_internal(flags) in a fresh process per flag value and names the function every dispatch pointer ends up
    with; `svtmodel dispatch` resolves the same (flags, hardware flags) through the generated table; the two must agree
    pointer by pointer.  The property's table oracle (selected function is C or a slot whose flag is requested AND
    reported by the hardware; its name ISA <= the highest enabled flag) is evaluated on the REAL selection.
(4) Whole-encoder differential through harness/enc_e2e.c: cfg.use_cpu_flags in {0, <=SSE2, <=SSSE3, <=SSE4_1, <=AVX2, ALL}
    x content x bit depth x preset x size x qp; packets and reconstructed pictures must be byte-identical
    (C.e2e_signature) -- the property's own oracle on REAL output.
"""
import os
import re
import subprocess
import sys
from . import common as C

sys.path.insert(0, os.path.join(C.VERIF, "xlate"))
LEVEL = "other"
MODULE = "SvtVerif.Props.C06"

MASKS = [("C", 0), ("SSE2", 0x7), ("SSSE3", 0x1f), ("SSE4_1", 0x3f), ("AVX2", 0x1ff), ("ALL", 0xffff)]
ISA_BITS = {"mmx": 0, "sse": 1, "sse2": 2, "sse3": 3, "ssse3": 4, "sse4_1": 5, "sse4_2": 6, "avx": 7, "avx2": 8, "avx512": 9}
ISA_RE = re.compile(r"_(mmx|sse|sse2|sse3|ssse3|sse4_1|sse4_2|avx|avx2|avx512)(?:_intrin(?:_al)?)?$")
# reviewed exceptions, mirrored from lean/SvtVerif/Spec/DispatchAllow.lean (the Lean file is the authority; this copy
# only lets the python oracle on the REAL selection apply the same rule)
SLOT_ALLOW = {"Log2f_ASM", "svt_ext_sad_calculation_32x32_64x64_sse4_intrin"}
NO_C_ALLOW = {"svt_cdef_filter_block_8x8_16"}


def py_name_isa(name):
    """independent re-implementation of Dispatch.nameIsa (cross-checked against `svtmodel dispatch ISA`)"""
    if name.endswith("_c"):
        return None
    m = ISA_RE.search(name)
    return ISA_BITS[m.group(1)] if m else None


# ----------------------------------------------------------------------------- real selection harness
def gen_sel_source(entries):
    """C program naming the function behind every dispatch pointer after the REAL setup functions ran.
    Functions and pointers are declared as bare symbols (no library headers needed; the link resolves them)."""
    fns, ptrs = [], []
    for e in entries:
        ptrs.append(e["ptr"])
        for f in ([e["c"]] if e["c"] else []) + [f for _, f in e["slots"]]:
            if f not in fns:
                fns.append(f)
    out = ["#include <stdio.h>\n#include <stdlib.h>\n#include <stdint.h>\n"
           "uint64_t get_cpu_flags(void); uint64_t get_cpu_flags_to_use(void);\n"
           "void setup_common_rtcd_internal(uint64_t); void setup_rtcd_internal(uint64_t);\n"]
    out += ["extern char %s[];\n" % f for f in fns]
    out += ["extern void *%s;\n" % p for p in ptrs]
    out.append("typedef struct { const char *name; void *fn; } Cand;\ntypedef struct { const char *ptr; void **pp; int n; Cand c[6]; } Ent;\nstatic Ent T[] = {\n")
    for e in entries:
        cands = ([e["c"]] if e["c"] else []) + [f for _, f in e["slots"]]
        if len(cands) > 6:
            raise RuntimeError("more than 6 candidates for %s" % e["ptr"])
        out.append('  {"%s", &%s, %d, {%s}},\n' % (e["ptr"], e["ptr"], len(cands), ", ".join('{"%s", (void *)%s}' % (f, f) for f in cands)))
    out.append("""};
int main(int argc, char **argv) {
    uint64_t f = argc > 1 ? strtoull(argv[1], NULL, 0) : 0;
    printf("HW %llu %llu\\n", (unsigned long long)get_cpu_flags(), (unsigned long long)get_cpu_flags_to_use());
    setup_common_rtcd_internal(f);
    setup_rtcd_internal(f);
    for (unsigned i = 0; i < sizeof(T) / sizeof(T[0]); i++) {
        void *v = *T[i].pp; const char *nm = v ? "?" : "NULL";
        for (int k = 0; v && k < T[i].n; k++) if (T[i].c[k].fn == v) { nm = T[i].c[k].name; break; }
        printf("P %s %s\\n", T[i].ptr, nm);
    }
    return 0;
}
""")
    return "".join(out)


def run_sel(exe, flags):
    p = subprocess.run([exe, str(flags)], stdout=subprocess.PIPE, stderr=subprocess.PIPE, timeout=120)
    hw = None
    sel = []
    for line in p.stdout.decode("utf-8", "replace").split("\n"):
        ws = line.split()
        if len(ws) == 3 and ws[0] == "HW":
            hw = (int(ws[1]), int(ws[2]))
        elif len(ws) == 3 and ws[0] == "P":
            sel.append((ws[1], ws[2]))
    return p.returncode, hw, sel


# ----------------------------------------------------------------------------- encode matrix
def describe(a):
    return " ".join("%s=%s" % (k, v) for k, v in a.items())


def enc_cases(chk):
    r = chk.rng
    n = 4
    base = [
        # (w, h, bd, content, preset, qp, lp)   content: 0 noise 1 flat 2 ramp 3 extreme checker 4 textured blocks 5 screen 6 all max 7 all min
        (128, 128, 8, 0, 8, 50, 1), (128, 128, 10, 0, 6, 63, 1), (136, 72, 8, 3, 8, 30, 1), (72, 88, 10, 3, 8, 63, 1),
        (130, 74, 8, 4, 6, 40, 1), (128, 128, 10, 2, 7, 20, 1), (192, 136, 8, 4, 4, 45, 0), (128, 64, 10, 6, 8, 50, 1),
        (64, 64, 8, 7, 8, 50, 1), (128, 96, 8, 1, 8, 10, 1), (128, 128, 8, 5, 6, 35, 1), (132, 132, 10, 4, 8, 58, 1),
    ]
    if chk.tier != "quick":
        base += [(128, 128, 10, 0, 2, 63, 1), (128, 128, 8, 4, 2, 30, 1), (256, 144, 8, 4, 6, 40, 0), (192, 128, 10, 0, 4, 55, 0)]
        sizes = [(64, 64), (128, 128), (136, 72), (72, 88), (130, 74), (132, 132), (192, 136), (96, 80), (200, 120), (128, 64), (66, 66), (144, 176)]
        for _ in range(60):
            w, h = r.choice(sizes)
            base.append((w, h, r.choice([8, 10]), r.choice([0, 0, 1, 2, 3, 3, 4, 4, 5, 6, 7]), r.choice([2, 3, 4, 5, 6, 7, 8, 8]),
                         r.choice([10, 25, 40, 50, 63, 63]), 1 if w < 128 or r.chance(2, 3) else 0))
        n = 6
    cases = []
    for i, (w, h, bd, content, preset, qp, lp) in enumerate(base):
        a = dict(w=w, h=h, n=n, bd=bd, content=content, recon=1, decode=0, seed=chk.seed * 1000 + i, watchdog=600)
        a["cfg.enc_mode"] = preset
        a["cfg.qp"] = qp
        # one worker per stage: the instruction set is independent of the thread count, and the encoder is not run-to-run
        # deterministic with logical_processors >= 2 and TPL on (recorded finding C04-tpl-nondeterministic-lp2plus), which would
        # show up here as a spurious difference between two flag sets
        a["cfg.logical_processors"] = 1
        if chk.tier != "quick" and i % 5 == 4:
            a["cfg.rate_control_mode"] = 0
            a["cfg.enable_tpl_la"] = 0
        cases.append(a)
    return cases


def first_diff(ra, rb):
    for i, (p, q) in enumerate(zip(ra["PKT"], rb["PKT"])):
        if (p["pts"], p["flags"], p["size"], p["crc"]) != (q["pts"], q["flags"], q["size"], q["crc"]):
            return "first differing packet: index %d  (pts %s/%s size %s/%s crc %s/%s)" % (i, p["pts"], q["pts"], p["size"], q["size"], p["crc"], q["crc"])
    if len(ra["PKT"]) != len(rb["PKT"]):
        return "packet counts differ: %d vs %d" % (len(ra["PKT"]), len(rb["PKT"]))
    da = dict((x["pts"], x["crc"]) for x in ra["RECON"])
    db = dict((x["pts"], x["crc"]) for x in rb["RECON"])
    for k in sorted(set(da) | set(db)):
        if da.get(k) != db.get(k):
            return "packets identical; first differing reconstructed picture: pts %s (crc %s vs %s)" % (k, da.get(k), db.get(k))
    return "signatures differ"


def run_encodes(chk, cases, masks):
    C.e2e_exe()     # compile once before the worker threads start
    jobs = []
    for a in cases:
        for _, m in masks:
            b = dict(a)
            b["cfg.use_cpu_flags"] = m
            jobs.append(b)
    res = C.run_parallel(lambda a: C.run_e2e(a, timeout=900), jobs, workers=4)
    out = []
    k = 0
    for a in cases:
        row = []
        for nm, m in masks:
            row.append((nm, m, jobs[k], res[k]))
            k += 1
        out.append((a, row))
    return out


def usable(r):
    return (not r["crashed"]) and (not r["hung"]) and r["SETPARAM"] == 0 and len(r["PKT"]) > 0 and not r["ERR"]


# ----------------------------------------------------------------------------- run
def run(chk, only_case=None):
    import rtcd
    chk.cov["explanation"] = (
        "Whole-encoder property: what is PROVED is the dispatch layer (select = SET_FUNCTIONS, C-only at flags 0, every table entry has a C "
        "reference, slot/name ISA soundness over the whole generated table for both the default and the AVX-512 configuration, flag masking) "
        "and the congruence `output_indep_of_flags` whose hypothesis is C07 (every SIMD kernel bit-exact). The hypothesis itself is proved "
        "only for the kernels listed in C07 and sampled for the rest, and the encoder-as-function-of-resolved-pointers abstraction is not "
        "verified; so byte-identity of packets and recon across use_cpu_flags is SAMPLED on real encodes (matrix below), not proved.")
    # ---- 1. regenerate the table from the current tree
    terr = None
    d0 = d1 = None
    try:
        d0, d1, sites = rtcd.main(os.path.join(C.LEAN, "SvtVerif/Gen/Dispatch.lean"))
    except rtcd.Unsupported as e:
        terr = str(e)
    # ---- 2. proofs
    pr = None
    if terr is None:
        pr = chk.proofs(MODULE, trusted_extra=[
            "xlate/rtcd.py: gcc -E expansion of common_dsp_rtcd.c / aom_dsp_rtcd.c parsed by regular expressions into Gen/Dispatch.lean; refuses any statement "
            "shape it does not know; validated each run against the REAL setup_*_rtcd_internal (pointer-by-pointer, fresh process per flag value)",
            "lean/SvtVerif/Spec/DispatchAllow.lean: 3 reviewed exceptions (Log2f_ASM, ..._sse4_intrin, the pointer without C reference), each with its reason",
            "harness/enc_e2e.c: the real encoder, cfg.use_cpu_flags=<mask>"])
    # ---- 3. translator tie + table oracle on the REAL selection
    sel_problems, oracle_bad = [], []
    n_sel = n_sel_simd = 0
    hw = None
    if d0 is not None:
        entries = d0["common"] + d0["enc"]
        by_ptr = dict((e["ptr"], e) for e in entries)
        chk.cov["table"] = {"entries": len(entries), "slots": sum(len(e["slots"]) for e in entries),
                            "entries_avx512_build": len(d1["common"] + d1["enc"]),
                            "slots_avx512_build": sum(len(e["slots"]) for e in d1["common"] + d1["enc"]),
                            "to_use_mask": d0["to_use_mask"], "mask_sites": [(s, ok) for s, ok, _ in sites]}
        src = os.path.join(C.gen_src_dir(), "c06_dispatch_sel.c")
        txt = gen_sel_source(entries)
        if not os.path.exists(src) or open(src).read() != txt:
            open(src, "w").write(txt)
        exe = C.compile_harness("c06_dispatch_sel", [src], libs=["libSvtAv1Enc.a"])
        flagsets = [m for _, m in MASKS] + [1 << b for b in range(16)] + [0x100, 0x104, 0x120, 0x1fb, 0x0ff, 0x1ef, 0x8000000000000000 | 0x1ff]
        flagsets += [chk.rng.below(1 << 16) for _ in range(8 if chk.tier == "quick" else 64)]
        flagsets = list(dict.fromkeys(flagsets))
        real = C.run_parallel(lambda f: run_sel(exe, f), flagsets, workers=4)
        hw = next((h for rc, h, _ in real if h), None)
        model_ok = pr is not None and pr.build_ok
        mtext = ""
        if model_ok and hw:
            try:
                mtext = C.run_model("dispatch", "".join("ALL %d %d\n" % (f & 0xffffffffffffffff, hw[0]) for f in flagsets) + "MASK\nTABLE\n" +
                                    "".join("ISA %s\n" % n for n in sorted(set([f for e in entries for _, f in e["slots"]] + [e["c"] for e in entries if e["c"]]))))
            except (RuntimeError, C.BuildError) as e:
                sel_problems.append("svtmodel dispatch failed: %s" % str(e)[-400:])
        blocks, cur, table_lines, isa_lines, mask_line = [], [], [], [], None
        for line in mtext.split("\n"):
            if line.startswith("P "):
                cur.append(tuple(line.split()[1:3]))
            elif line.startswith("END "):
                blocks.append((int(line.split()[1]), cur))
                cur = []
            elif line.startswith("E "):
                table_lines.append(line)
            elif line.startswith("I "):
                isa_lines.append(line.split()[1])
            elif line.startswith("M "):
                mask_line = line
        if hw:
            chk.cov["hardware_flags"] = {"get_cpu_flags": hw[0], "get_cpu_flags_to_use": hw[1]}
            if hw[1] != hw[0] & d0["to_use_mask"]:
                sel_problems.append("get_cpu_flags_to_use()=%d but get_cpu_flags() & toUseMask = %d" % (hw[1], hw[0] & d0["to_use_mask"]))
        for i, (f, (rc, h, sel)) in enumerate(zip(flagsets, real)):
            if rc != 0 or len(sel) != len(entries):
                sel_problems.append("flags=%#x: selection harness rc=%d printed %d of %d pointers" % (f, rc, len(sel), len(entries)))
                continue
            eff = f & hw[1]
            top = eff.bit_length() - 1
            for ptr, fn in sel:
                n_sel += 1
                e = by_ptr[ptr]
                if fn == (e["c"] or "NULL"):
                    continue
                n_sel_simd += 1
                bits = [b for b, g in e["slots"] if g == fn]
                if not bits or not any((eff >> b) & 1 for b in bits):
                    oracle_bad.append("use_cpu_flags=%#x (effective %#x on this CPU): %s -> %s, which is not a registered slot with an enabled flag" % (f, eff, ptr, fn))
                    continue
                isa = py_name_isa(fn)
                if fn not in SLOT_ALLOW and (isa is None or isa > top):
                    oracle_bad.append("use_cpu_flags=%#x (effective %#x): %s -> %s whose name ISA (%s) exceeds the highest enabled flag (bit %d)" % (f, eff, ptr, fn, isa, top))
            if model_ok and i < len(blocks):
                meff, msel = blocks[i]
                if meff != eff:
                    sel_problems.append("flags=%#x: model effective flags %#x, real %#x" % (f, meff, eff))
                if msel != sel:
                    d = next(((a, b) for a, b in zip(msel, sel) if a != b), (None, None))
                    sel_problems.append("flags=%#x: model and REAL setup_*_rtcd_internal disagree: model %s real %s" % (f, d[0], d[1]))
        if model_ok and hw and len(blocks) != len(flagsets):
            sel_problems.append("svtmodel dispatch printed %d ALL blocks for %d flag sets" % (len(blocks), len(flagsets)))
        # generated table round trip + independent ISA classifier
        if model_ok and mtext:
            want = ["E %s %s %d %s" % (e["ptr"], e["c"] or "NULL", e["line"], " ".join("%d:%s" % s for s in e["slots"])) for e in entries]
            got = [" ".join(l.split()) for l in table_lines]
            if [" ".join(w.split()) for w in want] != got:
                sel_problems.append("Gen/Dispatch.lean does not round-trip to the parsed table (%d vs %d lines)" % (len(got), len(want)))
            names = sorted(set([f for e in entries for _, f in e["slots"]] + [e["c"] for e in entries if e["c"]]))
            for nme, got_isa in zip(names, isa_lines):
                exp = py_name_isa(nme)
                if got_isa != ("none" if exp is None else str(exp)):
                    sel_problems.append("nameIsa(%s): lean %s, independent classifier %s" % (nme, got_isa, exp))
            if len(isa_lines) != len(names):
                sel_problems.append("ISA lines %d for %d names" % (len(isa_lines), len(names)))
            if mask_line != "M %d %d true true true" % (d0["to_use_mask"], d1["to_use_mask"]):
                sel_problems.append("mask facts: %s" % mask_line)
        chk.cov["selection_flag_sets"] = len(flagsets)
        chk.cov["selections_compared"] = n_sel
        chk.cov["selections_simd"] = n_sel_simd
        # python-side table scan (the same three obligations as the Lean `decide`, reported even when the Lean build is broken)
        exceptions = []
        for e in entries + d1["common"] + d1["enc"]:
            if e["c"] is None and e["ptr"] not in NO_C_ALLOW:
                exceptions.append("%s has no C reference" % e["ptr"])
            if e["c"] and py_name_isa(e["c"]) is not None:
                exceptions.append("%s: C reference %s is ISA specific" % (e["ptr"], e["c"]))
            for b, f in e["slots"]:
                i = py_name_isa(f)
                if f not in SLOT_ALLOW and (i is None or i > b):
                    exceptions.append("%s: %s registered in slot bit %d" % (e["ptr"], f, b))
        chk.cov["table_exceptions_unreviewed"] = sorted(set(exceptions))
        chk.cov["table_exceptions_reviewed"] = sorted(SLOT_ALLOW | NO_C_ALLOW)

    # ---- 4. whole-encoder differential
    cases = [only_case] if only_case else enc_cases(chk)
    rows = run_encodes(chk, cases, MASKS)
    diffs, unusable = [], []
    n_enc = n_cmp = 0
    hist = {"bd": {}, "content": {}, "preset": {}, "size": {}, "qp": {}}
    nontrivial = set()
    for a, row in rows:
        base = row[0][3]
        if not usable(base):
            unusable.append((describe(row[0][2]), "rc=%s setparam=%s packets=%d err=%s hung=%s" % (base["rc"], base["SETPARAM"], len(base["PKT"]), base["ERR"][:2], base["hung"])))
            continue
        for k, v in (("bd", a["bd"]), ("content", a["content"]), ("preset", a["cfg.enc_mode"]), ("size", "%dx%d" % (a["w"], a["h"])), ("qp", a["cfg.qp"])):
            hist[k][str(v)] = hist[k].get(str(v), 0) + 1
        sb = C.e2e_signature(base)
        n_enc += 1
        for nm, m, args, r in row[1:]:
            n_enc += 1
            if not usable(r):
                # an encode that works with C only but crashes/hangs with SIMD enabled is itself a difference in output
                diffs.append((a, row[0][2], args, "use_cpu_flags=%#x (%s): encode not usable while the C-only encode is: rc=%s setparam=%s packets=%d err=%s hung=%s" %
                              (m, nm, r["rc"], r["SETPARAM"], len(r["PKT"]), r["ERR"][:2], r["hung"])))
                continue
            n_cmp += 1
            if hw is None or (m & hw[1]) != 0:
                nontrivial.add((describe(a), m & (hw[1] if hw else 0xffff)))
            if C.e2e_signature(r) != sb:
                diffs.append((a, row[0][2], args, "use_cpu_flags=0 vs %#x (%s): %s" % (m, nm, first_diff(base, r))))
        if len(chk.cov["samples"]) < 4:
            chk.sample({"encode": describe(a), "packets": len(base["PKT"]), "recons": len(base["RECON"]),
                        "signature_equal_for_masks": [nm for nm, m, _, r in row[1:] if usable(r) and C.e2e_signature(r) == sb]})
    chk.cov["encodes"] = n_enc
    chk.cov["encode_pairs_compared"] = n_cmp
    chk.cov["evaluations"] = n_cmp + n_sel
    chk.cov["distinct_nontrivial"] = len(nontrivial)
    chk.cov["rule"] = ("distinct_nontrivial = number of distinct (encode configuration, effective flag set != C-only) pairs whose packets+recon were compared "
                       "byte-for-byte with the C-only encode of the same input; evaluations additionally counts every (flag set, dispatch pointer) selection "
                       "compared between the model and the real setup functions")
    chk.cov["input_distribution"] = hist
    chk.cov["masks"] = ["%s=%#x" % m for m in MASKS]
    if unusable:
        chk.cov["encodes_not_usable"] = unusable[:10]
    chk.assumptions += ["the host CPU reports the flags listed under hardware_flags; masks above it are clipped by the library exactly as on any other machine",
                        "library built with EN_AVX512_SUPPORT=0 (the AVX-512 table is checked at the table level only)",
                        "single-threaded or >= 128 wide encodes only (finding F2); thread-count independence is C05"]

    # ---- 5. verdict
    if diffs:
        a, a0, a1, what = diffs[0]
        chk.violation("C06 violated: encoder output depends on use_cpu_flags\n%s\nencode A: %s\nencode B: %s\ndiffering (configuration, mask) pairs in this run: %d\n%s\n"
                      "replay: bin/check C06 --replay <this file>\n" %
                      (what, describe(a0), describe(a1), len(diffs), "\n".join(d[3] for d in diffs[:10])))
    if oracle_bad:
        chk.violation("C06 (dispatch) violated by the REAL setup_*_rtcd_internal\n%s\ncases: %d\n" % ("\n".join(oracle_bad[:10]), len(oracle_bad)), tag="dispatch")
    if not diffs and not oracle_bad:
        if terr is not None:
            chk.violation("xlate/rtcd.py refused the current dispatch sources: %s\nno encode differs across use_cpu_flags (%d pairs compared)\n" % (terr, n_cmp),
                          tag="xlate", found_input=False)
        elif not pr.ok:
            chk.violation("proof obligations no longer check on the regenerated dispatch table:\n%s\nforbidden tokens: %s\nunreviewed table exceptions (python scan): %s\n"
                          "no encode differs across use_cpu_flags (%d pairs compared)\n" %
                          ("\n".join("%s: %s" % kv for kv in pr.failed.items()), pr.forbidden, chk.cov.get("table_exceptions_unreviewed"), n_cmp),
                          tag="proof", found_input=False)
        if sel_problems:
            chk.violation("generated dispatch model and the REAL setup functions disagree (translator validation failed); the real selection satisfies the table oracle\n%s\n" %
                          "\n".join(sel_problems[:20]), tag="corr", found_input=False)
        if not only_case and n_cmp == 0:
            chk.violation("no usable encode pair: %s\n" % unusable[:3], tag="enc", found_input=False)


def replay(chk, path):
    """Re-run the configuration named by `encode A:` of a replay file over all masks."""
    args = None
    for line in open(path):
        if line.startswith("encode A: "):
            args = {}
            for tok in line[len("encode A: "):].split():
                k, v = tok.split("=", 1)
                if k == "cfg.use_cpu_flags":
                    continue
                args[k] = int(v) if v.lstrip("-").isdigit() else v
            break
    run(chk, only_case=args)
