"""C08 — the decoder's output is correct / consistent.

No reference AV1 decoder exists in the sandbox.  What is decided:
(1) Lean proofs (Props/C08.lean): the frame-level behaviour a conforming decoder must have (output process, reference update,
    show_existing_frame incl. the key-frame reload) on the executable model `Dpb.runDec`; `pipelines_agree` (decoder configuration can
    only act through the per-frame reconstruction); `film_grain_seed_never_zero`.
(2) On REAL output, for every stream of the shared C01/C08 encode matrix:
    (a) the real decoder accepts the encoder's stream: no error code, no crash, no hang;
    (b) its output list (how many pictures, which packet produces which output) equals the prediction of the Lean header parser +
        Lean DPB machine run on the same packets;
    (c) 8-bit vs 16-bit internal pipeline (is_16bit_pipeline 0/1, two different sets of kernels) give identical pictures;
    (d) 1 thread vs 4 threads give identical pictures;
    (e) its samples equal the ENCODER's reconstruction (an independent implementation only in the sense of separate parse/prediction
        code paths) — for configurations outside the families recorded under C01;
    (f) film grain: the output with grain differs from the output with skip_film_grain=1 exactly when some header signals apply_grain,
        and the output with grain equals the encoder's (grain-synthesised) reconstruction;
    (g) the transcribed film-grain seed rule still matches the source text.
"""
import os
import re
from . import common as C
from . import c01common as M

LEVEL = "other"
MODULE = "SvtVerif.Props.C08"
# multi-threaded decoding is property C09's subject; C08 meets the two recorded C09 defects whenever it decodes with threads > 1 and
# routes them by STREAM feature: loop restoration signalled (C09-lr-mt-deterministic-mismatch: dec_av1_loop_restoration_filter_frame_mt),
# picture one superblock wide with >= 2 superblock rows (C09-cdef-w1-no-row-sync: svt_cdef_sb_row_mt, non-deterministic)
K_MT_LR = "lr-mt-deterministic-mismatch"
K_MT_CDEF_W1 = "cdef-w1-mt-mismatch"
K_PIPE_SUPERRES = "superres-16bit-vs-8bit-pipeline-differ"
K_MT_HANG = "mt-decode-intermittent-hang"


def variants_for(tier):
    def v(c):
        vs = [(1, 1, 0), (4, 0, 0)]
        if int(c["args"].get("cfg.film_grain_denoise_strength", 0)) > 0:
            vs.append((1, 0, 1))
        if tier != "quick":
            vs += [(4, 1, 0), (2, 0, 0)]
        return vs
    return v


def replay_text(c, what, extra=""):
    return ("%s\ncase: %s\nencode: %s\nreplay: bin/check C08 --replay <this file>\n"
            "(run: harness enc_e2e with the arguments of the `encode:` line and hex=1, then harness dec_run w= h= bd= threads= dec16= fg_skip= on the PKT lines)\n%s"
            % (what, c["label"], M.describe(c["args"]), extra))


def seed_rule_in_source():
    """The three source lines Dpb.fgSeedNext / Dpb.fgSeed transcribe."""
    missing = []
    try:
        pd = open(os.path.join(C.REPO, "Source/Lib/Encoder/Codec/EbPictureDecisionProcess.c")).read()
        sc = open(os.path.join(C.REPO, "Source/Lib/Encoder/Codec/EbSequenceControlSet.c")).read()
    except OSError as e:
        return ["cannot read source: %s" % e]
    if not re.search(r"\*fgn_random_seed_ptr\s*\+=\s*3381\s*;", pd):
        missing.append("`*fgn_random_seed_ptr += 3381;` (EbPictureDecisionProcess.c)")
    if not re.search(r"if\s*\(\s*!\s*\(\s*\*fgn_random_seed_ptr\s*\)\s*\)[^;]*\*fgn_random_seed_ptr\s*\+=\s*7391\s*;", pd, re.S):
        missing.append("`if (!(*fgn_random_seed_ptr)) *fgn_random_seed_ptr += 7391;` (EbPictureDecisionProcess.c)")
    if not re.search(r"uint16_t\s*\*\s*fgn_random_seed_ptr", pd):
        missing.append("`uint16_t *fgn_random_seed_ptr` (16-bit arithmetic)")
    if not re.search(r"film_grain_random_seed\s*=\s*7391\s*;", sc):
        missing.append("`film_grain_random_seed = 7391;` (EbSequenceControlSet.c)")
    return missing


def run(chk, only_case=None):
    pr = chk.proofs(MODULE, trusted_extra=[
        "harness/dec_run.c: the real SVT decoder alone (public API, one instance per process) on the encoder's packets, in each decoder configuration; "
        "FNV-1a checksum over the visible planes of every output picture",
        "harness/enc_e2e.c: the real encoder producing packets and reconstructions, and the in-process reference decode (1 thread, 8-bit pipeline)",
        "Lean OBU / frame-header parser (validated against the real decoder's parser by C02) feeding Model/Dpb.lean",
        "no reference AV1 decoder (aomdec, dav1d) is available"])
    cases = [only_case] if only_case else M.matrix(chk.tier, chk.seed)
    M.run_matrix(chk, cases, variants_for(chk.tier), attribute_crash=True)
    model_err = None
    try:
        M.lean_frames(cases)
        M.lean_dpb(cases)
    except (RuntimeError, C.BuildError, AssertionError, IndexError) as e:
        model_err = str(e)[-1500:]

    unknown = []           # (case, text)
    known = {}             # key -> [(case, text)]
    proto_bad = []
    skipped_recon = 0
    n_streams = n_out = n_pipe = n_mt = n_recon = n_fg_frames = n_frames = 0
    fg_stats = {"streams": 0, "pictures_with_apply_grain": 0, "pictures_changed_by_grain": 0, "pictures_without_grain_changed": 0}
    sigs = set()
    samples = 0
    for c in cases:
        if not c.get("usable"):
            # the encoder produced nothing to decode (crash / hang / rejected configuration): C01's subject - unless the encoder alone
            # finishes and it is the DECODER that dies on the stream
            d = c.get("dec_alone")
            if d is not None and (d["crashed"] or d["hung"] or d["ERR"]):
                unknown.append((c, "the encoder finishes without the in-process decode, and the stand-alone real decoder fails on its stream: rc=%s %s %s" %
                                (d["rc"], "hung" if d["hung"] else "", "; ".join(d["ERR"][:3]))))
            continue
        r = c["r"]
        a = c["args"]
        fam = c.get("known") or M.known_family(a)
        n_streams += 1
        base = [(k, crc) for k, crc, _ in r["DECPKT"]]
        n_out += len(base)
        # (a) decoder errors on an encoder-produced stream
        dec_err = [e for e in r["ERR"] if e.startswith("dec_")]
        if dec_err:
            unknown.append((c, "the real decoder returned an error on the encoder's stream: %s" % "; ".join(dec_err[:3])))
        if len(base) != len(r["PKT"]):
            unknown.append((c, "%d packets (one displayed picture each) but the decoder output %d pictures" % (len(r["PKT"]), len(base))))
        # (c),(d) decoder configurations
        for (th, d16, fgs), d in c["dec"].items():
            what = "threads=%d is_16bit_pipeline=%d skip_film_grain=%d" % (th, d16, fgs)
            if th > 1 and d["hung"] and not d["crashed"]:
                # multi-threaded decoding that does not finish: liveness of the decoder's worker threads is property C09's subject
                # (seen once, timing dependent: the same stream decodes in milliseconds in other runs)
                known.setdefault(K_MT_HANG, []).append((c, "stand-alone decoder (%s) did not finish within the watchdog (%d s)" % (what, M.WATCHDOG)))
                continue
            if d["crashed"] or d["hung"] or d["ERR"]:
                unknown.append((c, "stand-alone decoder (%s): rc=%s %s %s" % (what, d["rc"], "hung" if d["hung"] else "", "; ".join(d["ERR"][:3]))))
                continue
            got = [(k, crc) for k, crc, _ in d["DEC"]]
            if fgs:
                continue
            diff = [k for (k, x), (_, y) in zip(base, got) if x != y]
            if len(got) != len(base) or diff:
                text = "decoder with %s differs from 1 thread / 8-bit pipeline: %d vs %d pictures, differing outputs %s" % (what, len(got), len(base), diff[:20])
                if th > 1 and int(a["w"]) <= 64 and int(a["h"]) > 64:
                    known.setdefault(K_MT_CDEF_W1, []).append((c, text))
                elif th > 1 and M.uses_loop_restoration(c):
                    known.setdefault(K_MT_LR, []).append((c, text))
                elif d16 and fam in (M.K_SUPERRES, M.K_SUPERRES_TPL):
                    known.setdefault(K_PIPE_SUPERRES, []).append((c, text))
                else:
                    unknown.append((c, text))
            else:
                if th > 1:
                    n_mt += len(got)
                if d16:
                    n_pipe += len(got)
        # (e) samples vs the encoder's reconstruction, outside the families recorded under C01
        if fam is None:
            mism = [(k, v) for k, v in r["CMP"] if v != "MATCH"]
            if mism:
                unknown.append((c, "decoder output != encoder reconstruction at display positions %s (%s)" % ([k for k, _ in mism][:20], mism[0][1])))
            n_recon += sum(1 for _, v in r["CMP"] if v == "MATCH")
        else:
            skipped_recon += 1
        # (b) frame-level protocol
        if model_err is None and c.get("frames") is not None and c.get("dpb") is not None:
            bad, facts = M.protocol_oracle(c)
            n_frames += len(c["frames"])
            sigs.add(M.stream_signature(c))
            if bad:
                proto_bad.append((c, bad))
            # (f) film grain
            d_skip = c["dec"].get((1, 0, 1))
            if d_skip and not (d_skip["crashed"] or d_skip["hung"] or d_skip["ERR"]) and len(d_skip["DEC"]) == len(base) and not bad:
                fg_stats["streams"] += 1
                outs = [d for d in c["dpb"] if d["out"] is not None]
                for k, d in enumerate(outs):
                    grain = c["frames"][d["out"]][1].get("film_grain") == "1"
                    changed = d_skip["DEC"][k][1] != base[k][1]
                    fg_stats["pictures_with_apply_grain"] += grain
                    fg_stats["pictures_changed_by_grain"] += grain and changed
                    if changed and not grain:
                        fg_stats["pictures_without_grain_changed"] += 1
                        unknown.append((c, "output %d changes with skip_film_grain although its frame header has apply_grain = 0" % k))
            if samples < 6:
                chk.sample({"case": c["label"], "encode": M.describe(a), "outputs": len(base),
                            "decoder_configurations_equal": sorted("t%d/p%d/s%d" % v for v in c["dec"]),
                            "lean_dpb_outputs": facts["outputs"], "show_existing": facts["show_existing"]})
                samples += 1

    missing = seed_rule_in_source()

    # ---- coverage
    chk.cov["encodes"] = len(cases)
    chk.cov["streams_decoded"] = n_streams
    chk.cov["evaluations"] = n_out
    chk.cov["output_pictures"] = n_out
    chk.cov["pictures_equal_16bit_vs_8bit_pipeline"] = n_pipe
    chk.cov["pictures_equal_multi_vs_single_thread"] = n_mt
    chk.cov["pictures_equal_to_encoder_recon"] = n_recon
    chk.cov["streams_in_C01_recorded_families_not_compared_with_recon"] = skipped_recon
    chk.cov["frame_headers_through_lean_dpb"] = n_frames
    chk.cov["film_grain"] = fg_stats
    chk.cov["distinct_nontrivial"] = len(sigs)
    chk.cov["rule"] = ("evaluations = output pictures of the real decoder (1 thread, 8-bit pipeline) on encoder-produced streams, each also decoded with the "
                       "16-bit pipeline and with 4 threads and compared by checksum; distinct_nontrivial = number of distinct stream signatures "
                       "(see C01) among the decoded streams, from the Lean header parser")
    chk.cov["input_distribution"] = M.histograms(cases)
    chk.cov["explanation"] = (
        "LEVEL other: there is no reference decoder. Proved in Lean for all streams: the frame-level output/reference-update behaviour of the model the "
        "real decoder's output list is compared with, that decoder configuration can act only through per-frame reconstruction, and the film-grain seed "
        "rule. NOT proved: sample-level correctness of the decoder; it is exercised on sampled encoder-produced streams only, against (i) the encoder's "
        "reconstruction, (ii) the other internal pipeline, (iii) the other thread count. Tools the SVT encoder never emits are not covered (no foreign streams).")
    chk.assumptions += [
        "streams come from the SVT encoder only (profile 0, 4:2:0); no foreign/conformance streams are available offline",
        "svt_av1_dec_get_picture is called once after every svt_av1_dec_frame (as DecApp does); one displayed picture per temporal unit",
        "sample comparison with the encoder reconstruction is skipped for the configuration families recorded as C01 findings (superres, overlays, 8-bit through the 16-bit encoder pipeline)"]

    # ---- verdict
    for key, hits in known.items():
        c, text = hits[0]
        chk.violation(replay_text(c, "C08 violated on a real stream: %s\nstreams affected in this run: %d" % (text, len(hits)),
                                  "\n".join("also: %s :: %s" % (t, M.describe(x["args"])) for x, t in hits[1:10])),
                      tag=key, key="C08-" + key)
    if unknown:
        c, text = unknown[0]
        chk.violation(replay_text(c, "C08 violated on a real stream: %s\nfailures in this run: %d" % (text, len(unknown)),
                                  "\n".join("also: %s :: %s" % (t, M.describe(x["args"])) for x, t in unknown[1:12])))
    if proto_bad:
        c, bad = proto_bad[0]
        chk.violation(replay_text(c, "the real decoder's output list / the stream disagrees with the Lean header parser + DPB machine:\n" +
                                  "\n".join(bad[:10]) + "\nstreams affected: %d" % len(proto_bad)), tag="protocol")
    if not unknown and not proto_bad:
        if model_err:
            chk.violation("svtmodel obu/dpb failed on real packets: %s\n" % model_err, tag="model", found_input=False)
        if not pr.ok:
            chk.violation("proof obligations do not check:\n%s\nforbidden tokens: %s\nno real stream violates the property (%d output pictures)\n" %
                          ("\n".join("%s: %s" % kv_ for kv_ in pr.failed.items()), pr.forbidden, n_out), tag="proof", found_input=False)
        if missing:
            chk.violation("the film-grain seed rule transcribed in Dpb.fgSeedNext / Dpb.fgSeed is no longer found in the source:\n%s\n" % "\n".join(missing),
                          tag="fgseed", found_input=False)
        if n_out == 0:
            chk.violation("no stream could be decoded (no usable encode)\n", tag="enc", found_input=False)


def replay(chk, path):
    c = M.parse_replay(path)
    if c is None:
        chk.violation("replay file has no `encode:` line: %s\n" % path, tag="replay", found_input=False)
        return
    c["args"].update(hex=1, recon=1, decode=1)
    run(chk, only_case=c)
