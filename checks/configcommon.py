"""Shared by C12 / C13: regenerate Gen/Config.lean, run model + real API on the same configurations."""
import os
import re
import subprocess
import sys
from . import common as C

sys.path.insert(0, os.path.join(C.VERIF, "xlate"))

TRUSTED = [
    "xlate/config.py + cfun.py + cstate.py + symexec.py: clang-14 JSON AST -> Lean (symbolic execution of copy_api_from_app/verify_settings/svt_svt_enc_init_parameter into per-member normal form); refuses on non-whitelisted nodes",
    "opaque in the model: manual prediction structure validation loop and pred_struct contents",
    "Spec/ConfigDomain.lean: hand-written domain (from Docs/svt-av1_encoder_user_guide.md + EbSvtAv1Enc.h); conjuncts marked code-defined are not independently specified",
    "harness/setparam.c: real svt_av1_enc_init_handle/set_parameter on a fresh handle per case",
]


def regenerate():
    import config
    import cfun
    try:
        g = config.main(os.path.join(C.LEAN, "SvtVerif/Gen/Config.lean"))
        return g, ""
    except cfun.Unsupported as e:
        return None, str(e)


def setparam_exe():
    C.e2e_exe()   # makes sure cfg_fields.h is current
    return C.compile_harness("setparam", [os.path.join(C.VERIF, "harness", "setparam.c")], libs=["libSvtAv1Enc.a"],
                             extra=["-I" + C.gen_src_dir()])


def run_real(lines, timeout=900):
    exe = setparam_exe()
    p = subprocess.run([exe], input=("\n".join(lines) + "\n").encode(), stdout=subprocess.PIPE, stderr=subprocess.PIPE, timeout=timeout)
    return p.stdout.decode().split("\n"), p.returncode


def run_model(lines):
    return C.run_model("config", "\n".join(lines) + "\n").split("\n")


def kv(line):
    return dict(t.split("=", 1) for t in line.split() if "=" in t)


def field_table():
    import cfgfields
    return [f for f in cfgfields.fields() if not f["struct"]]


def type_range(ct):
    k, n = ct
    return (0, 2 ** n - 1) if k in ("U", "E") else (-(2 ** (n - 1)), 2 ** (n - 1) - 1)


def constants_by_field():
    """numbers that appear next to each member in the generated conditions -> boundary candidates"""
    src = open(os.path.join(C.LEAN, "SvtVerif/Gen/Config.lean")).read()
    a = src.find("def rej0 ")
    b = src.find("def rejectChecks")
    body = src[a:b] if a >= 0 and b >= 0 else src
    res = {}
    for m in re.finditer(r"def rej\d+ .*?\n\n", body, re.S):
        txt = m.group(0)
        fields = set(re.findall(r"\bc\.([A-Za-z0-9_]+)", txt))
        nums = set(int(x) for x in re.findall(r"\((-?\d+) : Int\)", txt))
        for f in fields:
            res.setdefault(f, set()).update(nums)
    return res


BASE = "source_width=64 source_height=64"


def gen_cases(chk, nrand):
    """-> list of (line, tag).  All cases start from the library defaults (dirty byte 0) + 64x64."""
    cases = []
    consts = constants_by_field()
    flds = field_table()
    # (a) one member at a time: every constant the code compares it with, +-1, type extremes, 0, -1
    for f in flds:
        lo, hi = type_range(f["ctype"])
        cand = {lo, hi, 0, 1, 2, lo + 1, hi - 1}
        for k in consts.get(f["name"], ()):
            cand.update((k - 1, k, k + 1))
        cand.update((63, 64, 255, 256, 65535, 65536, 65600))
        names = [f["name"]] if f["array"] is None else ["%s[%d]" % (f["name"], i) for i in range(f["array"])]
        for nm in names:
            for v in sorted(cand):
                if lo <= v <= hi:
                    if f["name"] in ("source_width", "source_height"):
                        other = "source_height" if f["name"] == "source_width" else "source_width"
                        cases.append(("CASE 0 %s=64 %s=%d" % (other, nm, v), "single:" + f["name"]))
                    else:
                        cases.append(("CASE 0 %s %s=%d" % (BASE, nm, v), "single:" + f["name"]))
    # (b) coupled members, pairwise grids
    grids = [
        ("rc-ip-lad", {"rate_control_mode": [0, 1, 2, 3], "intra_period_length": [-3, -2, -1, 0, 1, 31, 255, 256, 2147483646, 2147483647],
                       "look_ahead_distance": [0, 1, 31, 33, 120, 121, 255, 4294967295], "enable_tpl_la": [0, 1]}),
        ("profile-depth-format", {"profile": [0, 1, 2, 3], "encoder_bit_depth": [8, 9, 10, 12], "encoder_color_format": [0, 1, 2, 3, 4]}),
        ("qp-bounds", {"rate_control_mode": [0, 1, 2], "min_qp_allowed": [0, 1, 30, 62, 63, 64], "max_qp_allowed": [0, 1, 30, 62, 63, 64]}),
        ("tiles", {"tile_rows": [-1, 0, 1, 3, 4, 5, 6, 7], "tile_columns": [-1, 0, 1, 3, 4, 5, 6, 7]}),
        ("intrabc-scm", {"intrabc_mode": [-2, -1, 0, 1, 2, 3, 4], "screen_content_mode": [0, 1, 2, 3]}),
        ("superres-2pass", {"superres_mode": [0, 1, 2, 3], "rc_firstpass_stats_out": [0, 1], "rc_twopass_stats_in_sz": [0, 5],
                            "superres_denom": [7, 8, 16, 17], "superres_kf_denom": [7, 8, 16, 17]}),
        ("2pass-rc", {"rate_control_mode": [0, 1, 2], "rc_firstpass_stats_out": [0, 1], "rc_twopass_stats_in_buf": [0, 4096]}),
        ("hme", {"enable_hme_flag": [0, 1], "number_hme_search_region_in_width": [0, 1, 2], "number_hme_search_region_in_height": [0, 1, 2],
                 "hme_level0_total_search_area_width": [0, 32, 64, 480, 481], "hme_level0_search_area_in_width_array[0]": [0, 32, 64]}),
        ("hme-l1", {"hme_level1_search_area_in_width_array[0]": [0, 1, 240, 479, 480], "hme_level1_search_area_in_width_array[1]": [0, 1, 240, 241],
                    "hme_level2_search_area_in_height_array[0]": [0, 1, 480], "number_hme_search_region_in_width": [1, 2]}),
        ("fps", {"frame_rate": [0, 1, 60, 999, 1000, 15728640, 15728641], "frame_rate_numerator": [0, 1, 30000, 60000, 16777216],
                 "frame_rate_denominator": [0, 1, 1001, 250]}),
        ("size", {"source_width": [62, 64, 66, 72, 4096, 4098, 65600], "source_height": [62, 64, 66, 2160, 2162, 65600],
                  "compressed_ten_bit_format": [0, 1]}),
        ("hbd", {"encoder_bit_depth": [8, 10], "enable_hbd_mode_decision": [-2, -1, 0, 1, 2, 3], "is_16bit_pipeline": [0, 1]}),
        ("lp-rate-est", {"logical_processors": [0, 1, 2, 16], "pic_based_rate_est": [-2, -1, 0, 1, 2]}),
    ]
    for tag, g in grids:
        keys = list(g)
        # all pairs of members x all value pairs (others at default), plus the full product when small
        total = 1
        for k in keys:
            total *= len(g[k])
        if total <= 1500:
            idx = [0] * len(keys)
            while True:
                ov = " ".join("%s=%d" % (k, g[k][i]) for k, i in zip(keys, idx))
                base = BASE if "source_width" not in g else ""
                if "source_width" in g:
                    cases.append(("CASE 0 %s" % ov, "grid:" + tag))
                else:
                    cases.append(("CASE 0 %s %s" % (base, ov), "grid:" + tag))
                j = 0
                while j < len(keys):
                    idx[j] += 1
                    if idx[j] < len(g[keys[j]]):
                        break
                    idx[j] = 0
                    j += 1
                if j == len(keys):
                    break
        else:
            for a in range(len(keys)):
                for b in range(a + 1, len(keys)):
                    for va in g[keys[a]]:
                        for vb in g[keys[b]]:
                            cases.append(("CASE 0 %s %s=%d %s=%d" % (BASE, keys[a], va, keys[b], vb), "grid:" + tag))
    # (c) random multi-member configurations: mostly-valid values with a few members pushed to boundaries
    for _ in range(nrand):
        k = chk.rng.range(2, 6)
        ov = []
        for _ in range(k):
            f = chk.rng.choice(flds)
            lo, hi = type_range(f["ctype"])
            cs = sorted(consts.get(f["name"]) or {0, 1})
            mode = chk.rng.below(4)
            if mode == 0:
                v = chk.rng.choice(cs) + chk.rng.range(-1, 1)
            elif mode == 1:
                v = chk.rng.range(min(cs) - 2, max(cs) + 2)
            elif mode == 2:
                v = chk.rng.choice([lo, hi, 0, -1, 1])
            else:
                v = chk.rng.range(lo, hi)
            v = max(lo, min(hi, v))
            nm = f["name"] if f["array"] is None else "%s[%d]" % (f["name"], chk.rng.below(f["array"]))
            if f["name"] in ("source_width", "source_height"):
                continue
            ov.append("%s=%d" % (nm, v))
        cases.append(("CASE 0 %s %s" % (BASE, " ".join(ov)), "random"))
    return cases
