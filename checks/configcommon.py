"""Shared by C12 / C13: regenerate Gen/Config.lean, run model + real API on the same configurations."""
import os
import re
import subprocess
import sys
from . import common as C

sys.path.insert(0, os.path.join(C.VERIF, "xlate"))

TRUSTED = [
    "xlate/config.py + cfun.py + cstate.py + symexec.py: clang-14 JSON AST -> Lean (symbolic execution of copy_api_from_app/verify_settings/svt_svt_enc_init_parameter into per-member normal form; the manual-prediction-structure block of verify_settings as a state-passing fold; EB_MEMCPY of pred_struct as a bounded prefix copy); refuses on non-whitelisted nodes",
    "Spec/ConfigDomain.lean: hand-written domain in plain integer arithmetic (from Docs/svt-av1_encoder_user_guide.md + EbSvtAv1Enc.h + the C code read by hand where no formula is documented); it refers to no generated definition (checked textually on every run)",
    "C shifts whose count is >= the operand width (undefined in C) are modelled mathematically (all bits shifted out); configurations where an unvalidated hierarchical_levels >= 31 reaches such a shift (only with enable_manual_pred_struct) are not compared with the real library",
    "harness/setparam.c: real svt_av1_enc_init_handle/set_parameter on a fresh handle per case (forked child per case)",
]


def regenerate():
    import config
    import cfun
    try:
        g = config.main(os.path.join(C.LEAN, "SvtVerif/Gen/Config.lean"))
        return g, ""
    except cfun.Unsupported as e:
        return None, str(e)


def setparam_exe():
    C.e2e_exe()   # makes sure cfg_fields.h is current
    return C.compile_harness("setparam", [os.path.join(C.VERIF, "harness", "setparam.c")], libs=["libSvtAv1Enc.a"],
                             extra=["-I" + C.gen_src_dir()])


def _run_real_once(exe, lines, timeout, env):
    p = subprocess.run([exe], input=("\n".join(lines) + "\n").encode(), stdout=subprocess.PIPE, stderr=subprocess.PIPE, timeout=timeout, env=env)
    return [o for o in p.stdout.decode().split("\n") if o.strip()], p.returncode


def run_real(lines, timeout=900):
    """One verdict line per case line.  Configurations with a manual prediction structure go through separate harness processes
    (small batches, glibc heap checking on): the library overruns heap blocks for some structures it accepts, and that must neither
    go unnoticed nor leak into the verdicts of later cases.  A harness that dies is restarted with the remaining cases."""
    exe = setparam_exe()
    res = [None] * len(lines)
    plain = [i for i, l in enumerate(lines) if not re.search(r"\benable_manual_pred_struct=-?[1-9]", l)]
    mps = [i for i, l in enumerate(lines) if re.search(r"\benable_manual_pred_struct=-?[1-9]", l)]
    env_mps = dict(os.environ, MALLOC_CHECK_="3")
    batches = [(plain, None)] + [(mps[k:k + 40], env_mps) for k in range(0, len(mps), 40)]
    rc_all = 0
    for idx, env in batches:
        todo = list(idx)
        while todo:
            out, rc = _run_real_once(exe, [lines[i] for i in todo], timeout, env)
            for i, o in zip(todo, out):
                res[i] = o
            if len(out) >= len(todo):
                break
            rc_all = rc or rc_all
            if not out or "crash" not in out[-1]:
                # died without a message (e.g. glibc abort while the handle for the next case was created): blame the next case
                res[todo[len(out)]] = "accept=- crash=died(rc=%s)" % rc
                todo = todo[len(out) + 1:]
            else:
                todo = todo[len(out):]
    return [r if r is not None else "" for r in res], rc_all


def run_model(lines):
    return C.run_model("config", "\n".join(lines) + "\n").split("\n")


def kv(line):
    return dict(t.split("=", 1) for t in line.split() if "=" in t)


def field_table():
    import cfgfields
    return [f for f in cfgfields.fields() if not f["struct"]]


def type_range(ct):
    k, n = ct
    return (0, 2 ** n - 1) if k in ("U", "E") else (-(2 ** (n - 1)), 2 ** (n - 1) - 1)


def constants_by_field():
    """numbers that appear next to each member in the generated conditions -> boundary candidates"""
    src = open(os.path.join(C.LEAN, "SvtVerif/Gen/Config.lean")).read()
    a = src.find("def rej0 ")
    b = src.find("def rejectChecks")
    body = src[a:b] if a >= 0 and b >= 0 else src
    res = {}
    for m in re.finditer(r"def rej\d+ .*?\n\n", body, re.S):
        txt = m.group(0)
        fields = set(re.findall(r"\bc\.([A-Za-z0-9_]+)", txt))
        nums = set(int(x) for x in re.findall(r"\((-?\d+) : Int\)", txt))
        for f in fields:
            res.setdefault(f, set()).update(nums)
    return res


BASE = "source_width=64 source_height=64"


# ----------------------------------------------------------------------------- manual prediction structures
def pred_struct_shapes():
    """/repo/Config/PredStruct_level*.cfg -> {entry count: [entry dicts indexed by display order]} (the way EbAppConfig.c fills them)"""
    import glob
    shapes = {}
    for f in sorted(glob.glob(os.path.join(C.REPO, "Config", "PredStruct_level*.cfg"))):
        ents = {}
        for line in open(f):
            if not line.startswith("PredStructEntry"):
                continue
            v = [int(x) for x in line.split(":", 1)[1].split()]
            disp, dec, tl, n0, n1 = v[:5]
            refs = v[5:]
            ents[disp] = {"decode_order": dec, "temporal_layer_index": tl,
                          "ref_list0": (refs[:n0] + [0, 0, 0, 0])[:4], "ref_list1": (refs[n0:n0 + n1][:3] + [0, 0, 0, 0])[:4]}
        if ents and sorted(ents) == list(range(len(ents))):
            shapes[len(ents)] = [ents[i] for i in range(len(ents))]
    return shapes


def chain_struct(n):
    """a structure of n entries that verify_settings accepts: every entry references the previous picture"""
    return [{"decode_order": i % 32, "temporal_layer_index": 0, "ref_list0": [1, 0, 0, 0], "ref_list1": [0, 0, 0, 0]} for i in range(n)]


def mps_line(num, ents, extra=""):
    toks = ["enable_manual_pred_struct=1", "manual_pred_struct_entry_num=%d" % num]
    for i, e in enumerate(ents[:32]):
        if e["decode_order"]:
            toks.append("pred_struct_decode_order[%d]=%d" % (i, e["decode_order"]))
        if e["temporal_layer_index"]:
            toks.append("pred_struct_temporal_layer_index[%d]=%d" % (i, e["temporal_layer_index"]))
        for nm in ("ref_list0", "ref_list1"):
            for j, v in enumerate(e[nm]):
                if v:
                    toks.append("pred_struct_%s[%d]=%d" % (nm, 4 * i + j, v))
    return "CASE 0 %s %s%s" % (BASE, " ".join(toks), (" " + extra) if extra else "")


def mps_cases(chk):
    import copy
    out = []
    shapes = pred_struct_shapes()
    quick = chk.tier == "quick"
    for n, base in shapes.items():
        out.append((mps_line(n, base), "mps:shape"))
        pos = list(range(n))
        if quick and n > 16:
            pos = sorted(set([0, 1, n - 2, n - 1] + [chk.rng.below(n) for _ in range(6)]))
        for p in pos:
            muts = []

            def mut(f):
                e = copy.deepcopy(base)
                f(e[p])
                muts.append(e)
            mut(lambda e: e.update(ref_list0=[0, 0, 0, 0]))                       # no list0 reference at all
            mut(lambda e: e.update(ref_list0=[p + 2, 0, 0, 0]))                   # only reference is before the mini-GOP
            mut(lambda e: e.update(ref_list0=[p + 1, 0, 0, 0]))                   # boundary: exactly the previous mini-GOP end
            mut(lambda e: e.update(ref_list0=[0, 0, 0, p + 1]))                   # found in the last cell
            mut(lambda e: e["ref_list0"].__setitem__(chk.rng.below(4), -1))       # backward frame in list0
            mut(lambda e: e.update(decode_order=31))
            mut(lambda e: e.update(decode_order=32))
            mut(lambda e: e.update(temporal_layer_index=32))
            j = chk.rng.below(3)
            mut(lambda e: e["ref_list1"].__setitem__(j, (p + 1) - n))             # boundary: last picture of the mini-GOP
            mut(lambda e: e["ref_list1"].__setitem__(j, (p + 1) - n - 1))         # one past the end
            mut(lambda e: e["ref_list1"].__setitem__(3, (p + 1) - n - 1))         # fourth cell is ignored
            for e in muts:
                out.append((mps_line(n, e), "mps:mutate"))
    # every entry count, also those that are not a power of two; one entry without a list0 reference at a seeded position
    for n in ([1, 2, 3, 4, 5, 7, 8, 9, 16, 17, 31, 32] if quick else range(1, 33)):
        out.append((mps_line(n, chain_struct(n)), "mps:count"))
        if n >= 2:
            e = chain_struct(n)
            e[chk.rng.range(1, n - 1)]["ref_list0"] = [0, 0, 0, 0]
            out.append((mps_line(n, e), "mps:count"))
        # the entry count says n but more entries are filled in (must be ignored)
        if n < 32:
            e = chain_struct(n) + [{"decode_order": 40, "temporal_layer_index": 40, "ref_list0": [-5, 0, 0, 0], "ref_list1": [-100, 0, 0, 0]}]
            out.append((mps_line(n, e), "mps:count"))
    for n in (33, 64, 2147483647, -1, -2147483648):            # copy runs out of bounds: the model must flag them (never run for real)
        out.append((mps_line(n, chain_struct(2)), "mps:count-oob"))
    # type extremes in single cells
    for n in (1, 4):
        for nm, j, v in (("ref_list1", 0, -2147483648), ("ref_list1", 0, 2147483647), ("ref_list1", 2, -2147483647), ("ref_list0", 0, 2147483647),
                         ("ref_list0", 3, -2147483648), ("ref_list0", 1, 2147483647)):
            e = chain_struct(n)
            e[n - 1][nm][j] = v
            out.append((mps_line(n, e), "mps:extreme"))
        for nm, v in (("decode_order", 4294967295), ("temporal_layer_index", 4294967295), ("decode_order", 2147483648)):
            e = chain_struct(n)
            e[0][nm] = v
            out.append((mps_line(n, e), "mps:extreme"))
    # interplay with the members that copy_api_from_app derives from the structure / uses before it
    for n in (1, 2, 8, 32):
        for extra in ("hierarchical_levels=0", "hierarchical_levels=5", "hierarchical_levels=7", "hierarchical_levels=30", "rate_control_mode=1 intra_period_length=-2",
                      "rate_control_mode=1 intra_period_length=31 look_ahead_distance=31", "look_ahead_distance=200", "enable_tpl_la=0 look_ahead_distance=4294967295"):
            out.append((mps_line(n, chain_struct(n), extra), "mps:coupled"))
    # seeded random structures
    nr = 150 if quick else 3000
    for _ in range(nr):
        n = chk.rng.choice([1, 2, 3, 4, 5, 8, 16, 31, 32])
        es = []
        for i in range(n):
            def r0():
                m = chk.rng.below(6)
                return [0, 1, i + 1, i + 2, chk.rng.range(0, 40), chk.rng.range(-2, 3)][m]
            def r1():
                m = chk.rng.below(6)
                return [0, -1, (i + 1) - n, (i + 1) - n - 1, chk.rng.range(-40, 40), chk.rng.range(-2, 3)][m]
            es.append({"decode_order": chk.rng.choice([0, i, 31, 31, 5, 32]) if chk.rng.below(8) == 0 else i,
                       "temporal_layer_index": chk.rng.choice([0, 1, 5, 31, 32]) if chk.rng.below(8) == 0 else chk.rng.below(6),
                       "ref_list0": [1 if chk.rng.below(4) else r0(), r0() if chk.rng.below(3) == 0 else 0, 0 if chk.rng.below(4) else r0(), 0 if chk.rng.below(4) else r0()],
                       "ref_list1": [r1() if chk.rng.below(2) else 0, r1() if chk.rng.below(4) == 0 else 0, r1() if chk.rng.below(4) == 0 else 0, r1() if chk.rng.below(4) == 0 else 0]})
        out.append((mps_line(n, es), "mps:random"))
    return out


def product_cases(tag, g, cases, base=BASE):
    keys = list(g)
    idx = [0] * len(keys)
    while True:
        ov = " ".join("%s=%d" % (k, g[k][i]) for k, i in zip(keys, idx))
        cases.append(("CASE 0 %s %s" % (base, ov), "grid:" + tag))
        j = 0
        while j < len(keys):
            idx[j] += 1
            if idx[j] < len(g[keys[j]]):
                break
            idx[j] = 0
            j += 1
        if j == len(keys):
            break


def arithmetic_cases(chk):
    """coupled members of the rules whose arithmetic is interesting (frame rate, default intra period, look-ahead, HME sums, tiles)"""
    cases = []
    Q = 65536
    # frame rate from numerator / denominator: the two 8-bit shifts drop bits from 2^24 (first) and for quotients >= 2^24 (second)
    nums = [1, 24, 25, 255, 256, 30000, 60000, 65535, 65536, 65537, 65536 * 2, 65536 * 240, 65536 * 240 + 1, 239999, 240000, 240001, 300000, 480000,
            1000000, 2 ** 24 - 1, 2 ** 24, 2 ** 24 + 1, 2 ** 24 + 25, 2 ** 24 + 241, 2 ** 31, 2 ** 32 - 1]
    dens = [1, 2, 250, 999, 1000, 1001, 2048, 65536, 2 ** 24, 2 ** 32 - 1]
    product_cases("fps-num-den", {"frame_rate_numerator": nums, "frame_rate_denominator": dens}, cases)
    for _ in range(150 if chk.tier == "quick" else 5000):
        num = chk.rng.choice([chk.rng.range(1, 2 ** 32 - 1), chk.rng.range(1, 2 ** 17), Q * chk.rng.range(1, 400) + chk.rng.range(-2, 2), 1000 * chk.rng.range(1, 400),
                              1001 * chk.rng.range(1, 300), 2 ** 24 + chk.rng.range(-300, 300)])
        den = chk.rng.choice([1, 1, 1000, 1001, 2048, chk.rng.range(1, 5000), chk.rng.range(1, 2 ** 32 - 1)])
        cases.append(("CASE 0 %s frame_rate_numerator=%d frame_rate_denominator=%d" % (BASE, max(1, min(num, 2 ** 32 - 1)), den), "grid:fps-random"))
    product_cases("fps-fallback", {"frame_rate": [0, 1, 60, 240, 241, 999, 1000, 65535, 65536, 240 * Q, 240 * Q + 1, 2 ** 32 - 1],
                                   "frame_rate_numerator": [0, 30000], "frame_rate_denominator": [0, 1001]}, cases)
    # default intra period (intra_period_length = -2): frame rate in both forms x mini-GOP size x refresh type, judged by the rate-control limits
    product_cases("default-ip", {"intra_period_length": [-2], "rate_control_mode": [0, 1, 2],
                                 "frame_rate": [1, 24, 60, 240, 255, 256, 257, 271, 272, 999, 1000, 24 * Q, 240 * Q],
                                 "hierarchical_levels": [0, 3, 4, 5], "intra_refresh_type": [1, 2]}, cases)
    product_cases("default-ip-numden", {"intra_period_length": [-2], "rate_control_mode": [1], "frame_rate_numerator": [240000, 254000, 255000, 256000, 272000, 16777216 + 300],
                                        "frame_rate_denominator": [1000, 1], "hierarchical_levels": [0, 4], "intra_refresh_type": [1, 2]}, cases)
    # look-ahead: default vs capped value, against rate control, intra period, mini-GOP size, frame rate, tpl, first-pass statistics
    product_cases("lad", {"rate_control_mode": [0, 1, 2, 3], "intra_period_length": [-2, -1, 0, 31, 120, 121, 200, 255],
                          "look_ahead_distance": [0, 1, 33, 34, 120, 121, 4294967294, 4294967295], "enable_tpl_la": [0, 1]}, cases)
    product_cases("lad-cap", {"rate_control_mode": [0, 1], "look_ahead_distance": [2, 3, 4, 17, 18, 33, 34, 65, 66, 119, 120, 121],
                              "hierarchical_levels": [0, 3, 4, 5], "frame_rate": [8, 60, 61, 25 * Q], "enable_tpl_la": [0]}, cases)
    product_cases("lad-2pass", {"rate_control_mode": [0, 1], "look_ahead_distance": [0, 5, 4294967295], "enable_tpl_la": [0, 1, 2], "rc_twopass_stats_in_sz": [0, 5],
                                "intra_period_length": [-1, 31]}, cases)
    # HME: region counts x the six arrays; level-0 totals must match, level-1/2 totals must lie in [1, 480]; uint32 wrap of the sums
    pairs = [(0, 0), (1, 0), (0, 1), (480, 0), (480, 1), (240, 240), (240, 241), (4294967295, 2), (481, 0), (1, 479), (4294967295, 1)]
    for nw in (1, 2):
        for nh in (1, 2):
            cnt = "number_hme_search_region_in_width=%d number_hme_search_region_in_height=%d hme_level0_total_search_area_width=%d hme_level0_total_search_area_height=%d" % (
                nw, nh, 32 * nw, 12 if nh == 1 else 25)
            for lvl in (1, 2):
                for d in ("width", "height"):
                    for x, y in pairs:
                        cases.append(("CASE 0 %s %s hme_level%d_search_area_in_%s_array[0]=%d hme_level%d_search_area_in_%s_array[1]=%d" % (BASE, cnt, lvl, d, x, lvl, d, y), "grid:hme-sum"))
            for d, n in (("width", nw), ("height", nh)):
                for x, y in pairs:
                    tot = (x + (y if n == 2 else 0)) % 2 ** 32
                    for t in sorted({tot, (tot + 1) % 2 ** 32, x, (x + y) % 2 ** 32}):
                        cases.append(("CASE 0 %s number_hme_search_region_in_width=%d number_hme_search_region_in_height=%d "
                                      "hme_level0_total_search_area_%s=%d hme_level0_search_area_in_%s_array[0]=%d hme_level0_search_area_in_%s_array[1]=%d %s" % (
                                          BASE, nw, nh, d, t, d, x, d, y,
                                          ("hme_level0_total_search_area_height=%d" % (12 if nh == 1 else 25)) if d == "width" else ("hme_level0_total_search_area_width=%d" % (32 * nw))),
                                      "grid:hme-sum"))
    # tiles x picture size (the product rule does not depend on the size; the size rules must not interfere)
    for w, h in ((64, 64), (4096, 2160), (1920, 1080)):
        product_cases("tiles-size", {"tile_rows": [0, 2, 3, 4, 5, 6, 7], "tile_columns": [0, 1, 2, 3, 4, 5]}, cases, base="source_width=%d source_height=%d" % (w, h))
    # profile x depth x format, asm flag word, hbd flag
    product_cases("asm", {"use_cpu_flags": [0, 1, 2 ** 62, 2 ** 63 - 1, 2 ** 63, 2 ** 63 + 1, 2 ** 64 - 1]}, cases)
    product_cases("hbd2", {"encoder_bit_depth": [8, 9, 10], "enable_hbd_mode_decision": [-128, -2, -1, 0, 2, 3, 100, 127]}, cases)
    return cases


def gen_cases(chk, nrand):
    """-> list of (line, tag).  All cases start from the library defaults (dirty byte 0) + 64x64."""
    cases = []
    consts = constants_by_field()
    flds = field_table()
    # (a) one member at a time: every constant the code compares it with, +-1, type extremes, 0, -1
    for f in flds:
        lo, hi = type_range(f["ctype"])
        cand = {lo, hi, 0, 1, 2, lo + 1, hi - 1}
        for k in consts.get(f["name"], ()):
            cand.update((k - 1, k, k + 1))
        cand.update((63, 64, 255, 256, 65535, 65536, 65600))
        names = [f["name"]] if f["array"] is None else ["%s[%d]" % (f["name"], i) for i in range(f["array"])]
        for nm in names:
            for v in sorted(cand):
                if lo <= v <= hi:
                    if f["name"] in ("source_width", "source_height"):
                        other = "source_height" if f["name"] == "source_width" else "source_width"
                        cases.append(("CASE 0 %s=64 %s=%d" % (other, nm, v), "single:" + f["name"]))
                    else:
                        cases.append(("CASE 0 %s %s=%d" % (BASE, nm, v), "single:" + f["name"]))
    # (b) coupled members, pairwise grids
    grids = [
        ("rc-ip-lad", {"rate_control_mode": [0, 1, 2, 3], "intra_period_length": [-3, -2, -1, 0, 1, 31, 255, 256, 2147483646, 2147483647],
                       "look_ahead_distance": [0, 1, 31, 33, 120, 121, 255, 4294967295], "enable_tpl_la": [0, 1]}),
        ("profile-depth-format", {"profile": [0, 1, 2, 3], "encoder_bit_depth": [8, 9, 10, 12], "encoder_color_format": [0, 1, 2, 3, 4]}),
        ("qp-bounds", {"rate_control_mode": [0, 1, 2], "min_qp_allowed": [0, 1, 30, 62, 63, 64], "max_qp_allowed": [0, 1, 30, 62, 63, 64]}),
        ("tiles", {"tile_rows": [-1, 0, 1, 3, 4, 5, 6, 7], "tile_columns": [-1, 0, 1, 3, 4, 5, 6, 7]}),
        ("intrabc-scm", {"intrabc_mode": [-2, -1, 0, 1, 2, 3, 4], "screen_content_mode": [0, 1, 2, 3]}),
        ("superres-2pass", {"superres_mode": [0, 1, 2, 3], "rc_firstpass_stats_out": [0, 1], "rc_twopass_stats_in_sz": [0, 5],
                            "superres_denom": [7, 8, 16, 17], "superres_kf_denom": [7, 8, 16, 17]}),
        ("2pass-rc", {"rate_control_mode": [0, 1, 2], "rc_firstpass_stats_out": [0, 1], "rc_twopass_stats_in_buf": [0, 4096]}),
        ("hme", {"enable_hme_flag": [0, 1], "number_hme_search_region_in_width": [0, 1, 2], "number_hme_search_region_in_height": [0, 1, 2],
                 "hme_level0_total_search_area_width": [0, 32, 64, 480, 481], "hme_level0_search_area_in_width_array[0]": [0, 32, 64]}),
        ("hme-l1", {"hme_level1_search_area_in_width_array[0]": [0, 1, 240, 479, 480], "hme_level1_search_area_in_width_array[1]": [0, 1, 240, 241],
                    "hme_level2_search_area_in_height_array[0]": [0, 1, 480], "number_hme_search_region_in_width": [1, 2]}),
        ("fps", {"frame_rate": [0, 1, 60, 999, 1000, 15728640, 15728641], "frame_rate_numerator": [0, 1, 30000, 60000, 16777216],
                 "frame_rate_denominator": [0, 1, 1001, 250]}),
        ("size", {"source_width": [62, 64, 66, 72, 4096, 4098, 65600], "source_height": [62, 64, 66, 2160, 2162, 65600],
                  "compressed_ten_bit_format": [0, 1]}),
        ("hbd", {"encoder_bit_depth": [8, 10], "enable_hbd_mode_decision": [-2, -1, 0, 1, 2, 3], "is_16bit_pipeline": [0, 1]}),
        ("lp-rate-est", {"logical_processors": [0, 1, 2, 16], "pic_based_rate_est": [-2, -1, 0, 1, 2]}),
    ]
    for tag, g in grids:
        keys = list(g)
        # all pairs of members x all value pairs (others at default), plus the full product when small
        total = 1
        for k in keys:
            total *= len(g[k])
        if total <= 1500:
            idx = [0] * len(keys)
            while True:
                ov = " ".join("%s=%d" % (k, g[k][i]) for k, i in zip(keys, idx))
                base = BASE if "source_width" not in g else ""
                if "source_width" in g:
                    cases.append(("CASE 0 %s" % ov, "grid:" + tag))
                else:
                    cases.append(("CASE 0 %s %s" % (base, ov), "grid:" + tag))
                j = 0
                while j < len(keys):
                    idx[j] += 1
                    if idx[j] < len(g[keys[j]]):
                        break
                    idx[j] = 0
                    j += 1
                if j == len(keys):
                    break
        else:
            for a in range(len(keys)):
                for b in range(a + 1, len(keys)):
                    for va in g[keys[a]]:
                        for vb in g[keys[b]]:
                            cases.append(("CASE 0 %s %s=%d %s=%d" % (BASE, keys[a], va, keys[b], vb), "grid:" + tag))
    # (b2) arithmetic of the derived quantities, (b3) manual prediction structures
    cases += arithmetic_cases(chk)
    cases += mps_cases(chk)
    # (c) random multi-member configurations: mostly-valid values with a few members pushed to boundaries
    for _ in range(nrand):
        k = chk.rng.range(2, 6)
        ov = []
        for _ in range(k):
            f = chk.rng.choice(flds)
            lo, hi = type_range(f["ctype"])
            cs = sorted(consts.get(f["name"]) or {0, 1})
            mode = chk.rng.below(4)
            if mode == 0:
                v = chk.rng.choice(cs) + chk.rng.range(-1, 1)
            elif mode == 1:
                v = chk.rng.range(min(cs) - 2, max(cs) + 2)
            elif mode == 2:
                v = chk.rng.choice([lo, hi, 0, -1, 1])
            else:
                v = chk.rng.range(lo, hi)
            v = max(lo, min(hi, v))
            nm = f["name"] if f["array"] is None else "%s[%d]" % (f["name"], chk.rng.below(f["array"]))
            if f["name"] in ("source_width", "source_height"):
                continue
            ov.append("%s=%d" % (nm, v))
        cases.append(("CASE 0 %s %s" % (BASE, " ".join(ov)), "random"))
    return cases
