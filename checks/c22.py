"""C22 — order-hint distance helpers (translated) + circular reorder queues + long streams."""
import os
import sys
from . import common as C

sys.path.insert(0, os.path.join(C.VERIF, "xlate"))
LEVEL = "proof"
MODULE = "SvtVerif.Props.C22"


def gen_harness_source():
    import extract
    import reldist
    parts = ['#include <stdio.h>\n#include <stdlib.h>\n#include <assert.h>\n#include "EbDefinitions.h"\n#include "EbAv1Structs.h"\n'
             '#ifndef INLINE\n#define INLINE inline\n#endif\n#undef assert\n#define assert(x) ((void)0)\n']
    for i, (path, cname, lname, order) in enumerate(reldist.COPIES):
        parts.append("/* %s */\n" % path + extract.function_text(path, cname, "f%d" % i, defined_in=reldist.DEFINED_IN.get(lname)) + "\n")
    parts.append(r"""
int main(void) {
    int en, bits, a, b;
    while (scanf("%d %d %d %d", &en, &bits, &a, &b) == 4) {
        SeqHeader sh; OrderHintInfo oh;
        sh.order_hint_info.enable_order_hint = (uint8_t)en; sh.order_hint_info.order_hint_bits = (uint8_t)bits;
        oh.enable_order_hint = (uint8_t)en; oh.order_hint_bits = (uint8_t)bits;
        printf("%d %d %d %d %d\n", f0(&sh, a, b), f1(&oh, a, b), f2(&oh, a, b), f3(&oh, a, b), f4(&oh, a, b));
    }
    return 0;
}
""")
    return "".join(parts)


def spec_ok(bits, a, b, d):
    m = 1 << (bits - 1)
    return -m <= d < m and (d - (a - b)) % (1 << bits) == 0


def run(chk):
    import reldist
    import cfun
    # 1. regenerate the model from the current tree
    try:
        reldist.main(os.path.join(C.LEAN, "SvtVerif/Gen/RelDist.lean"))
        translated = True
        terr = ""
    except cfun.Unsupported as e:
        translated, terr = False, str(e)
    # 2. proofs on the regenerated model
    pr = chk.proofs(MODULE, trusted_extra=[
        "xlate/cfun.py + xlate/reldist.py: clang-14 JSON AST -> Lean Int terms with explicit wrap at every cast/arith node",
        "harness: the five helpers' source text extracted via clang source ranges, compiled with gcc, run on the same inputs as the generated Lean"]) if translated else None
    # 3. correspondence + implementation oracle
    src = gen_harness_source()
    hsrc = os.path.join(C.CACHE, "gen_src")
    os.makedirs(hsrc, exist_ok=True)
    cpath = os.path.join(hsrc, "c22_reldist.c")
    open(cpath, "w").write(src)
    exe = C.compile_harness("c22_reldist", [cpath])
    maxbits_exh = 6 if chk.tier == "quick" else 8
    nrand = 20000 if chk.tier == "quick" else 300000
    lines = []
    for bits in range(1, maxbits_exh + 1):
        for a in range(1 << bits):
            for b in range(1 << bits):
                lines.append((1, bits, a, b))
    buckets = {}
    for _ in range(nrand):
        bits = chk.rng.range(1, 31)
        mode = chk.rng.below(4)
        if mode == 0:    # near wrap
            a = ((1 << bits) - 1 - chk.rng.below(3)) % (1 << bits)
            b = chk.rng.below(3) % (1 << bits)
        elif mode == 1:  # near half period
            a = chk.rng.below(1 << bits)
            b = (a + (1 << (bits - 1)) + chk.rng.range(-2, 2)) % (1 << bits)
        else:
            a = chk.rng.below(1 << bits)
            b = chk.rng.below(1 << bits)
        if chk.rng.chance(1, 2):
            a, b = b, a
        en = 0 if chk.rng.chance(1, 50) else chk.rng.choice([1, 1, 1, 255, 2])
        lines.append((en, bits, a, b))
        buckets[bits] = buckets.get(bits, 0) + 1
    text = "".join("%d %d %d %d\n" % l for l in lines)
    rc, cout = C.sh([exe], input=text.encode())
    cres = [tuple(int(x) for x in l.split()) for l in cout.strip().split("\n")]
    mres = None
    if translated and pr.build_ok:
        mres = [tuple(int(x) for x in l.split()) for l in C.run_model("reldist", text).strip().split("\n")]
    if len(cres) != len(lines):
        raise RuntimeError("harness output length mismatch")
    disagreements, spec_fail = [], []
    distinct = set()
    for i, l in enumerate(lines):
        en, bits, a, b = l
        distinct.add(l)
        if mres is not None and mres[i] != cres[i]:
            disagreements.append((l, cres[i], mres[i]))
        for j, d in enumerate(cres[i]):
            exp_ok = (d == 0) if en == 0 else spec_ok(bits, a, b, d)
            if not exp_ok:
                spec_fail.append((l, j, d))
    chk.cov["evaluations"] = len(lines)
    chk.cov["distinct_nontrivial"] = len([l for l in distinct if l[2] != l[3]])
    chk.cov["rule"] = ("exhaustive (bits,a,b) for bits<=%d plus seeded random bits in 1..31 biased to the wrap point and the half-period; "
                       "non-trivial = a != b; each evaluated on all five C copies (extracted source) and the five generated Lean copies" % maxbits_exh)
    chk.cov["random_bits_histogram"] = {str(k): v for k, v in sorted(buckets.items())}
    chk.cov["disagreements_checked"] = len(lines)
    chk.cov["programs"] = 5
    chk.sample({"input(en,bits,a,b)": lines[len(lines) // 2], "c": cres[len(lines) // 2]})
    chk.sample({"input(en,bits,a,b)": lines[-1], "c": cres[-1]})
    chk.assumptions += ["C int is 32-bit two's complement; signed overflow wraps (modelled by wrapS 32)",
                        "hints satisfy 0 <= a,b < 2^bits, 1 <= bits <= 31 (the functions' own asserts)"]
    names = ["EbInterPrediction.c:get_relative_dist_enc", "EbAdaptiveMotionVectorPrediction.c:get_relative_dist",
             "EbPictureDecisionProcess.c:get_relative_dist", "EbModeDecisionConfigurationProcess.c:get_relative_dist",
             "EbDecParseFrame.c/EbDecUtils.h:get_relative_dist"]
    if spec_fail:
        l, j, d = spec_fail[0]
        chk.violation("order-hint distance helper %s returns a value that is not the signed distance modulo the period\n"
                      "input: enable_order_hint=%d order_hint_bits=%d a=%d b=%d\nreturned: %d\n"
                      "expected: d in [-2^(bits-1), 2^(bits-1)) with d == a-b (mod 2^bits)%s\n"
                      "failing inputs in this run: %d\nreplay: bin/check C22 --replay <this file>\n" %
                      (names[j], l[0], l[1], l[2], l[3], d, " (0 when disabled)" if l[0] == 0 else "", len(spec_fail)))
    elif not translated:
        chk.violation("translator refused the current source: %s\nno input found on which the five helpers violate the spec (%d inputs tried)\n" % (terr, len(lines)),
                      tag="xlate", found_input=False)
    elif not pr.ok:
        chk.violation("proof obligations no longer check on the regenerated model:\n%s\nforbidden tokens: %s\n"
                      "no input found on which the implementation violates the property (%d inputs tried)\n" %
                      ("\n".join("%s: %s" % kv for kv in pr.failed.items()), pr.forbidden, len(lines)),
                      tag="proof", found_input=False)
    elif disagreements:
        l, c, m = disagreements[0]
        chk.violation("generated Lean model and C code disagree (translator validation failed), but the C results satisfy the spec\n"
                      "input %s C=%s Lean=%s\n" % (l, c, m), tag="corr", found_input=False)


def replay(chk, path):
    run(chk)
