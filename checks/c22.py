"""C22 — order-hint distance helpers (translated) + circular reorder queues + long streams."""
import os
import sys
from . import common as C

sys.path.insert(0, os.path.join(C.VERIF, "xlate"))
LEVEL = "proof"
MODULE = "SvtVerif.Props.C22"


def gen_harness_source():
    import extract
    import reldist
    parts = ['#include <stdio.h>\n#include <stdlib.h>\n#include <assert.h>\n#include "EbDefinitions.h"\n#include "EbAv1Structs.h"\n'
             '#ifndef INLINE\n#define INLINE inline\n#endif\n#undef assert\n#define assert(x) ((void)0)\n']
    for i, (path, cname, lname, order) in enumerate(reldist.COPIES):
        parts.append("/* %s */\n" % path + extract.function_text(path, cname, "f%d" % i, defined_in=reldist.DEFINED_IN.get(lname)) + "\n")
    parts.append(r"""
int main(void) {
    int en, bits, a, b;
    while (scanf("%d %d %d %d", &en, &bits, &a, &b) == 4) {
        SeqHeader sh; OrderHintInfo oh;
        sh.order_hint_info.enable_order_hint = (uint8_t)en; sh.order_hint_info.order_hint_bits = (uint8_t)bits;
        oh.enable_order_hint = (uint8_t)en; oh.order_hint_bits = (uint8_t)bits;
        printf("%d %d %d %d %d\n", f0(&sh, a, b), f1(&oh, a, b), f2(&oh, a, b), f3(&oh, a, b), f4(&oh, a, b));
    }
    return 0;
}
""")
    return "".join(parts)


def spec_ok(bits, a, b, d):
    m = 1 << (bits - 1)
    return -m <= d < m and (d - (a - b)) % (1 << bits) == 0


def run(chk):
    import reldist
    import cfun
    # 1. regenerate the model from the current tree
    try:
        reldist.main(os.path.join(C.LEAN, "SvtVerif/Gen/RelDist.lean"))
        translated = True
        terr = ""
    except cfun.Unsupported as e:
        translated, terr = False, str(e)
    # 2. proofs on the regenerated model
    pr = chk.proofs(MODULE, trusted_extra=[
        "xlate/cfun.py + xlate/reldist.py: clang-14 JSON AST -> Lean Int terms with explicit wrap at every cast/arith node",
        "harness: the five helpers' source text extracted via clang source ranges, compiled with gcc, run on the same inputs as the generated Lean",
        "Model/Reorder.lean: hand-written queue model tied to the extracted real queue helpers by correspondence (harness/reorder.c)",
        "hypothesis Windowed (no arrival 2048 or more ahead of the oldest missing picture) is a property of the pipeline's pool sizes: exercised by the long real streams, not proved"]) if translated else None
    # 3. correspondence + implementation oracle
    src = gen_harness_source()
    hsrc = os.path.join(C.CACHE, "gen_src")
    os.makedirs(hsrc, exist_ok=True)
    cpath = os.path.join(hsrc, "c22_reldist.c")
    open(cpath, "w").write(src)
    exe = C.compile_harness("c22_reldist", [cpath])
    maxbits_exh = 6 if chk.tier == "quick" else 8
    nrand = 20000 if chk.tier == "quick" else 300000
    lines = []
    for bits in range(1, maxbits_exh + 1):
        for a in range(1 << bits):
            for b in range(1 << bits):
                lines.append((1, bits, a, b))
    buckets = {}
    for _ in range(nrand):
        bits = chk.rng.range(1, 31)
        mode = chk.rng.below(4)
        if mode == 0:    # near wrap
            a = ((1 << bits) - 1 - chk.rng.below(3)) % (1 << bits)
            b = chk.rng.below(3) % (1 << bits)
        elif mode == 1:  # near half period
            a = chk.rng.below(1 << bits)
            b = (a + (1 << (bits - 1)) + chk.rng.range(-2, 2)) % (1 << bits)
        else:
            a = chk.rng.below(1 << bits)
            b = chk.rng.below(1 << bits)
        if chk.rng.chance(1, 2):
            a, b = b, a
        en = 0 if chk.rng.chance(1, 50) else chk.rng.choice([1, 1, 1, 255, 2])
        lines.append((en, bits, a, b))
        buckets[bits] = buckets.get(bits, 0) + 1
    text = "".join("%d %d %d %d\n" % l for l in lines)
    rc, cout = C.sh([exe], input=text.encode())
    cres = [tuple(int(x) for x in l.split()) for l in cout.strip().split("\n")]
    mres = None
    if translated and pr.build_ok:
        mres = [tuple(int(x) for x in l.split()) for l in C.run_model("reldist", text).strip().split("\n")]
    if len(cres) != len(lines):
        raise RuntimeError("harness output length mismatch")
    disagreements, spec_fail = [], []
    distinct = set()
    for i, l in enumerate(lines):
        en, bits, a, b = l
        distinct.add(l)
        if mres is not None and mres[i] != cres[i]:
            disagreements.append((l, cres[i], mres[i]))
        for j, d in enumerate(cres[i]):
            exp_ok = (d == 0) if en == 0 else spec_ok(bits, a, b, d)
            if not exp_ok:
                spec_fail.append((l, j, d))
    chk.cov["evaluations"] = len(lines)
    chk.cov["distinct_nontrivial"] = len([l for l in distinct if l[2] != l[3]])
    chk.cov["rule"] = ("exhaustive (bits,a,b) for bits<=%d plus seeded random bits in 1..31 biased to the wrap point and the half-period; "
                       "non-trivial = a != b; each evaluated on all five C copies (extracted source) and the five generated Lean copies" % maxbits_exh)
    chk.cov["random_bits_histogram"] = {str(k): v for k, v in sorted(buckets.items())}
    chk.cov["disagreements_checked"] = len(lines)
    chk.cov["programs"] = 5
    chk.sample({"input(en,bits,a,b)": lines[len(lines) // 2], "c": cres[len(lines) // 2]})
    chk.sample({"input(en,bits,a,b)": lines[-1], "c": cres[-1]})
    chk.assumptions += ["C int is 32-bit two's complement; signed overflow wraps (modelled by wrapS 32)",
                        "hints satisfy 0 <= a,b < 2^bits, 1 <= bits <= 31 (the functions' own asserts)"]
    names = ["EbInterPrediction.c:get_relative_dist_enc", "EbAdaptiveMotionVectorPrediction.c:get_relative_dist",
             "EbPictureDecisionProcess.c:get_relative_dist", "EbModeDecisionConfigurationProcess.c:get_relative_dist",
             "EbDecParseFrame.c/EbDecUtils.h:get_relative_dist"]
    # ---- circular reorder queue: REAL get_reorder_queue_* code vs the Lean queue model, streams >> depth 2048
    from . import pktz_units as U
    q = U.run_reorder_unit(chk)
    chk.cov["queue_unit"] = {"ops": q["ops"], "entries_per_op": q["entries"], "kinds": q["hist"], "disagreements": len(q["disagreements"]),
                             "oracle_failures": len(q["oracle_failures"])}
    chk.cov["evaluations"] += q["ops"]
    chk.cov["distinct_nontrivial"] += q["ops"]
    for smp in q["samples"][:2]:
        chk.sample(smp)
    # ---- long real streams: beyond 2^order_hint_bits (=128) in quick, beyond the 2048-deep reorder queues in thorough
    streams = [dict(n=300, lv=4, ip=-1, content=4), dict(n=200, lv=3, ip=37, content=2),
               dict(n=2100, lv=4, ip=-1, content=4, w=64, h=64)]     # > 2048: every circular queue wraps
    if chk.tier == "thorough":
        streams += [dict(n=2200, lv=4, ip=-1, content=4), dict(n=2600, lv=4, ip=255, content=1), dict(n=5000, lv=3, ip=-1, content=2)]

    def one(st):
        a = {"w": st.get("w", 128), "h": st.get("h", 64), "n": st["n"], "cfg.enc_mode": 8, "cfg.hierarchical_levels": st["lv"], "cfg.intra_period_length": st["ip"],
             "recon": 1, "decode": 1, "content": st["content"], "seed": chk.seed * 1000 + st["n"], "watchdog": 1200 + st["n"]}
        return st, C.run_e2e(a, timeout=2400 + 2 * st["n"])
    long_fail = []
    long_stats = []
    for st, r in C.run_parallel(one, streams, workers=3):
        n = st["n"]
        pts = [p["pts"] for p in r["PKT"]]
        mism = [c for c in r["CMP"] if "MISMATCH" in c[1]]
        ok = (not r["crashed"] and not r["hung"] and len(pts) == n and pts == list(range(n)) and len(r["DEC"]) == n and not mism
              and len(r["CMP"]) == n and not r["ERR"])
        long_stats.append({"frames": n, "levels": st["lv"], "intra_period": st["ip"], "packets": len(pts), "decoded": len(r["DEC"]),
                           "recon_eq_decode": len(r["CMP"]) - len(mism), "ok": ok})
        if not ok:
            first_bad = next((i for i, (x, y) in enumerate(zip(pts, range(n))) if x != y), None)
            long_fail.append("stream of %d frames (preset 8, levels %d, intra period %d): rc=%s hung=%s packets=%d decoded=%d "
                             "first out-of-order packet index=%s recon/decode mismatches=%s errors=%s\nargs: %s\n" %
                             (n, st["lv"], st["ip"], r["rc"], r["hung"], len(pts), len(r["DEC"]), first_bad, mism[:3], r["ERR"][:3], r["argv"]))
    chk.cov["long_streams"] = long_stats
    chk.cov["evaluations"] += len(streams)
    chk.cov["distinct_nontrivial"] += len(streams)
    chk.cov["rule"] += ("; + reorder-queue unit (real queue code vs Lean model, %d arrival orders of %d entries, depth 2048) + %d real long-stream "
                        "encodes (packets in pts order, decode == recon for every frame)" % (q["ops"], q["entries"], len(streams)))
    chk.sample(long_stats[0])
    if long_fail:
        chk.violation("long stream misbehaves on the REAL encoder/decoder\n" + "\n".join(long_fail), tag="long")
    if q["oracle_failures"]:
        i, txt = q["oracle_failures"][0]
        chk.violation("REAL reorder queue code (EbPacketizationProcess.c get_reorder_queue_*) breaks in-order delivery on a windowed arrival order\n%s\n"
                      "input line: %s\n" % (txt, q["input_lines"][i][:4000]), tag="queue")
    elif q["disagreements"] and not (spec_fail or not translated or not pr.ok):
        i, cl, ml = q["disagreements"][0]
        chk.violation("reorder queue: Lean model and real code disagree although the real output satisfies the in-order oracle\nop %d\nC:    %s\nLean: %s\n"
                      % (i, cl, ml), tag="queuecorr", found_input=False)
    if spec_fail:
        l, j, d = spec_fail[0]
        chk.violation("order-hint distance helper %s returns a value that is not the signed distance modulo the period\n"
                      "input: enable_order_hint=%d order_hint_bits=%d a=%d b=%d\nreturned: %d\n"
                      "expected: d in [-2^(bits-1), 2^(bits-1)) with d == a-b (mod 2^bits)%s\n"
                      "failing inputs in this run: %d\nreplay: bin/check C22 --replay <this file>\n" %
                      (names[j], l[0], l[1], l[2], l[3], d, " (0 when disabled)" if l[0] == 0 else "", len(spec_fail)))
    elif not translated:
        chk.violation("translator refused the current source: %s\nno input found on which the five helpers violate the spec (%d inputs tried)\n" % (terr, len(lines)),
                      tag="xlate", found_input=False)
    elif not pr.ok:
        chk.violation("proof obligations no longer check on the regenerated model:\n%s\nforbidden tokens: %s\n"
                      "no input found on which the implementation violates the property (%d inputs tried)\n" %
                      ("\n".join("%s: %s" % kv for kv in pr.failed.items()), pr.forbidden, len(lines)),
                      tag="proof", found_input=False)
    elif disagreements:
        l, c, m = disagreements[0]
        chk.violation("generated Lean model and C code disagree (translator validation failed), but the C results satisfy the spec\n"
                      "input %s C=%s Lean=%s\n" % (l, c, m), tag="corr", found_input=False)


def replay(chk, path):
    run(chk)
