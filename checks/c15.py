"""C15 — teardown at any point releases every resource.

proof part : Props/C15.lean — ownership tables (Gen/Lifecycle.lean, regenerated) + shutdown protocol on the C23 SRM model
real part  : harness/teardown.c tears real encoder / decoder sessions down at every protocol point under a watchdog and
             measures return, surviving threads, surviving heap blocks, RSS over repeated cycles
"""
import os
import re
import sys
from . import common as C
from . import lifecyc as LC
from . import c16 as C16

sys.path.insert(0, os.path.join(C.VERIF, "xlate"))
LEVEL = "proof"
MODULE = "SvtVerif.Props.C15"
F6_KEY = "F6-deinit-midstream-hang"
KEY_DEC_EARLY = "F15-dec-teardown-before-first-frame"
KEY_DEC_MT_DF = "F15-dec-mt-double-free-dec_mod_ctxt_arr"
KEY_DEC_MT_LEAK = "F15-dec-mt-sync-objects-leak"
KEY_ENC_MID_LEAK = "F15-enc-midstream-unfetched-packet-leak"
KEY_NULLCFG = "F7-init-handle-null-config-leak"


def gen_cmds(chk):
    rng, quick = chk.rng, chk.tier == "quick"
    cmds = []
    for p in ("handle", "rejected", "configured"):
        cmds += ["enc %s 0 0 0" % p, "enc %s 0 0 1" % p]
    cmds.append("enc init 0 0 0")
    cmds.append("enc nullcfg 0 0 0")
    drained = [0, 1, 3, rng.range(2, 6)] + ([8, 17, rng.range(9, 30)] if not quick else [])
    for k in sorted(set(drained)):
        cmds.append("enc drained %d 0 0" % k)
    mids = [(1, 0), (2, 0), (rng.range(3, 8), 0)]
    k = rng.range(3, 8)
    mids.append((k, rng.range(1, k)))
    if not quick:
        for _ in range(8):
            k = rng.range(1, 14)
            mids.append((k, rng.range(0, k)))
    for k, j in sorted(set(mids)):
        cmds.append("enc midstream %d %d 0" % (k, j))
    cmds.append("enc midstream 80 0 0")          # the F6 scenario: pipeline full, nothing fetched, no EOS
    for p in ("handle", "configured", "init"):
        cmds.append("dec %s 0 1" % p)
    for k in ([1, 2, 4] if quick else [1, 2, 3, 4]):
        cmds.append("dec frames %d 1" % k)
    cmds.append("dec frames 4 2")
    if not quick:
        cmds += ["dec frames 2 2", "dec frames 4 4", "dec init 0 2"]
    cmds.append("cycles %d 3" % (3 if quick else 12))
    return cmds


def parse(lines):
    """[(td dict, [extra lines])] in order"""
    res, cur = [], None
    for l in lines:
        if l.startswith("TD "):
            cur = (LC.kv(l), [])
            res.append(cur)
        elif l.startswith("ENDTD"):
            cur = None
        elif cur is not None:
            cur[1].append(l)
    return res


def blocked_threads(sym, extra):
    """['innermost library frames ...'] for every THREAD line of a timed-out child"""
    out = []
    for l in extra:
        if l.startswith("THREAD "):
            d = LC.kv(l)
            fr = [f[0] for f in sym.frames(d.get("bt", ""))]
            out.append(" < ".join(fr[:4]))
    return out


def classify(td, extra, sym):
    """None if fine, else (key or None, kind, what)"""
    kind, point, st = td["kind"], td["point"], td["status"]
    thr = int(td.get("threads", "1"))
    leak = int(td.get("leak_blocks", "0"))
    if st == "timeout":
        where = blocked_threads(sym, extra)
        what = "teardown does not return (watchdog) in %s; threads: %s" % (td.get("at"), "; ".join(where) or "?")
        if kind == "enc" and point == "midstream" and td.get("at") in ("deinit", "deinit_handle"):
            return F6_KEY, "hang", what
        return None, "hang", what
    if st != "exit0":
        cr = [l for l in extra if l.startswith("CRASH ")]
        fr = sym.frames(LC.kv(cr[0]).get("bt", "")) if cr else []
        lib = [f[0] for f in fr if f[0] not in LC.HARNESS_FRAMES]
        what = "the process dies (%s) during %s in %s" % (st, td.get("at"), " < ".join(lib[:3]) or "?")
        if kind == "dec" and point in ("handle", "configured", "init") and td.get("at") in ("deinit", "deinit_handle"):
            return KEY_DEC_EARLY, "crash", what
        if kind == "dec" and thr >= 2 and td.get("at") in ("deinit", "deinit_handle"):
            return KEY_DEC_MT_DF, "crash", what
        return None, "crash", what
    if leak != 0:
        what = "%d heap block(s) / %s bytes still allocated after teardown" % (leak, td.get("leak_bytes"))
        if kind == "dec" and thr >= 2:
            return KEY_DEC_MT_LEAK, "leak", what
        if kind == "enc" and point == "midstream":
            return KEY_ENC_MID_LEAK, "leak", what
        if kind == "enc" and point == "nullcfg":
            return KEY_NULLCFG, "leak", what
        return None, "leak", what
    if td.get("threads_end") != td.get("threads_base"):
        return None, "threads", "library threads survive teardown (%s -> %s)" % (td.get("threads_base"), td.get("threads_end"))
    if point == "nullcfg":
        if td.get("rc_deinit") in ("0",):
            return None, "rc", "svt_av1_enc_init_handle(&h, NULL, NULL) returned EB_ErrorNone"
        return None, None, None
    if td.get("rc_deinit_handle") not in ("0",) or td.get("rc_deinit") not in ("0",):
        return None, "rc", "teardown returned an error code (deinit=%s deinit_handle=%s)" % (td.get("rc_deinit"), td.get("rc_deinit_handle"))
    if kind == "cycles":
        first, second, last = int(td.get("rss_first", 0)), int(td.get("rss_second", 0)), int(td.get("rss_last", 0))
        if second and last > second * 1.25 + 16384:
            return None, "rss", "resident set grows over repeated sessions: %d kB after the 2nd, %d kB after the last" % (second, last)
    return None, None, None


def run(chk, cmds=None):
    info = C16.translate(chk)
    pr = chk.proofs(MODULE, trusted_extra=[
        "xlate/lifecycle.py (see C16): class tables, kernel table (16 kernel loops, the fifo each waits on), shutdown list of svt_av1_enc_deinit",
        "Model/Srm.lean (C23) for the shutdown protocol; Model/Unwind.lean for ownership",
        "harness/teardown.c: forked children, wall-clock watchdog, /proc/self/task thread count, heap accounting by linker --wrap, RSS from /proc/self/statm"]) if info["translated"] else None
    exe = LC.build("teardown")
    # decoder input
    gdir = os.path.join(C.CACHE, "gen_src", "c16")
    os.makedirs(gdir, exist_ok=True)
    stream = os.path.join(gdir, "s128_%s.obu" % C.repo_hash()[:8])
    if not os.path.exists(stream):
        if LC.hook_missing():
            r = C.run_e2e({"w": 128, "h": 128, "n": 4, "hex": 1, "decode": 0, "recon": 0})
            import struct
            with open(stream, "wb") as fh:
                for i in sorted(r["HEX"]):
                    b = bytes.fromhex(r["HEX"][i])
                    fh.write(struct.pack("<I", len(b)) + b)
        else:
            fexe = LC.build("faultinj")
            C.sh([fexe, "mode=gen", "stream=" + stream, "w=128", "h=128", "frames=4"], timeout=600)
    if cmds is None:
        cmds = gen_cmds(chk)
    # watchdog: >= 25x what one complete 3-picture session takes on this machine right now (typical: 1-3 s);
    # the F6 scenario costs one full watchdog
    import time
    t0 = time.time()
    cal = parse(LC.run_cmds(exe, ["w=128", "h=128", "enc_mode=8", "lp=4", "watchdog=900"], ["enc drained 3 0 0"], nproc=1))
    cal_s = time.time() - t0
    wd = int(max(120 if chk.tier == "quick" else 240, 25 * cal_s))
    chk.cov["watchdog_s"] = wd
    chk.cov["calibration_session_s"] = round(cal_s, 2)
    lines = LC.run_cmds(exe, ["w=128", "h=128", "enc_mode=8", "lp=4", "stream=" + stream, "watchdog=%d" % wd], cmds)
    res = cal + parse(lines)
    # other thread-pool shapes and the screen-content path: with 2 or 3 logical processors the per-stage thread counts differ from each other
    # (seeded change C15-1: a thread array destroyed with another stage's count), and screen_content_mode = 1 allocates the intra-block-copy
    # hash tables that only the picture-control-set destructor releases (seeded change C15-2)
    for extra_args, extra_cmds in ((["lp=2"], ["enc init 0 0 0", "enc drained 3 0 0"]), (["lp=3"], ["enc init 0 0 0", "enc drained 3 0 0"]),
                                   (["lp=4", "scm=1"], ["enc drained 6 0 0", "enc init 0 0 0"])):
        res += parse(LC.run_cmds(exe, ["w=128", "h=128", "enc_mode=8", "stream=" + stream, "watchdog=%d" % wd] + extra_args, extra_cmds))
    sym = LC.Symbols(exe)
    known, unknown = {}, []
    hist = {}
    for td, extra in res:
        key, kind, what = classify(td, extra, sym)
        hist["%s:%s:%s" % (td["kind"], td["point"], kind or "ok")] = hist.get("%s:%s:%s" % (td["kind"], td["point"], kind or "ok"), 0) + 1
        if kind is None:
            continue
        cmd = "%s %s %s %s %s" % (td["kind"], td["point"], td["k"], td["threads"] if td["kind"] == "dec" else td["j"], td.get("nodeinit", "0"))
        if td["kind"] == "cycles":
            cmd = "cycles %s %s" % (td["k"], td["j"])
        item = (td, extra, kind, what, cmd)
        if key and any(k["key"] == key for k in chk.known):
            known.setdefault(key, []).append(item)
        else:
            unknown.append((key,) + item)
    chk.cov["evaluations"] = len(res)
    chk.cov["distinct_nontrivial"] = len(set((td["kind"], td["point"], td["k"], td["j"], td["threads"], td.get("nodeinit")) for td, _ in res
                                           if td["point"] not in ("handle",)))
    chk.cov["rule"] = ("distinct teardown scenarios run on the real libraries (session kind, protocol point, pictures sent, packets fetched, decoder threads, "
                       "with/without deinit), each in its own process under a watchdog; `handle` points are counted as trivial")
    chk.cov["scenario_outcome_histogram"] = hist
    cyc = [(td, ex) for td, ex in res if td["kind"] == "cycles"]
    if cyc:
        chk.cov["cycles"] = [l for l in cyc[0][1] if l.startswith("CYCLE ")]
    for td, ex in res[:4]:
        chk.sample({k: td[k] for k in ("kind", "point", "k", "j", "status", "at", "leak_blocks", "threads_end", "wall") if k in td})
    if info["translated"]:
        s = info["summary"]
        chk.cov["translator"] = {"classes_found": s["classes_found"], "covered": s["covered"], "not_covered": s["not_covered"]}
        import lifecycle as L
        kernels, shut = L.kernel_table(info["tr"])
        chk.cov["kernels"] = {k["name"]: {"input": k["input"], "get_empty_calls": k["get_empty"], "get_full_first": k["get_full_first"]} for k in kernels}
        chk.cov["shutdown_list"] = shut
        # F6 correspondence: the kernel found blocked in the real hang must be one the table lists with get_empty > 0
        blocked = []
        for lst in known.get(F6_KEY, []):
            for w in blocked_threads(sym, lst[1]):
                if "svt_get_empty_object" in w:
                    blocked.append(w)
        chk.cov["f6_blocked_threads"] = sorted(set(blocked))
        names_ge = set(k["name"] for k in kernels if k["get_empty"] > 0)
        chk.cov["f6_blocked_kernel_in_table"] = all(any(n in w for n in names_ge) for w in blocked) if blocked else None
    else:
        chk.cov["translator"] = {"error": info["error"][:3000]}
    chk.assumptions += ["teardown = svt_av1_enc_deinit; svt_av1_enc_deinit_handle (before init also deinit_handle alone) / svt_av1_dec_deinit; svt_av1_dec_deinit_handle",
                        "128x128, enc_mode 8, 4 logical processors (1-superblock-wide pictures are avoided: finding F2)",
                        "heap accounting sees allocations made from library object code (linker --wrap); OS-level release is not observed"]
    chk.cov["explanation"] = ("proof: ownership theorems over the generated class tables and the shutdown protocol on the SRM model; the liveness half is false "
                              "(F6, stated as a negative theorem and reproduced); whole-library teardown is exercised at sampled protocol points, not proved; "
                              "decoder: runtime only")
    for key, lst in sorted(known.items()):
        td, extra, kind, what, cmd = lst[0]
        chk.violation("teardown misbehaves (C15)\nscenario: %s   (harness/teardown.c)\nobserved: %s\nresult line: %s\n%s\nscenarios with this key in this run: %d\nreplay: %s\n" %
                      (cmd, what, " ".join("%s=%s" % x for x in td.items()), "\n".join(extra[:12]), len(lst), cmd), key=key)
    if unknown:
        key, td, extra, kind, what, cmd = unknown[0]
        chk.violation("teardown misbehaves (C15)\nscenario: %s   (harness/teardown.c)\nobserved: %s\nresult line: %s\n%s\nstable key: %s\nunlisted scenarios in this run: %d\nreplay: %s\n" %
                      (cmd, what, " ".join("%s=%s" % x for x in td.items()), "\n".join(extra[:12]), key, len(unknown), cmd))
        return
    if not info["translated"]:
        chk.violation("the lifecycle translator refuses the current tree:\n%s\nno unlisted failing scenario found (%d scenarios)\n" % (info["error"], len(res)),
                      tag="translate", found_input=False)
    elif not pr.ok:
        chk.violation("proof obligations no longer check:\n%s\nforbidden tokens: %s\nno unlisted failing scenario found (%d scenarios)\n" %
                      ("\n".join("%s: %s" % x for x in pr.failed.items()), pr.forbidden, len(res)), tag="proof", found_input=False)
    elif chk.cov.get("f6_blocked_kernel_in_table") is False:
        chk.violation("the thread found blocked in svt_get_empty_object in the real hang is not a kernel the generated table lists with a "
                      "svt_get_empty_object call: %s\n" % chk.cov["f6_blocked_threads"], tag="corr", found_input=False)


def replay(chk, path):
    cmds = []
    for line in open(path):
        m = re.match(r"\s*replay:\s*((?:enc|dec|cycles)\s.*)$", line)
        if m:
            cmds.append(m.group(1).strip())
    run(chk, cmds or None)
