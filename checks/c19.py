"""C19 — intra refresh follows the configured period; key frames are random-access points.

(1) Lean proofs (Props/C19.lean: intra_positions / frame_type_spec / intra_only_first / idr_refresh_key for all stream lengths,
    the excluded point p0_idr_refresh_not_key, keyframe_random_access for any reconstruction function and any prior DPB).
(2) Unit correspondence: the REAL intra-period code of picture_decision_kernel / resource coordination / av1_generate_rps_info
    (text extracted verbatim by harness/intraperiod_extract.py, compiled against the real headers) vs `svtmodel intraperiod`,
    picture by picture (standard and fuzzed arrival flags) and on long runs; the property's statement on the C output.
(3) End to end: REAL encodes for P x refresh x levels x overlays x length; frame types / show flags of every frame parsed from
    the real packets by the Lean header parser (`svtmodel obu`); display-order frame types compared with `IntraPeriod.run`
    and with the property (intra exactly at k % (P+1) == 0, shown key frames for IDR refresh); the parsed headers are run through
    `svtmodel dpb` (which frame is output per packet, what every frame reads) and compared with the real decoder / real recon;
    for every shown key frame the REAL decoder decodes the packet suffix with a fresh instance (harness/dec_suffix.c) and the
    pictures are byte-compared (CRC) with the tail of the full decode.
(4) Verdict as in c22.py / c24.py.  P = 0 with IDR refresh is the recorded finding F12.
"""
import os
import sys

from . import common as C
from . import gope2e as G

sys.path.insert(0, os.path.join(C.VERIF, "harness"))
LEVEL = "proof"
MODULE = "SvtVerif.Props.C19"
K_F12 = "F12-p0-idr-intra-only"


# ------------------------------------------------------------------------------------------------ unit level
def unit_ops(chk):
    r = chk.rng
    quick = chk.tier == "quick"
    ops, meta = [], []      # meta: None | ("RUN", P, refresh, rc, n)
    Ps = [-1, 0, 1, 2, 3, 5, 8, 15, 16, 31, 32, 63, 64, 119, 255, 256, 1000, 2 ** 31 - 1, 2 ** 31 - 2] + [r.range(1, 400) for _ in range(6 if quick else 40)]
    for P in Ps:
        for refresh in (1, 2):
            for rc in ((0, 1) if quick else (0, 1, 2, 3)):
                n = min(3 * (P + 1) + 5, 300 if quick else 1500) if P >= 0 else 40
                ops.append("RUN %d %d %d %d" % (P, refresh, rc, n))
                meta.append(("RUN", P, refresh, rc, n))
    # periods beyond the 1024 cap of the elapsed-IDR counters next to the period counter (seeded change C19-1: period counter clipped at
    # MAX_ELAPSED_IDR_COUNT): the stream must be longer than two periods to see the second and third intra picture
    for P in (1023, 1024, 1025, 1029, 2047) + (() if quick else (4095, 10000)):
        for refresh in (1, 2):
            for rc in (0, 1):
                n = 2 * (P + 1) + 3
                ops.append("RUN %d %d %d %d" % (P, refresh, rc, n))
                meta.append(("RUN", P, refresh, rc, n))
    # picture by picture: standard flags, then fuzzed flags (application-forced types, scene change) and out-of-domain refresh values
    for rep in range(30 if quick else 300):
        P = r.choice([-1, 0, 1, 2, 3, 4, 7, 8, 15, 31, r.range(1, 60)])
        refresh = r.choice([1, 2, 1, 2, 0, 3])
        rc = r.choice([0, 0, 1, 2])
        ops.append("CFG %d %d %d" % (P, refresh, rc))
        meta.append(None)
        fuzz = r.chance(1, 2)
        for k in range(r.range(5, 3 * (max(P, 0) + 1) + 8)):
            if fuzz:
                ops.append("P %d %d %d %d" % (k, 1 if (k == 0 or r.chance(1, 9)) else 0, 1 if r.chance(1, 9) else 0, 1 if r.chance(1, 11) else 0))
            else:
                ops.append("P %d %d 0 0" % (k, 1 if k == 0 else 0))
            meta.append(None)
    ops.append("P 3 0 0 0 0")      # malformed
    meta.append(None)
    return ops, meta


def unit_oracle(m, cline):
    """C19's statement on the frame types the REAL code produced for `RUN P refresh rc n`.  -> (class, text) or None"""
    _, P, refresh, rc, n = m
    w = cline.split()
    if not w or w[0] != str(n) or len(w) != n + 1:
        return ("shape", "RUN line has %d fields for n=%d" % (len(w), n))
    ft = [int(x) for x in w[1:]]
    for k in range(n):
        want_intra = (k == 0) if P < 0 else (k % (P + 1) == 0)
        intra = ft[k] in (0, 2)
        if intra != want_intra:
            return ("position", "P=%d refresh=%d rc=%d: picture %d has frame_type %d (%s), expected %s" %
                    (P, refresh, rc, k, ft[k], "intra" if intra else "inter", "intra" if want_intra else "inter"))
    if refresh == 2:
        for k in range(n):
            if ft[k] == 2:
                return ("idr-key", "P=%d refresh=IDR rc=%d: picture %d is an INTRA_ONLY frame, not a KEY frame" % (P, rc, k))
    return None


def run_unit(chk):
    import intraperiod_extract
    path = intraperiod_extract.write_source(os.path.join(C.CACHE, "gen_src"))
    exe = C.compile_harness("intraperiod", [path])
    ops, meta = unit_ops(chk)
    text = "\n".join(ops) + "\n"
    rc, cout = C.sh([exe], input=text.encode())
    cl = [l for l in cout.split("\n") if l != ""]
    ml = [l for l in C.run_model("intraperiod", text).split("\n") if l != ""]
    res = {"ops": len(ops), "dis": [], "oracle": [], "f12": [], "runs": 0, "pics": 0, "hist": {}}
    if len(cl) != len(ops) or len(ml) != len(ops):
        res["dis"].append(("<line count>", "C %d lines" % len(cl), "model %d lines, %d ops" % (len(ml), len(ops))))
        return res
    for op, m, c, l in zip(ops, meta, cl, ml):
        if c != l:
            res["dis"].append((op, c[:300], l[:300]))
        kind = op.split()[0]
        res["hist"][kind] = res["hist"].get(kind, 0) + 1
        if m:
            res["runs"] += 1
            res["pics"] += m[4]
            bad = unit_oracle(m, c)
            if bad:
                (res["f12"] if (bad[0] == "idr-key" and m[1] == 0) else res["oracle"]).append((op, bad[1]))
    res["sample"] = {"op": ops[4], "c": cl[4][:120], "model": ml[4][:120]}
    return res


# ------------------------------------------------------------------------------------------------ end to end
def cases(chk):
    """P x refresh x levels (+ overlays, look-ahead, TPL, threads), inside the region in which the pinned encoder is live (C03 findings
    F17/F18/F20/F21: one logical processor -> TPL off; TPL (levels <= 3) and overlays (levels 1..3) with 4 logical processors; 6 layers -> 4 logical
    processors, TPL off, library look-ahead or >= 33)."""
    quick = chk.tier == "quick"
    r = chk.rng
    cs = []
    Ps = [-1, 0, 1, 2, 3, 5, 8, 15, 16, 31] + ([] if quick else [4, 7, 9, 32, 33, 47, 63, 64])
    for P in Ps:
        for refresh in (1, 2):
            levels = [r.range(0, 2), r.range(3, 5)] if quick else [0, 1, 2, 3, 4, 5]
            for L in levels:
                per = (P + 1) if P >= 0 else 16
                N = min(max(3 * per + r.range(1, per + 2), (1 << L) + 3), 140)
                lp = 4 if (L == 5 or r.chance(1, 5)) else 1
                a = {"w": 64 if lp == 1 else 128, "h": 64, "n": N, "bd": 8, "seed": chk.seed * 100000 + len(cs), "content": 4 if len(cs) % 2 else 2,
                     "hex": 1, "decode": 0, "recon": 1 if r.chance(1, 3) else 0, "watchdog": 90, "cfg.logical_processors": lp,
                     "cfg.hierarchical_levels": L, "cfg.intra_period_length": P, "cfg.intra_refresh_type": refresh,
                     "cfg.enable_tpl_la": r.choice([0, 1]) if (lp == 4 and L <= 3) else 0}
                if 1 <= L <= 3 and lp == 4 and r.chance(1, 2):
                    a["cfg.enable_overlays"] = 1
                    a["cfg.tf_level"] = 1
                    a["cfg.enable_tpl_la"] = 1
                lad = r.choice([None, None, 33]) if L == 5 else r.choice([None, None, 0, 1, (1 << L) + 1, 33])
                if lad is not None:
                    a["cfg.look_ahead_distance"] = lad
                cs.append(a)
    return cs


def dpb_lines(stream):
    """`svtmodel dpb` input for the parsed headers of one stream; returns (lines, per-packet list of header indices)."""
    lines, pkt_hdrs = ["RESET"], []
    n = 0
    for p in stream:
        idxs = []
        for h in p["frm"]:
            refs = [x for x in h.get("ref_idx", "").split(",") if x != ""]
            refs = (refs + ["0"] * 7)[:7]
            lines.append("F %s %s %s %s %s %s %s" % (h.get("frame_type", "1"), h.get("show_frame", "0"), h.get("showable", "0"),
                                                     h.get("show_existing", "0"), h.get("existing_idx", "0"), h.get("refresh", "0"), " ".join(refs)))
            idxs.append(n)
            n += 1
        pkt_hdrs.append(idxs)
    return lines, pkt_hdrs


def run(chk, only=None):
    quick = chk.tier == "quick"
    # ---- 1. proofs
    pr = chk.proofs(MODULE, trusted_extra=[
        "Model/IntraPeriod.lean is a hand transcription of EbPictureDecisionProcess.c:4719-4809, 4899-4938, 5014-5048, 1251-1254 and "
        "EbResourceCoordinationProcess.c:1014-1019; validated every run against the verbatim-extracted C text (harness/intraperiod_extract.py) and "
        "against frame types parsed from real packets",
        "the choice picture_type (4899-4938) is not extracted at unit level (model's reading: I_SLICE iff idr_flag || cra_flag); it is tied end to end only",
        "Model/Dpb.lean is the AV1 reference update / output process (spec 7.20, 7.21) with an abstract reconstruction function; the real SVT decoder "
        "is compared with it on real streams (which frame each packet outputs; suffix decode == tail of the full decode); no independent AV1 decoder exists here",
        "harness/gop_e2e.c, harness/dec_suffix.c (real encoder / decoder through the public API), `svtmodel obu` (Lean header parser, validated by C02)"])
    # ---- 2. unit
    unit = {"ops": 0, "dis": [], "oracle": [], "f12": [], "runs": 0, "pics": 0, "hist": {}}
    unit_err = None
    if only is None:
        try:
            unit = run_unit(chk)
        except (RuntimeError, C.BuildError, OSError, ImportError) as e:
            unit_err = str(e)[-1500:]
        except Exception as e:       # ExtractError: the anchors no longer match the source
            unit_err = "%s: %s" % (type(e).__name__, str(e)[-1500:])
    # ---- 3. end to end
    import time
    t_unit = time.time() - chk.t0
    cs = [only] if only else cases(chk)
    G.enc_exe()
    G.dec_exe()
    results = C.run_parallel(G.run_enc, cs, workers=4)
    t_enc = time.time() - chk.t0
    usable, unusable = [], []
    for a, r in zip(cs, results):
        if r["crashed"] or r["hung"] or r["SETPARAM"] != 0 or len(r["PKT"]) != a["n"] or len(r["HEX"]) != len(r["PKT"]):
            unusable.append((G.describe(a), "rc=%s setparam=%s packets=%d/%d phase=%s" % (r["rc"], r["SETPARAM"], len(r["PKT"]), a["n"], r["TIMEOUT_PHASE"])))
        else:
            usable.append((a, r))
    model_err = None
    streams, runs_model, dpb_out = [], [], []
    try:
        if usable:
            streams = G.parse_streams([r for _, r in usable])
            text = "".join("RUN %d %d 0 %d\n" % (a["cfg.intra_period_length"], a["cfg.intra_refresh_type"], a["n"]) for a, _ in usable)
            runs_model = [l.split() for l in C.run_model("intraperiod", text).strip().split("\n")]
            dl = []
            for s in streams:
                dl += dpb_lines(s)[0]
            dpb_raw = C.run_model("dpb", "\n".join(dl) + "\n").strip().split("\n")
            cur = None
            for l in dpb_raw:
                if l == "ok":
                    cur = []
                    dpb_out.append(cur)
                elif cur is not None:
                    cur.append(l.split())
    except (RuntimeError, C.BuildError) as e:
        model_err = str(e)[-1500:]

    oracle_fail = []    # (a, r, text)
    f12 = []
    corr_fail = []      # (a, text)
    cuts_total = cuts_ok = 0
    n_frames = n_pkts = 0
    hist = {"P": {}, "refresh": {}, "levels": {}, "overlays": 0, "key_frames": 0, "intra_only_frames": 0, "hidden_frames": 0,
            "show_existing_packets": 0, "recon_compared": 0, "suffix_pictures_compared": 0}
    distinct = set()

    def suffix_job(ar):
        a, r, cuts = ar
        return G.decode_suffixes(r, (a["w"], a["h"], a["bd"]), cuts)

    jobs = []
    per_case = []
    for si, (a, r) in enumerate(usable):
        if si >= len(streams) or si >= len(runs_model) or si >= len(dpb_out):
            break
        frames, shows, problems = G.frames_of(streams[si])
        keys = [i for i, s in enumerate(shows) if s["kind"] == "coded" and s["frame"].ftype == 0 and s["frame"].shown]
        cuts = sorted(set([0] + keys))
        if len(cuts) > (6 if quick else 12):     # first, last and a seeded selection of the key frames
            cuts = sorted(set([0, cuts[-1]] + chk.rng.shuffle(cuts[1:-1])[:(4 if quick else 10)]))
        per_case.append((a, r, frames, shows, problems, keys, cuts))
        jobs.append((a, r, cuts))
    sufs = C.run_parallel(suffix_job, jobs, workers=4)

    for si, (a, r, frames, shows, problems, keys, cuts) in enumerate(per_case):
        P, refresh, N, L = a["cfg.intra_period_length"], a["cfg.intra_refresh_type"], a["n"], a["cfg.hierarchical_levels"]
        tag = G.describe(a)
        n_pkts += N
        n_frames += len(frames)
        for hk, v in (("P", P), ("refresh", refresh), ("levels", L)):
            hist[hk][str(v)] = hist[hk].get(str(v), 0) + 1
        hist["overlays"] += 1 if a.get("cfg.enable_overlays") else 0
        hist["hidden_frames"] += sum(1 for f in frames if not f.shown)
        hist["show_existing_packets"] += sum(1 for s in shows if s["kind"] == "existing")
        for p in problems:
            oracle_fail.append((a, r, "bitstream structure: " + p))
        ft = [s["ftype"] for s in shows]
        hist["key_frames"] += ft.count(0)
        hist["intra_only_frames"] += ft.count(2)
        distinct.add((P, refresh, L, N, tuple(ft[:64])))
        # --- correspondence: display-order frame types vs IntraPeriod.run
        mr = runs_model[si]
        mft = [int(x) for x in mr[1:]] if mr and mr[0] == str(N) else None
        if mft is None or mft != ft:
            k = next((j for j in range(min(len(ft), len(mft or []))) if ft[j] != mft[j]), -1)
            corr_fail.append((a, "display-order frame types: real %s... model %s... (first difference at picture %d)" % (ft[:20], (mft or [])[:20], k)))
        # --- oracle: positions
        for k in range(len(ft)):
            want = (k == 0) if P < 0 else (k % (P + 1) == 0)
            intra = ft[k] in (0, 2)
            if intra != want:
                oracle_fail.append((a, r, "picture %d (display order) is %s (frame_type %s), expected %s for intra_period_length=%d" %
                                    (k, "intra" if intra else "not intra", ft[k], "intra" if want else "inter", P)))
                break
        for f in frames:     # no intra frame hiding anywhere else (non-shown frames included)
            want = (f.disp == 0) if P < 0 else (f.disp % (P + 1) == 0)
            if (f.ftype in (0, 2)) != want:
                oracle_fail.append((a, r, "coded frame %d (picture %d, show_frame=%d) has frame_type %d, expected %s" %
                                    (f.idx, f.disp, f.shown, f.ftype, "intra" if want else "inter")))
                break
        # --- oracle: IDR refresh => shown key frames
        if refresh == 2:
            for k in range(len(ft)):
                want = (k == 0) if P < 0 else (k % (P + 1) == 0)
                if not want:
                    continue
                s = shows[k]
                ok = s["kind"] == "coded" and s["frame"].ftype == 0 and s["frame"].shown
                if not ok:
                    text = ("IDR refresh: picture %d is not a shown key frame (frame_type %s, %s)" %
                            (k, s["ftype"], "show_existing" if s["kind"] == "existing" else "show_frame=1"))
                    if P == 0 and k >= 1 and s["ftype"] == 2:
                        f12.append((a, r, text))
                    else:
                        oracle_fail.append((a, r, text))
                    break
        if shows and not (shows[0]["kind"] == "coded" and shows[0]["frame"].ftype == 0):
            oracle_fail.append((a, r, "the first picture is not a shown key frame"))
        # --- DPB model on the real headers
        dl, pkt_hdrs = dpb_lines(streams[si])
        do = dpb_out[si]
        if len(do) != len(dl) - 1 or any(x and x[0] == "bad-op" for x in do):
            corr_fail.append((a, "svtmodel dpb: %d output lines for %d headers" % (len(do), len(dl) - 1)))
        else:
            # running header index -> coded frame (show-existing headers count in the driver's numbering)
            hdr_frame = {}
            it = iter(frames)
            n = 0
            for p in streams[si]:
                for h in p["frm"]:
                    if h.get("show_existing") != "1":
                        hdr_frame[n] = next(it, None)
                    n += 1
            rc_by_disp = {x["pts"]: x["crc"] for x in r["RECON"]} if a.get("recon") else {}
            full = sufs[si].get(0, {"out": []})["out"]
            last_key_hdr = None
            for k, idxs in enumerate(pkt_hdrs):
                outs = [do[j][0] for j in idxs if do[j][0] != "-"]
                if len(outs) != 1:
                    oracle_fail.append((a, r, "packet %d outputs %d pictures in the reference output process" % (k, len(outs))))
                    break
                f = hdr_frame.get(int(outs[0]))
                sf = shows[k]["frame"]
                if f is None or sf is None or f.idx != sf.idx:
                    corr_fail.append((a, "packet %d: dpb model outputs header %s, reconstruction says frame %s" % (k, outs[0], sf)))
                    break
                if rc_by_disp and k < len(full):
                    hist["recon_compared"] += 1
                    if rc_by_disp.get(f.disp) != full[k][1]:
                        oracle_fail.append((a, r, "packet %d: the real decoder's output is not the encoder's reconstruction of picture %d "
                                                  "(the frame the reference output process selects)" % (k, f.disp)))
                        break
                for j in idxs:
                    h = streams[si][k]["frm"][j - idxs[0]]
                    if h.get("show_existing") != "1" and h.get("frame_type") == "0" and h.get("show_frame") == "1":
                        last_key_hdr = j
                        if any(x != str(j) for x in do[j][1:9]):
                            corr_fail.append((a, "after shown key frame (header %d) the model's slots are %s" % (j, do[j][1:9])))
                    elif last_key_hdr is not None:
                        rd = [int(x) for x in do[j][9:16] if x not in ("-",)]
                        if any(x < last_key_hdr for x in rd):
                            oracle_fail.append((a, r, "header %d (packet %d) reads reference frames %s decoded before the last shown key frame (header %d)" %
                                                      (j, k, rd, last_key_hdr)))
        # --- random access on the REAL decoder
        sf = sufs[si]
        full = sf.get(0, {"out": [], "err": [], "n": None})
        if full["n"] != N or full["err"] or [x[2] for x in full["out"]] != list(range(N)):
            oracle_fail.append((a, r, "full decode: %s pictures for %d packets, errors %s" % (full["n"], N, full["err"][:2])))
        else:
            for k in cuts:
                if k == 0:
                    continue
                cuts_total += 1
                s = sf.get(k)
                want = [(x[1], x[2]) for x in full["out"][k:]]
                got = [(x[1], x[2]) for x in s["out"]]
                hist["suffix_pictures_compared"] += len(want)
                if s["err"] or s["n"] != N - k or got != want:
                    j = next((i for i in range(min(len(got), len(want))) if got[i] != want[i]), min(len(got), len(want)))
                    oracle_fail.append((a, r, "decoding from packet %d (shown key frame, picture %d): %s pictures (expected %d), decoder errors %s; "
                                              "first differing picture: display position %d" % (k, k, s["n"], N - k, s["err"][:2], k + j)))
                    break
                cuts_ok += 1
        if len(chk.cov["samples"]) < 4 and (keys[1:] or si == 0):
            chk.sample({"encode": tag, "display-order frame types[:24]": ft[:24], "shown key frames at packets": keys[:10], "suffix decodes compared from": cuts})

    # ---- 4. coverage
    chk.cov["evaluations"] = len(per_case) + unit["ops"]
    chk.cov["e2e_encodes"] = len(cs)
    chk.cov["phase_s"] = {"proofs+unit": round(t_unit, 1), "encodes": round(t_enc - t_unit, 1), "parse+decode+compare": round(time.time() - chk.t0 - t_enc, 1)}
    chk.cov["e2e_usable"] = len(per_case)
    if unusable:
        chk.cov["e2e_unusable"] = unusable[:10]
    chk.cov["e2e_packets"] = n_pkts
    chk.cov["e2e_frames_parsed"] = n_frames
    chk.cov["unit_ops"] = unit["ops"]
    chk.cov["unit_run_lines"] = unit["runs"]
    chk.cov["unit_pictures_in_runs"] = unit["pics"]
    chk.cov["unit_histogram"] = unit["hist"]
    chk.cov["keyframe_cuts_decoded"] = cuts_total
    chk.cov["keyframe_cuts_equal"] = cuts_ok
    chk.cov["distinct_nontrivial"] = len(distinct)
    chk.cov["rule"] = ("distinct_nontrivial = distinct (P, refresh, levels, N, display-order frame-type sequence) of REAL encodes whose frame types were "
                       "parsed from the packets and compared with the model and the property; unit ops are counted in evaluations only")
    chk.cov["e2e_histogram"] = hist
    chk.cov["disagreements_checked"] = len(per_case) + unit["ops"]
    if "sample" in unit:
        chk.sample(unit["sample"])
    chk.assumptions += [
        "no application-forced picture types (pic_type = EB_AV1_INVALID_PICTURE) in the end-to-end runs; scene_change_detection = 0 (non-zero is rejected by verify_settings)",
        "rate_control_mode = 0 end to end (all rc modes at unit level)",
        "random access is claimed for shown KEY frames only (CRA / INTRA_ONLY cut points are not claimed by the property)",
        "the only decoder available is SVT's own"]

    # ---- 5. verdict
    def rt(a, r, what):
        return "%s\nencode: %s\nreplay: bin/check C19 --replay <this file>\n%s\n" % (what, G.describe(a), "\n".join(G.obu_input(r)))

    if f12 or unit["f12"]:
        if f12:
            a, r, text = f12[0]
            body = rt(a, r, "intra_period_length = 0 with intra_refresh_type = 2 (IDR): every picture after the first is an INTRA_ONLY frame, not a key frame "
                            "(picture_decision_kernel sets cra_flag unconditionally in the `intra_period_length == 0` branch)\n%s\nencodes affected: %d; unit runs affected: %d"
                      % (text, len(f12), len(unit["f12"])))
        else:
            body = "unit level (real picture-decision code): %s\n%s\n" % unit["f12"][0]
        chk.violation(body, tag="f12", key=K_F12)
    if unit["oracle"]:
        op, text = unit["oracle"][0]
        chk.violation("C19 violated by the REAL picture-decision code at unit level\n%s\ninput line (generated intraperiod harness): %s\nfailing runs: %d\n" %
                      (text, op, len(unit["oracle"])), tag="unit")
    if oracle_fail:
        a, r, text = oracle_fail[0]
        chk.violation(rt(a, r, "C19 violated by the real encoder / decoder\n%s\nall failures of this encode: %s\nfailing encodes in this run: %d" %
                         (text, [t for a2, r2, t in oracle_fail if a2 is a][:5], len(set(id(x[0]) for x in oracle_fail)))))
    if not oracle_fail and not unit["oracle"]:
        if not pr.ok:
            chk.violation("proof obligations do not check:\n%s\nforbidden tokens: %s\nno real encode violates the property (%d encodes)\n" %
                          ("\n".join("%s: %s" % x for x in pr.failed.items()), pr.forbidden, len(per_case)), tag="proof", found_input=False)
        if unit_err or model_err:
            chk.violation("harness / model could not be run (the extraction anchors or the driver no longer match the tree): %s\n" % (unit_err or model_err),
                          tag="model", found_input=False)
        if unit["dis"]:
            op, c, m = unit["dis"][0]
            chk.violation("Lean intra-period automaton and the real code disagree (unit level); the C output satisfies the C19 oracle\nop: %s\nC    : %s\nmodel: %s\n"
                          "disagreeing ops: %d\n" % (op, c, m, len(unit["dis"])), tag="corr", found_input=False)
        if corr_fail:
            a, text = corr_fail[0]
            chk.violation("model and real encoder disagree; the real output satisfies the C19 oracle\nencode: %s\n%s\ndisagreements: %d\n" %
                          (G.describe(a), text, len(corr_fail)), tag="corr", found_input=False)
        if not per_case:
            chk.violation("no usable encode: %s\n" % unusable[:3], tag="enc", found_input=False)
        elif only is None and len(unusable) > len(cs) // 4:
            chk.violation("more than a quarter of the encodes were not usable (C03 territory: count / hang): %s\n" % unusable[:5], tag="enc", found_input=False)


def replay(chk, path):
    only = None
    for line in open(path):
        if line.startswith("encode: "):
            only = G.parse_describe(line[len("encode: "):])
            break
    run(chk, only=only)
