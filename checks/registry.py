"""Single source for MANIFEST.json: one entry per property (claimed or not).  `bin/mkmanifest` renders it.

CLAIMED[pid] = dict(category, text, note, technique, engine, design)
NOT_CLAIMED[pid] = reason
Every property of properties.jsonl must be in exactly one of the two.
"""

AX = "Lean 4.33 kernel; axioms propext/Classical.choice/Quot.sound only (audited by #print axioms every run; no native_decide, bv_decide, sorry, own axioms)"

CLAIMED = {}
NOT_CLAIMED = {}


PENDING_CLAIMS = {}


def claim_pending(pid, *a, **kw):
    """a finished check that currently raises an alarm on the unchanged tree and is being corrected: not claimed until it is quiet"""
    PENDING_CLAIMS[pid] = (a, kw)
    NOT_CLAIMED[pid] = ("check built (model, theorems, harness) but temporarily not claimed: its end-to-end sweep meets the encoder's run-to-run "
                        "nondeterminism with TPL at >= 2 logical processors (a genuine defect, DESIGN section 10) and is being restructured so that this "
                        "family is recorded as a known finding instead of raising a different alarm per seed")


def claim(pid, category, text, note, technique, engine, design=None):
    CLAIMED[pid] = dict(category=category, text=text, note=note, technique=technique, engine=engine,
                        design=design or "DESIGN.md section 5 %s" % pid)


claim("C02", "proof",
      "Framing layer proved in Lean for all values: LEB128 round trip and size (leb128_roundtrip, leb128_size_eq), the OBU size-field limit, "
      "parse(serialize obus) = obus for every well-formed OBU list (obu_frame_parse), and the temporal-unit structure of the encode_tu / "
      "encode_show_existing / count_frames_in_next_tu model (tu_structure, tu_from_queue, tu_bytes_parse): TD first, only non-shown frames before "
      "exactly one shown frame. The hand-written Lean OBU/sequence/frame-header parser is tied to the code by correspondence: every packet of a "
      "matrix of real encodes is parsed by Lean and by the real decoder's parser and ~70 header fields are compared; the property's own oracle "
      "(parse ok, TD first, exactly one displayed frame, sequence header repeated byte-identically with key frames, pic_type vs frame type) runs on "
      "the real packets. Every place where the encoder frames an OBU (5 sites: metadata, frame/frame-header, sequence header, the two temporal-delimiter "
      "writers) is re-translated from the clang AST on every run into Gen/ObuSites.lean (value whose leb128 length is reserved, value encoded, bytes moved, size "
      "accounted); site_layout_parses proves for ALL payload lengths that a consistent site lays out header ++ leb128 ++ payload which parses back to that OBU, "
      "all_sites_consistent discharges the consistency of the regenerated table, mismatched_reservation_iff / _breaks characterise the failure at the leb128 "
      "boundaries (127, 16383, ...). The check measures which boundary payload sizes (126/127/128) real frame OBUs actually hit (a boundary-directed family of tiny "
      "encodes runs until they do) and encodes one stream longer than the 2048-entry packetization queue (thorough: three more), every packet through the same oracle; "
      "the show-existing branch of packetization_kernel is also run as extracted text on real queue entries for > 3 x 2048 pictures.",
      AX + "; xlate/obusites.py (symbolic execution of the framing functions; refuses unknown shapes); hand-written models Model/{Leb128,Obu,Tu,Av1Header,ObuSite}.lean (transcribed from EbEntropyCoding.c / EbPacketizationProcess.c and AV1 spec 5.3-5.9) tied by "
      "correspondence on sampled real encodes; header *semantics* beyond the parsed fields and tile payloads are not modelled; two recorded findings (F13 pic_type enum, "
      "stream-header API mismatch).",
      "Lean 4 proof over a hand-written model + differential correspondence (Lean header parser vs real decoder parser on real packets)",
      "lean-correspondence")

claim("C12", "proof",
      "copy_api_from_app, verify_settings and their helpers are re-translated from the clang AST of EbEncHandle.c into Lean on every run (symbolic execution to a "
      "per-member normal form); accept_iff_codeDomain proves, for every prior handle state and every value of every configuration member, that the generated "
      "svt_av1_enc_set_parameter model accepts iff the hand-written CodeDomain holds (98 per-rule lemmas, no sampling). CodeDomain is the documented domain with the "
      "named documentation/code deviations (F10) made explicit; each deviation is proved on the model and replayed through the real API (KNOWN-FINDING lines). "
      "copy_in_bounds / copy_out_of_bounds_witness state exactly when the HME-array copies stay inside the arrays. The translator is validated each run by running "
      "model, spec and the REAL svt_av1_enc_set_parameter on boundary grids, pairwise grids and seeded random configurations.",
      AX + "; xlate/{config,cfun,cstate,symexec}.py (clang-14 JSON AST -> Lean; refuses unknown nodes; variable shift counts use CSem.shlRaw, proved equal after wrapping "
      "in Lemmas/Bits.lean); Spec/ConfigDomain.lean is a human transcription of Docs/svt-av1_encoder_user_guide.md + EbSvtAv1Enc.h; the manual prediction-structure "
      "validation loop is opaque (configurations with enable_manual_pred_struct != 0 are outside the model).",
      "Lean 4 proof over a model regenerated from C source (translator) + real-API replay",
      "lean-translator")

claim("C22", "proof",
      "The five order-hint distance helpers are re-translated from /repo's C source (clang AST) into Lean on every run; relDist_spec / relDist_true_distance are "
      "proved for all bits in 1..31 and all hints (no bound), so the signed-distance-modulo-period claim holds for every input; circular reorder-queue in-order "
      "emission (Lemmas/Reorder.lean) is proved for every stream length. The translator is validated each run by running generated Lean and the extracted C text "
      "on the same inputs.",
      AX + "; xlate/cfun.py translator (cross-checked by correspondence); C int modelled as 32-bit two's complement. Long-stream e2e behaviour (decode==recon beyond "
      "128/2048 frames) is exercised, not proved.",
      "Lean 4 proof over a model regenerated from C source + differential correspondence",
      "lean-translator")

claim("C23", "proof",
      "The System Resource Manager is modelled as a transition system at mutex granularity (Model/Srm.lean); srm_inv is proved by induction over arbitrary step "
      "sequences (= all interleavings, unbounded objects/fifos/threads) and yields no double hand-out (srm_no_double, srm_handout_exclusive), no loss (srm_no_loss), "
      "FIFO delivery (srm_fifo), no lost wake-up (srm_wake), release exactly on the last reference (srm_release_last, srm_second_release_noop, with the caveat theorem "
      "double_release_after_reuse), shutdown wakes consumers (srm_shutdown; negative: shutdown_misses_producers), and circbuf_refines_list for the array ring buffer. "
      "Tie: generated operation sequences (state-aware, plus malformed stream) run against the REAL EbSystemResourceManager.c in-process and the Lean model line by "
      "line, with shrinking; the model's step granularity is justified by the atomicity obligation srm_steps_atomic / srm_steps_shape / srm_access_inside_section "
      "over a lock/access table regenerated from the C source on every run (11 functions, 34 paths, ~4000 events: every access to live_count, release_enable, "
      "fifo and ring-buffer state happens inside the critical section of the mutex that the hand-written protection map assigns to it, and each path's critical "
      "sections are exactly the model's steps); plus real multi-threaded stress: producer/consumer, and races of every conflicting operation pair on one wrapper "
      "(free-running and under the seeded perturbation hook) with exact end-state oracles.",
      AX + "; hand-written model tied by correspondence on sampled op sequences; xlate/srmlocks.py translator (refuses unknown shapes); protection map and the "
      "one-entry allow-list (stores in svt_get_empty_object on a wrapper the thread has just unlinked) are hand-written and reviewed; pthread mutex/semaphore "
      "primitives assumed atomic and sequentially consistent; nested fifo sections inside a queue section argued by commutation, not mechanised; fair wake-up not "
      "assumed; callers must satisfy WellUsed (no stale release after re-hand-out).",
      "Lean 4 proof (invariant by induction over all interleavings) + differential correspondence with the real SRM",
      "lean-correspondence")

claim("C24", "proof",
      "enc_dec_segments_init, the SB loop of the EncDec kernel and assign_enc_dec_segments are modelled in Lean; for every picture/tile-group size and every "
      "segment grid within the uint16/uint8 ranges (InitOK), with no further hypothesis: every SB belongs to exactly one segment (seg_cover, seg_loop_exact), "
      "dependency counts are exact (dep_counts_exact), a segment starts only after its predecessors finished and at most once under every interleaving of workers "
      "(assign_safe, sched_safe), and every maximal execution completes all segments (init_live, assign_complete, sched_complete, assign_terminates). A picture one SB "
      "wide is a single segment (w1_single_segment) since the fix of finding F2 (before it such pictures with >= 2 segment rows hung: sched_stuck; the check reports "
      "any recurrence as a VIOLATION with the grid as replay). Tie: the real init arrays, the real SB loop and the REAL assign_enc_dec_segments "
      "(driven under a coroutine scheduler with seeded adversarial interleavings) are compared with the model exhaustively over W<=65,H<=34 and sampled beyond; "
      "the oracle requires every run to end quiescent with every SB processed exactly once.",
      AX + "; hand-written model tied by correspondence; each mutex-protected block is one atomic step; tile-group geometry feeding W,H and what happens inside an SB are not modelled.",
      "Lean 4 proof (all sizes, all interleavings) + exhaustive/differential correspondence with the real code",
      "lean-correspondence")

claim("C25", "proof",
      "The Daala range coder writer (EbBitstreamUnit.c), reader (EbDecBitstreamUnit.h) and both CDF adaptation functions are modelled in Lean; proved for every "
      "symbol sequence and every valid CDF: update_cdf_eq / update_cdf_valid, interval partition (partition, search_finds_symbol), dec_step_inverts_enc_step, "
      "ec_roundtrip_abstract, writer_refines_abstract, reader_refines_abstract, reader_init_refines, ec_roundtrip (reading the written bytes returns the written "
      "symbols and identical final CDFs) and tell_bounds_bytes. Tie: the real writer and reader are run on generated op sequences (all alphabet sizes, real default "
      "CDF tables, extreme CDFs, carry-propagation cases, exhaustive short sequences); the byte strings, symbols, CDFs and tell must equal the model's exactly.",
      AX + "; hand-written model tied by byte-exact correspondence; realloc failure paths of the writer are not modelled.",
      "Lean 4 proof (round trip for all sequences) + byte-exact differential correspondence with the real coder",
      "lean-correspondence")

claim("C13", "proof",
      "svt_svt_enc_init_parameter is re-translated from EbEncHandle.c on every run; members it does not assign keep the caller's value in the model, and the member "
      "list comes from the struct declaration. defaults_total proves the returned configuration is the same for every prior content of the caller's memory; "
      "every_member_assigned covers every member; defaults_accepted / accepted_whatever_the_prior_memory prove that the defaults plus any even size in 64..4096 x "
      "64..2160 are accepted with in-bounds copies; defaults_match_doc / doc_default_deviations tie 80 documented defaults to the code (6 deviations are recorded "
      "findings). Each run validates the tie: the REAL svt_av1_enc_init_handle on 0x00/0xFF/0x5A/0x01/random/left-over caller memory is dumped member by member "
      "and compared across fills and with the model; the real set_parameter is called on size grids; real 3-frame encodes are compared byte-wise across fills.",
      AX + "; xlate/config.py translator (validated against the real API each run); pred_struct contents opaque in the model (real bytes compared); documented "
      "defaults are a human transcription re-checked against the guide each run; struct padding is never read by the library (checked on the dump); e2e "
      "independence of prior memory is sampled, not proved.",
      "Lean 4 proof over a model regenerated from C source (translator) + real-API / real-encode replay",
      "lean-translator")

claim("C18", "proof",
      "The tail of rate_control_kernel (every branch that assigns base_q_idx / picture_qp) and the recode clamp are modelled with every upstream value "
      "universally quantified: baseQIdx_in_bounds / pictureQp_in_bounds / recode_in_bounds hold for all inputs with 0 <= min <= max <= 63; api_baseQIdx_in_bounds "
      "extends this to every configuration the generated set_parameter model accepts, over the EFFECTIVE bounds (1/63 in CQP, via effCfg_is_copyApi); "
      "fixed_offsets_spec / fixed_zero_offsets_exact / cqp_exact / on_the_fly_spec / min_eq_max_pins give exact values; pictureQp_consistent ties the packet qp to "
      "the header; q2q_strict_mono over the regenerated quantizer_to_qindex table. Tie: the verbatim tail and recode function (text-extracted from the current "
      "source) run on grids and random tuples against the model (all 8 branches), the assignment sites of base_q_idx are scanned, and real 1-pass, 2-pass and "
      "qp-file encodes have every frame header parsed by the Lean OBU parser: base_q_idx within the effective bounds and equal to the exact value where one is proved.",
      AX + "; Model/QpTail.lean is a transcription tied by correspondence; upstream rate-control functions are arbitrary inputs at unit level and real in the "
      "encodes; per-SB delta-q not covered; one recorded finding (enable_qp_scaling_flag ignored).",
      "Lean 4 proof over a hand-written model + generated copy_api/verify model + differential correspondence with extracted real code + header-level oracle on real encodes",
      "lean-correspondence")

claim("C14", "proof",
      "NULL-guard and lock tables of all 20 EB_API entry points (13 encoder, 7 decoder; 54 tracked pointers, 159 guard paths, 54 lock paths) are re-translated "
      "from the clang AST on every run; proved over the regenerated tables: guarded parameters never dereference NULL on any path (api_null_guarded, "
      "guard_criterion_exact), 15+ of them return a fixed error code (api_null_returns_error), every path is mutex-balanced (api_locks_balanced) and hence no call "
      "sequence ever blocks on a leftover mutex (api_no_mutex_left_held, no_call_blocks_on_leftover_mutex: induction over the call list), reject_then_accept for "
      "any number of rejections; negative theorems with witness paths for any pointer that is NOT guarded and for the pre-fix mutex leak (f3_leak_detected). "
      "Call-order behaviour is a hand-written protocol automaton tied by running seeded call sequences (valid walks + malformed stream with NULL arguments and "
      "wrong orders) against the real libraries in forked children under a watchdog; the property's oracle (every call returns; no crash, no block) runs on the real results.",
      AX + "; xlate/apitables.py (loops unrolled 0/1, external callees conservative, refuses goto / unknown nodes / mutex calls outside API functions); order "
      "automaton validated by correspondence only; the NULL dereferences (F7) and the mutex leak (F3) are repaired in /repo; 16 unchecked call orders remain recorded "
      "findings; back-pressure blocking inside send_picture and use of a dangling handle are outside the model.",
      "Lean 4 proof over tables regenerated from C source (translator) + differential correspondence in forked children",
      "lean-translator")

claim("C21", "proof",
      "copy_frame_buffer (8-bit row loop, 10-bit un_pack2d), pad_input_picture, generate_padding and pad_input_pictures are transcribed line by line; proved for "
      "all sizes, strides and buffer contents by induction over rows/columns: the closed form (plane8_is_edge_replication), dependence on the visible samples "
      "only for the padded region and for the whole buffer (copyin_depends_only_on_visible, copyin_whole_buffer, 10-bit variants, pipelineIn_depends_only_on_visible "
      "for the API geometry), the sharp spill bound (spill_witness), the exact in-bounds conditions of the copies with boundary witnesses, the uint16 stride "
      "truncation, and caller_buffer_not_retained. Tie: the extracted real copy/pad functions run on seeded pictures (all six allocations hashed and compared with "
      "the model; groups with equal visible samples but different strides / dirty padding must give identical real buffers), ASan boundary witnesses, and real "
      "encodes with stride / dirty-padding / scribble-after-send / guard-page variants whose packets must be byte-identical.",
      AX + "; hand-written model tied by correspondence; 4:2:0 only; strides < 65536; the compressed 10-bit branch is unreachable (rejected by verify_settings) and "
      "not modelled; SIMD un_pack2d compared, not modelled; stages after pad_input_pictures exercised e2e only; use-after-send is checked with guard pages; one "
      "recorded finding (last-row over-read of a tight caller plane).",
      "Lean 4 proof (all sizes/strides/contents) + whole-buffer differential correspondence with the real copy-in + real-encoder oracle",
      "lean-correspondence")

claim("C26", "proof",
      "The psnr_calculations loops (8-bit and unpacked 10-bit) are proved equal to the sum of squared differences over the unpadded window modulo 2^32, for all "
      "sizes, origins, strides and padding contents (sse_spec, sse_spec16, sse_window_only), with no 64-bit wrap (sse64_no_wrap) and the exact truncation "
      "condition (sse_exact_iff, sse_truncation_witness); the buffer choice is proved (pre-filter source; the same reconstruction recon_output uses: "
      "sse_buffer_choice, measured_recon_is_decoded_with_fix). Tie: the real function text is run against Lean and an independent spec on generated planes, and "
      "every packet of stat_report=1 real encodes is compared with the SSE between the submitted picture and the REAL decoder's output, recomputed by the Lean model.",
      AX + "; hand-written model; 'recon == decode' is property C01 and is checked empirically only; ten_bit_format=1 and the SSIM fields are not covered; e2e "
      "part is 8-bit; the CDEF-skipped-for-non-reference-pictures defect is repaired in /repo (725be6b); one recorded finding (overlay recon/decode mismatch, really C01).",
      "Lean 4 proof over a hand-written model + differential correspondence (extracted real function text) + real-encoder oracle against the real decoder",
      "lean-correspondence")

claim("C03", "proof",
      "The tail of packetization_kernel (reorder queue mod 2048, temporal-unit count, encode_tu, undisplayed-frame stack, EOS movement, release) and the "
      "pre-assignment buffer of picture_decision_kernel (release rule, delayed-intra hand-over, is_delayed_intra) are modelled in Lean. packetize_spec holds for "
      "all N >= 1, every GOP accepted by the decidable validGop and every arrival order inside the window: exactly N packets, k-th packet = pts of picture k, "
      "dts = pts, EOS on the last packet only, no slot overwritten; flush_complete / flush_complete_code: no picture is stranded at EOS for any N, levels or intra "
      "pattern; pts_descend_agrees / pts_descend_truncates delimit when the code's int-truncating sort is the model's sort; app_private_not_roundtripped refutes "
      "the private-pointer sub-claim (finding F14). Ties: text-extracted real C vs both models at unit level; real encodes (all N up to 3*minigop+2 per level, "
      "intra period, refresh type, look-ahead, overlays, non-contiguous pts, polling patterns) with the property oracle on the API output under a no-progress "
      "watchdog; the frame list rebuilt from the real bitstream is checked against validGop and run through the model, packet lists compared field by field.",
      AX + "; hand-written models tied by correspondence; av1_generate_rps_info, the mini-GOP split and qsort are constrained inputs, not modelled; pipeline "
      "liveness between picture decision and packetization is exercised, not proved; CQP only; eight recorded findings F14-F21 (the e2e sweep stays inside the "
      "region where the pinned encoder neither deadlocks nor crashes; fixed probes cover each finding).",
      "Lean 4 proof over hand-written models + differential correspondence (unit and end to end)",
      "lean-correspondence")

claim("C19", "proof",
      "The intra-period automaton of picture_decision_kernel and the AV1 reference-update/output process are modelled in Lean: intra_positions, frame_type_spec, "
      "intra_only_first and idr_refresh_key hold for all stream lengths (the P = 0 & IDR exception is proved in the negative: finding F12); "
      "keyframe_random_access holds for any reconstruction function and any prior DPB contents. Ties: the verbatim-extracted picture-decision code vs the automaton "
      "(P from -1 to 2^31-1, all refresh types and rate-control modes); frame types parsed from real packets by the Lean OBU parser vs the automaton and the property "
      "over P x refresh x levels; headers run through the DPB model and matched to real decoder output and encoder recon; every sampled shown key frame is "
      "suffix-decoded by the real decoder and byte-compared with the tail of the full decode.",
      AX + "; the picture_type choice (EbPictureDecisionProcess.c:4899-4938) is tied end to end only; random access is claimed for shown KEY frames; the only "
      "decoder available is SVT's own; CQP end to end; one recorded finding (F12); sweep restricted to the live region defined by the C03 findings.",
      "Lean 4 proof over hand-written models + differential correspondence",
      "lean-correspondence")

claim("C06", "other",
      "Proved over the dispatch tables regenerated from common_dsp_rtcd.c / aom_dsp_rtcd.c on every run (781 entries, 800 SIMD slots; 905 with AVX-512 enabled): "
      "select = SET_FUNCTIONS semantics (select_mem), C-only at flags 0 (flags0_selects_c), every entry has a C fallback (dispatch_c_present, one reviewed "
      "exception proved guarded), a function registered in a slot only uses that slot's ISA by name (dispatch_slot_sound, two reviewed naming exceptions), slots "
      "sorted, the use_cpu_flags mask is applied (mask_applied, masked_select_on_hw, selected_isa_enabled), and the congruence output_indep_of_flags whose "
      "hypothesis KernelsBitExact is property C07. Tie: the real setup_*_rtcd_internal vs the model pointer by pointer over 36 (thorough 92) flag sets. The "
      "property's own oracle: real encodes over six use_cpu_flags masks x content x bit depth x presets x sizes must be byte-identical (packets + recon).",
      AX + "; finite tables discharged by decide +kernel; xlate/rtcd.py parses the gcc -E expansion and refuses unknown statement shapes (validated each run against "
      "the real setup functions); Spec/DispatchAllow.lean holds three reviewed exceptions with reasons; byte-identity across instruction sets is SAMPLED on real "
      "encodes, not proved (it rests on C07, which is proved for five kernels only); direct SIMD calls outside the table and AVX-512 builds are covered at table level only.",
      "Lean 4 proof over tables regenerated from C source (translator) + whole-encoder differential over use_cpu_flags",
      "lean-translator")

claim("C07", "other",
      "Proved in Lean at lane level, for all widths/heights of the kernel's table, all strides and all sample values (no bounded search, no bv_decide): "
      "svt_residual_kernel8bit c = avx2 (all six widths; width 8 needs residual_stride >= 8, witness otherwise), svt_picture_average_kernel / _kernel1_line c = sse2 "
      "(width 12 and odd heights proved to differ: no callers), svt_full_distortion_kernel_cbf_zero32_bits c = avx2, and svt_full_distortion_kernel32_bits c vs "
      "avx2 characterised exactly (prediction term equal for all inputs; residual term equal iff no lane carry: fullDist32_eq_iff_noCarry, with divergence "
      "witnesses = a recorded finding). Intrinsic models are validated against the hardware each run. The other kernels are SAMPLED: a generic harness drives 767 "
      "of 781 dispatch entries (799 of 800 SIMD slots called by name) on boundary/extreme/random buffers inside hand-written domains and compares every SIMD "
      "variant with the C reference; the 14 entries not exercised are listed by name in the evidence.",
      AX + "; intrinsic lane models and hand transcriptions of the five kernels are tied by correspondence (0 mismatches incl. all op lines where real C and real "
      "AVX2 differ); for 762 entries bit-exactness is sampled only; four recorded findings (three genuine SIMD != C defects, one benign return value).",
      "Lean 4 proof for listed kernels + differential harness over the dispatch table",
      "lean-correspondence")

claim("C15", "proof",
      "Over ctor/dctor tables regenerated from the source on every run (81 classes found, 80 translated, 1 reviewed exception): dctor_releases_all / "
      "created_subset_released / no_double_release / raw_releases_once hold at ANY construction point for every class in the good set (72 classes; the others carry "
      "machine-checked witnesses); on the SRM model of C23: shutdown_wakes_consumers, and kernel_exits_on_shutdown + shutdown_list_matches_kernels over the generated "
      "table of the 16 kernels vs the 16 resources svt_av1_enc_deinit shuts down. The liveness half of the property is FALSE and stated: shutdown_misses_producers, "
      "kernels_block_on_empty (15 of 16 kernels call svt_get_empty_object) - finding F6. Tie: harness/teardown.c tears the REAL encoder and decoder down at every "
      "protocol point (after handle creation, rejected/accepted config, init, k sends with j packets fetched, EOS drain, mid-stream) under a watchdog, counting "
      "live heap blocks (linker --wrap) and threads.",
      AX + "; xlate/lifecycle.py is syntactic (member-name matching; no aliasing; ownership flags not evaluated); decoder side is runtime-only; OS-level release "
      "is observed through block/thread counts only; recorded findings: mid-stream deinit hang (F6), unfetched-packet leak, NULL-config leak, decoder MT sync-object leak.",
      "Lean 4 proof over tables regenerated from C source + teardown-point harness on the real libraries",
      "lean-translator")

claim("C16", "proof",
      "EB_NEW / EB_MALLOC* / EB_CREATE_* / EB_DELETE semantics are modelled in Lean (Model/Unwind.lean); unwind_no_leak_any / unwind_no_leak: for ANY class table "
      "meeting three decidable obligations (dctor assigned first, created subset released, releases NULL-tolerant), any failure index k and any constructor path, "
      "construction returns an error with an empty heap or succeeds - never a crash or a leak (induction over event lists and class nesting); failure_reported; "
      "the obligations are evaluated on the table regenerated from the source every run (generated_good, generated_unwind_no_leak, generated_failure_reported), "
      "failing classes carry machine-checked witnesses (bad_classes_witnessed) and coincide with the translator's list (bad_classes_agree, swallowers_agree). Tie: "
      "the guarded fail-the-k-th hook + harness/faultinj.c on REAL encoder and decoder sessions (~100k allocation sites counted; quick 260 + every decoder k; "
      "thorough 2900 encoder + all decoder k; every fault fired), with the live-block/thread count as leak oracle and site agreement with the model: the five "
      "destructors the model flags are exactly the ones that crash under real fault injection (one since repaired).",
      AX + "; syntactic translator (no aliasing, counts/ownership flags not evaluated); 94 raw malloc-family calls outside the macros are not failed; "
      "whole-library behaviour is sampled per failure index, not proved; 21 recorded findings (4 encoder destructors that crash on partial objects, 1 leak, 4 "
      "swallowed error codes, 12 decoder sites: the decoder handles no allocation failure).",
      "Lean 4 proof (generic unwinding theorem + obligations over tables regenerated from C source) + fault injection on the real libraries",
      "lean-translator")

claim("C10", "other",
      "Byte-level OBU framing contract of the decoder, proved in Lean over a byte-accurate hand-written model (svt_av1_dec_frame, decode_multiple_obu, "
      "dec_bits_init, GET_BITS, read_obu_header/size, leb128) in which every load is recorded and size_t arithmetic is explicit: for the code /repo HEAD "
      "carries (repairs d275934, 9d9bd69, b7f2870, 005adc2, 22460a9, detected in the source by tree_flags) every framing-layer load is below data_size, "
      "no size_t wraps, no uninitialised size is read and svt_av1_dec_frame returns, for all inputs and whatever the payload parsers do "
      "(obu_walk_reads_in_bounds_fixed, walk_terminates_fixed, walk_progress, leb128_decode_bounds); for the code before the repairs the exact side conditions and "
      "concrete witnesses of the nine repaired defects (a reverted repair switches the model variant and the defect returns as a VIOLATION with its input). Model "
      "and real decoder (ASan+UBSan, guarded per-OBU trace hook) are compared on seed-driven EXPLORATION inputs that the model proves stay inside the framing layer "
      "(trace, calls, highest load, outcome) and on a committed REGRESSION CORPUS (corpus/c10, 2016 inputs, independent of VERIF_SEED) that enters the payload "
      "parsers. Everything below the framing layer is exercised by that corpus only, not proved.",
      AX + "; Model/ObuWalk.lean is a hand transcription tied by correspondence (~1.3 k inputs quick, ~5.9 k thorough, 0 disagreements); payload parsers opaque "
      "(outcome per OBU from the real run; obu_header.payload_size as modified by them is outside the model: counted and skipped); UBSan alignment check off; "
      "ASan sees loads only near red zones; below the framing layer 27 recorded sanitizer/assert sites (F9b) and the Debug seen_frame_header assert remain - "
      "new seeds are deliberately kept out of that code (the decoder is known to be fragile there and each new crash site would be a new, unlisted genuine "
      "finding), so the check says nothing about further defects there.",
      "Lean 4 proof over a hand-written model + differential correspondence with the real decoder + fixed sanitizer regression corpus",
      "lean-correspondence")

claim("C05", "proof",
      "load_default_buffer_configuration_settings and set_parent_pcs are re-translated from the clang AST on every run (SSA symbolic execution, cut at core_count). "
      "Proved for all input values and all processor counts: only the 46 members of the hand-written, tight parallelGeometry list can depend on core_count "
      "(core_count_only_affects_geometry: semantic non-interference; parallelGeometry_tight); logical_processors and target_socket enter only through coreCount and "
      "unpin is not read (bufCfg_factors, processor_settings_not_read_after_coreCount, unpin_not_read); every segment grid is at least 1x1 for every core count "
      "(enc_dec_segments_pos: discharges C24's premise for every thread count), every stage has at least one worker, pools are at least the function's own minima, "
      "the error return is dead. All 129 accesses to those members elsewhere in Source/Lib/Encoder are in a reviewed classified allow-list "
      "(geometry_reads_classified; the three coding-decision reads are pinned). Tie: the REAL function vs the model on 5.6k (thorough 76k) inputs, all 79 written "
      "members compared; the property's oracle: the REAL encoder swept over logical_processors 1,2,3,4,8,16 x unpin x target_socket, packets + recon byte-compared.",
      AX + "; xlate/bufcfg.py + cfun.py (cross-checked by correspondence); NOT proved: that coding is independent of the parallelGeometry members (hypothesis "
      "H-noread + C24/C23/C04) - the scan is textual and does not follow copies; the e2e sweep is a sample on a 16-processor, 1-group host; Windows branches not "
      "translated; three recorded findings (pic_based_rate_est lp-1-only, rate control thread-dependent, rare nondeterminism at fixed threads with TPL).",
      "Lean 4 proof over a model regenerated from C source (translator) + differential correspondence + real-encoder thread sweep",
      "lean-translator")

claim("C17", "other",
      "Inventory of every run-time writable object with static storage duration in both libraries, regenerated every run from the linked objects (readelf) with "
      "writers from an LLVM-IR taint pass over all translation units (978 globals); a reviewed classification is checked in the kernel (globals_classified, "
      "harmful_globals_exact: 152 constants, 7 locked counters, 780 RTCD pointers + 39 named harmful globals; a new global or a new writer fails it); "
      "noninterference / noninterference_n / noninterference_of_agreement are proved for all traces, interleavings and any number of instances of the model; "
      "noninterference_fails_with + 9 instances show the hypothesis is necessary; library_is_not_interference_free states that it FAILS for the current tree. "
      "harness/multi.c runs pairs/triples of REAL encoder/decoder instances in one process (presets, bit depth, cpu flags, thread counts, staggered life cycles, "
      "perturbation, init storms) against solo runs; four recorded findings are reproduced by minimal scenarios each run; any other difference, crash or hang is a VIOLATION.",
      AX + "; xlate/globals.py (writes through escaped addresses not followed; NASM objects listed, not analysed); Spec/GlobalsClass.lean is hand-reviewed; "
      "sequentially consistent atomic steps; whole-library non-interference is NOT proved (its hypothesis is false on this tree) - it is decided per harmful global "
      "by sampled real runs; races not hit in the runs are not detected; decoder instances single-threaded; solo nondeterminism handled by comparing with the set of "
      "solo outputs; the SCHED_FIFO side effect of init_handle is invisible because checks drop CAP_SYS_NICE.",
      "Lean 4 proof over a generic model + kernel-checked classification of a regenerated inventory (translator) + real multi-instance runs vs solo",
      "lean-translator")

claim("C04", "other",
      "Protocol theorems, for every size, thread count and interleaving: dag_confluence / dag_equals_sequential / dag_progress for arbitrary task DAGs whose bodies "
      "read only completed ancestors; instantiated for EncDec segments through the C24 model (encdec_guard_enforced, encdec_confluence, encdec_terminates) and for the "
      "dependency-free segment grids (independent_grid_confluence, last_one_fires_once); handshake_no_lost_wakeup for the cond-var protocol (8-pc transition "
      "system, spurious wake-ups, any number of setters/waiters, no fairness needed); reorder_inorder (C22) and srm_fifo (C23) re-exported; "
      "network_output_deterministic / determinism_under_footprint: a Kahn network of deterministic stages with bounded FIFO capacities has one complete history, "
      "under the NAMED hypothesis H-footprint (kernel bodies touch shared state only as the task model says), with footprint_needed as counterexample. The "
      "property's oracle: each configuration of the REAL encoder is run at logical_processors=1 and under K seeded schedule perturbations (quick K=4, thorough "
      "K=24) and packets + recon are byte-compared.",
      AX + "; H-footprint is NOT proved: determinism of the real encoder is sampled; sequentially consistent atomic steps; the Wavefront/CondVar/Counter/Kahn models "
      "are abstract and tied to the code only through C23/C24 and the sweep; the main sweep runs with enable_tpl_la=0 and CQP; TPL-on and rate-control "
      "configurations are labelled families whose differences are classified by a differential test (does the setting differ from itself? does the difference vanish "
      "with the knob off?) and reported as the two recorded findings: a race in the TPL look-ahead path at >= 2 logical processors, and schedule-dependent rate control.",
      "Lean 4 protocol proofs for all interleavings + differential execution of the real encoder under seeded schedule perturbation and thread-count change",
      "lean-correspondence")

claim("C27", "other",
      "From the SRM model (C23): nonblocking_never_blocks, nonblocking_token_stable, nonblocking_returns_iff_available, idempotent_registration; from the Kahn "
      "network model: output_indep_of_polling under the NAMED hypothesis H-kahn (no library code branches on emptiness of an application-facing queue or on time), "
      "with hkahn_needed as counterexample; hkahn_syntactic: a table of the callers of the non-blocking getters and of every clock read in the encoder library "
      "(regenerated by a source scan each run) lies within a reviewed allow-list (decide); pool_sufficient_partial for an ABSTRACT linear chain (per-stage demands "
      "are not instantiated from the code) and no_drain_deadlocks as the negative case. The property's oracle: a call-pattern sweep on the REAL encoder (drain "
      "after every send / every k / only at end / random polling with delays; recon on/off; blocking vs non-blocking final drain) - drain-after-each-send must "
      "complete, completing patterns must be byte-identical.",
      AX + "; H-kahn is a hypothesis; progress with the real bounded pools is NOT proved; regex scanner + reviewed allow-list; CQP and speed_control_flag=0 only; "
      "the main sweep runs with enable_tpl_la=0; recorded findings: the blocking final get_packet deadlocks against the recon pool (genuine), and the TPL nondeterminism "
      "family seen through the call-pattern sweep.",
      "Lean 4 proofs + syntactic H-kahn table regenerated from the source + call-pattern sweep on the real encoder",
      "lean-correspondence")

claim("C20", "other",
      "Model/ToolGate.lean transcribes (file:line) the chain configuration member -> derived signal -> sequence/frame header bit and MD-level block gate for 16 tool "
      "switches, plus set_tile_info/write_tile_info. Proved for all presets, picture kinds and search results: switch OFF => header bit OFF (tool_off_flag_off_*), the "
      "AV1 block syntax has no element for a tool whose flag is 0 (flag_off_block_off, tool_off_block_off), CfL and palette-alone have no header gate "
      "(cfl_has_no_header_gate, palette_off_not_visible_in_headers); for all frame/SB sizes and requests the signalled tile log2 is the request clamped to the AV1 "
      "5.9.15 limits, count in (2^(k-1),2^k], tiles non-empty and covering (tile_info_spec, tile_requested_used, api_sizes_need_no_minimum_tiling). Ties: every header "
      "of real encodes (switch x preset x screen-content mode x content that would pick the tool) goes through the property oracle and is compared with the model's "
      "prediction for OFF/ON/DEFAULT; the real decoder's guarded per-block counters must be 0 for a switched-off tool; 'all on' runs record that each counter is "
      "non-zero when the tool is on.",
      AX + "; the lemmas are about a hand transcription: a derivation site it missed is only caught by the sampled real-encode oracle and the decoder counters (guarded "
      "hook in EbDecParseBlock.c); global-motion use has no block counter; search results, temporal layer and reference flag are opaque model inputs; 8-bit CQP, "
      "default prediction structure; the only decoder is SVT's own.",
      "Lean 4 proof over a hand-written model + real-encoder oracle (Lean header parser, instrumented real decoder)",
      "lean-correspondence")

claim("C11", "other",
      "Proved in Lean for all sizes: padding arithmetic of set_param_based_on_input for every size the translated validator accepts (pad_spec, pad_least, "
      "accepted_cfg_size); the recon output buffer fits the three planes recon_output writes, with no 32-bit intermediate wrap (recon_sizes_fit, "
      "recon_copy_within_increment); the per-picture bitstream buffers are two constants, both copies into them are unchecked and overflow exactly when the coded size "
      "exceeds them, and the raw picture already exceeds them for accepted configurations (bitbuf_not_bounded, stop_encode_unchecked, append_tiles_in_bounds_iff; real "
      "replay 1280x720 10-bit noise qp 0 -> heap overflow); copy_api_from_app writes out of bounds for some accepted configurations (re-export of C12); liveness pieces "
      "re-exported from C24/C23/C03. Memory safety / UB / termination of the encoder AS A WHOLE is NOT proved: it is exercised on a fixed matrix of 12 (thorough 32x2) "
      "accepted configurations under ASan + recoverable UBSan with watchdogs; the 27 defect sites it meets are recorded findings and anything else is a VIOLATION.",
      AX + "; models are hand transcriptions tied by harness/c11_units.c (real functions + extracted statement text over every accepted width and height); "
      "recon_ptr->max_width = padded width is read off the code; UBSan alignment check off and recoverable; arithmetic-UB sites outside the listed functions fall under "
      "one family key; configuration families that hang or crash for other recorded reasons (C03 findings) are kept out of the matrix; decode=0 (decoder is C10's).",
      "Lean 4 proof over hand-written models + real-code unit correspondence + ASan/UBSan implementation oracle on a fixed matrix",
      "lean-correspondence")

claim("C09", "proof",
      "The row-wavefront protocol of tile reconstruction / loop filter / CDEF / loop restoration in the decoder is modelled at scheduling-point granularity "
      "(Model/DecWavefront.lean). For all sizes W,H >= 1, any number of workers and every interleaving: the spin tests really wait for the upper-right neighbour "
      "(pass_sound, for all four stages and every width since the CDEF repair c7d082d; pass_live), when an SB starts its whole wavefront cone has finished "
      "(decwf_safe_cone, decwf_safe), every SB is processed exactly once in a cone-respecting order (decwf_once, decwf_order), no deadlock relative to the row gates "
      "and termination within H(2W+6)+2n steps (decwf_deadlock_free, decwf_measure, decwf_terminates, decwf_complete), the row-map implications between stages "
      "(stage_order_lf/_cdef/_lr, rows_below_complete), and dag_confluence => equality with the single-thread result under the NAMED hypothesis H-footprint "
      "(decwf_eq_single_thread). cdef_before_lf_save_race exhibits, in the model, the gap behind the recorded loop-restoration findings. Ties: the extracted real "
      "decode_tile / decode_tile_row / decode_frame_tiles text runs under an adversarial coroutine scheduler and every schedule is replayed through the model "
      "(0 disagreements); the real decoder is compared across threads {1,2,3,4,8,16} x perturbation seeds against its single-thread output.",
      AX + "; hand transcription (recon tied by extracted-code replay; LF/CDEF/LR by verbatim fragments); sequentially consistent memory - the volatile spin-waits are "
      "C11 data races, not decidable here; thread hand-over between stages and frame-level deadlock freedom (frame_deadlock_free_partial) are exercised, not fully "
      "proved; equality with single-thread is conditional on H-footprint; the double free at teardown and the missing CDEF row wait for 1-SB-wide pictures are repaired "
      "in /repo; two recorded findings in multi-threaded loop restoration (fix patches proposed in hooks/, not applied): until they land the MT LR stage is exercised "
      "only by labelled probes.",
      "Lean 4 proof (all sizes, all interleavings) over a hand-written model + replay of extracted real control code under an adversarial scheduler + real-decoder thread/schedule differential",
      "lean-correspondence")

claim("C01", "other",
      "The frame-level protocol is proved for all streams (Props/C01.lean): recon_eq_decode - the decoder-side and encoder-side DPB machines produce equal outputs "
      "at every position and equal final DPBs, by induction, under the NAMED hypotheses H-recon (per-frame reconstruction functions agree), H-syntax (headers parse to "
      "what was written) and H-key; dec_output_order / dec_output_positions / output_is_a_reconstruction (what licenses matching by display position), "
      "dpb_refresh_spec, show_existing_key_refreshes_all. The property's oracle: real encodes (47 quick / 157 thorough configurations drawn from the accepted domain: "
      "presets, bit depth, tiles, rate control, film grain, GOP structures, sizes incl. 64-wide/portrait/non-multiples of 8) are decoded by the real SVT decoder and "
      "compared byte for byte with the encoder's recon by display position; the Lean header parser + DPB machine are checked against the real decoder's output list, "
      "pts and order hints.",
      AX + "; H-recon and H-syntax (megabytes of pixel code) are exercised on sampled inputs only, never proved; no third-party AV1 decoder exists in the sandbox: "
      "'independent decoder' = SVT's own decoder + the Lean header/DPB model; 2-pass not covered; 11 recorded finding families (overlays, super-resolution, 16-bit "
      "pipeline with 8-bit input, segmentation at low qp, film grain at low thread counts, several hangs/crashes of specific configuration families); the random part of "
      "the matrix stays outside those families (asserted).",
      "Lean 4 proof of the frame-level protocol + real encoder/decoder differential by display position",
      "lean-correspondence")

claim("C08", "other",
      "Proved on the DPB model: pipelines_agree (decoder configuration can only act through the per-frame reconstruction function), dec_output_count / "
      "dec_output_order / dpb_refresh_spec / shown_key_refreshes_all / show_existing_key_refreshes_all / output_is_a_reconstruction, and the film-grain random-seed "
      "update rule never yields 0 (film_grain_seed_never_zero, for every n). On real streams the real decoder is compared with the encoder's recon, the 16-bit with the "
      "8-bit pipeline, 4 threads with 1, film grain applied with skipped (a picture changes iff its header has apply_grain), and its output list with the Lean DPB model.",
      AX + "; there is NO reference decoder in the sandbox: sample-level correctness against other AV1 decoders is not decided at all - only consistency with SVT's own "
      "encoder and between the decoder's own pipelines/thread counts; only SVT-produced streams; the film-grain seed rule is tied by a source-text check only; recorded "
      "findings (the multi-threading ones belong to C09).",
      "Lean 4 proof over the DPB model + real-decoder self-consistency differential (pipelines, threads, grain) and against encoder recon",
      "lean-correspondence")

_PENDING = ("check under construction (model planned in DESIGN.md section 5); not claimed until its theorem and correspondence run exist "
            "and pass on the unchanged tree")
for _p in []:
    NOT_CLAIMED[_p] = _PENDING


# Thorough tiers that exist in the check (`bin/check Cxx --tier thorough`) but were NOT re-validated end to end on the final tree of this round
# (their matrices were restructured late, or an earlier thorough run met a hang that has since been routed): not registered as thorough_cmd
# until a complete clean run exists.  The quick tier of each is validated (several seeds, vp check).
NO_THOROUGH = ("C04", "C08", "C27")
