"""C14 — API calls in any order return error codes instead of crashing or blocking.

(1) regenerate the NULL-guard / lock tables from EbEncHandle.c and EbDecHandle.c (xlate/apitables.py),
(2) proofs on the regenerated tables (Props/C14.lean),
(3) call sequences (fixed corpus covering every NULL argument / wrong order once, plus seeded walks over the protocol
    automaton and a malformed stream) are run by harness/apiseq.c against the REAL libraries, each in a forked child
    with a watchdog, and by `svtmodel apiproto` (the Lean automaton that consults the generated tables),
(4) the property's own oracle on the real results: every sequence must return -- no signal, no watchdog -- except
    the documented blocking packet wait.  A real crash/block at a call the automaton marks `undef:<tag>` is reported
    under the stable key derived from the tag (known_findings.txt decides finding vs violation); any other crash or
    block, and any block predicted from a mutex left held (F3), is a VIOLATION with the sequence as replay.
"""
import os
import re
import subprocess
import sys
import time
from concurrent.futures import ThreadPoolExecutor
from . import common as C

sys.path.insert(0, os.path.join(C.VERIF, "xlate"))
LEVEL = "proof"
MODULE = "SvtVerif.Props.C14"
WATCHDOG = 25            # seconds per sequence (a typical full encoder sequence takes 0.3 - 2 s on a quiet machine)
CONFIRM_WATCHDOG = 300   # a watchdog hit that is neither a listed finding nor the documented wait is re-run alone with this one
NPROC = 4

# ----------------------------------------------------------------------------- fixed corpus
ENC_UP = "init_handle; set_param valid; enc_init"
CORPUS = [
    # nominal life cycles
    ENC_UP + "; stream_header; stream_header_release; send 3; get_packet nb; send_eos; drain; get_recon; deinit; deinit_handle",
    "init_handle; set_param invalid 0; set_param valid; enc_init; send 2; send_eos; drain; deinit; deinit_handle",
    "init_handle; set_param invalid 1; set_param invalid 2; set_param invalid 3; set_param valid; set_param valid; deinit_handle",
    "init_handle; set_param invalid 4; set_param invalid 5; set_param valid; get_stream_info; stream_header; stream_header_release; deinit; deinit_handle",
    ENC_UP + "; send 2; send_eos; get_packet blocking; release_out_buffer; get_packet blocking; release_out_buffer; get_packet nb; deinit; deinit_handle",
    ENC_UP + "; eos_nal; get_stream_info; get_stream_info_badid; stream_header; stream_header_release; stream_header_release; deinit; deinit_handle",
    ENC_UP + "; send_eos; deinit; deinit_handle",
    "dec_init_handle; dec_set_param valid; dec_init; dec_frame; dec_get_picture; dec_frame; dec_get_picture; dec_frame; dec_get_picture; dec_deinit; dec_deinit_handle",
    "dec_init_handle; dec_set_param valid; dec_init; dec_get_picture; dec_frame; dec_get_picture_nullinfo; dec_set_param valid; dec_frame; dec_deinit; dec_deinit_handle",
    "dec_init_handle_nullcfg; dec_set_param valid; dec_init; dec_frame; dec_get_picture; dec_deinit; dec_deinit_handle",
    # every entry point without a handle (NULL handle)
    "init_handle_null", "init_handle_nullcfg", "init_handle_nullcfg; set_param valid", "set_param valid", "set_param null", "enc_init",
    "stream_header", "stream_header_nullout", "stream_header_release", "send 1", "send_null", "send_eos", "get_packet nb", "get_packet blocking",
    "get_packet_nullout", "release_out_buffer", "release_null", "get_recon", "get_recon_nullbuf", "get_stream_info", "get_stream_info_nullinfo",
    "get_stream_info_badid", "eos_nal", "deinit", "deinit_handle", "drain",
    "dec_init_handle_null", "dec_set_param valid", "dec_set_param null", "dec_init", "dec_frame", "dec_frame_nulldata_n", "dec_get_picture",
    "dec_get_picture_nullbuf", "dec_deinit", "dec_deinit_handle",
    # NULL handle although one exists; NULL other arguments with a live handle
    ENC_UP + "; set_param_nullh valid; enc_init_nullh; stream_header_nullh; deinit_nullh; deinit_handle_nullh; eos_nal_nullh; send_nullh",
    ENC_UP + "; get_packet_nullh", ENC_UP + "; get_recon_nullh", ENC_UP + "; get_stream_info_nullh",
    "init_handle; set_param null", "init_handle; set_param valid; set_param null", "init_handle; stream_header_nullout",
    "init_handle; get_stream_info_nullinfo", "init_handle; release_out_buffer", "init_handle; release_nullp", "init_handle; release_null",
    "init_handle; stream_header_release_null; stream_header_release",
    ENC_UP + "; send_null; send 2; deinit; deinit_handle",
    ENC_UP + "; send 3; send_eos; get_packet blocking; release_out_buffer; sleep 1500; get_packet_nullout",
    ENC_UP + "; send 3; send_eos; get_packet blocking; release_out_buffer; sleep 1500; get_recon_nullbuf",
    ENC_UP + "; send 2; send_eos; get_packet blocking; release_out_buffer; release_out_buffer",
    "dec_init_handle; dec_set_param null; dec_set_param_nullh valid; dec_init_nullh; dec_frame_nullh; dec_get_picture_nullh; dec_deinit_nullh; dec_deinit_handle_nullh; dec_deinit_handle",
    "dec_init_handle; dec_set_param valid; dec_init; dec_frame_nulldata; dec_frame_nulldata_n",
    "dec_init_handle; dec_set_param valid; dec_init; dec_frame; dec_get_picture_nullbuf",
    # wrong orders
    "init_handle; enc_init", "init_handle; set_param invalid 0; enc_init", "init_handle; set_param valid; set_param invalid 2; enc_init",
    "init_handle; send 1", "init_handle; set_param valid; send_eos", "init_handle; get_packet nb", "init_handle; set_param valid; get_packet blocking",
    "init_handle; get_recon", "init_handle; set_param valid; get_recon", "init_handle; set_param invalid 2; stream_header",
    "init_handle; deinit; deinit; deinit_handle; deinit_handle", "init_handle; init_handle; deinit_handle",
    ENC_UP + "; enc_init; deinit; deinit_handle", ENC_UP + "; set_param valid; send 2; send_eos; drain; deinit; deinit_handle",
    ENC_UP + "; set_param invalid 0; send 2; send_eos; drain; deinit; deinit_handle",
    ENC_UP + "; send 2; send_eos; drain; send 1; get_packet nb; deinit; deinit_handle",
    ENC_UP + "; send 3; send_eos; get_packet blocking; deinit; deinit_handle",
    ENC_UP + "; send 2; deinit; deinit_handle", ENC_UP + "; deinit_handle",
    ENC_UP + "; deinit; send 1; get_packet nb; get_recon; deinit_handle", ENC_UP + "; deinit; enc_init; send 1; send_eos; drain; deinit; deinit_handle",
    ENC_UP + "; deinit; deinit; deinit_handle",
    "dec_init_handle; dec_deinit", "dec_init_handle; dec_init; dec_deinit", "dec_init_handle; dec_set_param valid; dec_init; dec_deinit; dec_deinit_handle", "dec_init_handle; dec_set_param valid; dec_frame",
    "dec_init_handle; dec_get_picture", "dec_init_handle; dec_set_param valid; dec_init; dec_init; dec_frame; dec_get_picture; dec_deinit; dec_deinit_handle",
    "dec_init_handle; dec_set_param valid; dec_init; dec_frame; dec_deinit; dec_deinit",
    "dec_init_handle; dec_set_param valid; dec_init; dec_frame; dec_deinit; dec_frame",
    "dec_init_handle; dec_set_param valid; dec_init; dec_frame; dec_deinit; dec_get_picture",
    "dec_init_handle; dec_set_param valid; dec_init; dec_frame; dec_deinit; dec_init; dec_frame",
    "dec_init_handle; dec_set_param valid; dec_init; dec_frame; dec_deinit_handle", "dec_init_handle; dec_init_handle; dec_deinit_handle",
    "dec_init_handle; dec_set_param valid; dec_init; dec_frame; dec_deinit; dec_deinit_handle; dec_init_handle; dec_set_param valid; dec_init; dec_frame; dec_get_picture",
    "init_handle; set_param valid; enc_init; send 1; send_eos; drain; deinit; deinit_handle; init_handle; set_param valid; enc_init; send 1; send_eos; drain; deinit; deinit_handle",
]
# the one documented blocking wait is exercised once per run (each costs a full watchdog)
BLOCKING_CORPUS = [ENC_UP + "; get_packet blocking"]

ENC_NULL_OPS = ["init_handle_null", "set_param_nullh valid", "enc_init_nullh", "stream_header_nullh", "stream_header_release_null", "send_nullh",
                "get_packet_nullh", "release_null", "get_recon_nullh", "get_stream_info_nullh", "eos_nal_nullh", "deinit_nullh",
                "deinit_handle_nullh", "set_param null", "stream_header_nullout", "send_null", "get_packet_nullout", "release_nullp",
                "get_recon_nullbuf", "get_stream_info_nullinfo", "get_stream_info_badid"]
DEC_NULL_OPS = ["dec_init_handle_null", "dec_init_handle_nullcfg", "dec_set_param null", "dec_set_param_nullh valid", "dec_init_nullh",
                "dec_frame_nullh", "dec_frame_nulldata", "dec_frame_nulldata_n", "dec_get_picture_nullh", "dec_get_picture_nullbuf",
                "dec_get_picture_nullinfo", "dec_deinit_nullh", "dec_deinit_handle_nullh"]
ENC_ALL_OPS = ["init_handle", "init_handle_nullcfg", "set_param valid", "set_param invalid", "enc_init", "stream_header", "stream_header_release",
               "send 1", "send 2", "send_eos", "get_packet nb", "release_out_buffer", "get_recon", "get_stream_info", "eos_nal", "deinit",
               "deinit_handle"] + ENC_NULL_OPS
DEC_ALL_OPS = ["dec_init_handle", "dec_set_param valid", "dec_init", "dec_frame", "dec_get_picture", "dec_deinit", "dec_deinit_handle"] + DEC_NULL_OPS


# ----------------------------------------------------------------------------- generators (seeded)
def gen_enc_walk(rng, full):
    """Mostly-valid encoder walk steered by a light mirror of the automaton; `full` walks initialise the encoder."""
    ops, phase, cfg, sent, eos, recv, held, hdr = [], "none", None, 0, False, 0, 0, False
    n = rng.range(3, 14 if full else 9)
    for _ in range(n):
        r = rng.below(100)
        if r < 6:                                   # a malformed call anywhere
            ops.append(rng.choice(ENC_NULL_OPS))
            if ops[-1] in ("send_null",) and phase == "inited":
                sent += 1000                        # packet count unpredictable from here
            continue
        if phase == "none":
            ops.append("init_handle")
            phase, cfg = "handle", None
        elif phase == "handle":
            c = rng.below(10)
            if c < 3:
                ops.append("set_param invalid %d" % rng.below(6))
                cfg = False
            elif c < 6 or cfg is not True:
                ops.append("set_param valid")
                cfg = True
            elif c < 7:
                ops.append(rng.choice(["stream_header", "get_stream_info", "stream_header_release", "deinit", "eos_nal"]))
            elif full:
                ops.append("enc_init")
                phase, sent, eos, recv, held = "inited", 0, False, 0, 0
            else:
                ops.append(rng.choice(["deinit_handle", "set_param valid", "get_stream_info"]))
                if ops[-1] == "deinit_handle":
                    phase = "none"
        elif phase == "inited":
            c = rng.below(12)
            if not eos and c < 4 and sent < 12:
                k = rng.range(1, 4)
                ops.append("send %d" % k)
                sent += k
            elif not eos and c < 6 and sent > 0:
                ops.append("send_eos")
                eos = True
            elif c < 7:
                ops.append("get_packet nb")
            elif c < 8:
                ops.append(rng.choice(["get_recon", "get_stream_info", "stream_header", "stream_header_release", "eos_nal"]))
            elif eos and c < 11:
                ops.append("drain")
                recv = sent
            elif eos and recv >= sent:
                ops.append("deinit")
                phase = "deinited"
            else:
                ops.append("get_recon")
        elif phase == "deinited":
            ops.append("deinit_handle" if rng.chance(4, 5) else "deinit")
            if ops[-1] == "deinit_handle":
                phase = "none"
    # close the life cycle properly most of the time
    if rng.chance(3, 4):
        if phase == "inited":
            if sent > 0 and not eos:
                ops.append("send_eos")
                eos = True
            if eos and sent > 0 and recv < sent:
                ops.append("drain")
            ops += ["deinit", "deinit_handle"]
        elif phase == "deinited":
            ops.append("deinit_handle")
        elif phase == "handle":
            ops.append("deinit_handle")
    return "; ".join(ops)


def gen_dec_walk(rng):
    ops, phase, cfg = [], "none", False
    for _ in range(rng.range(3, 12)):
        if rng.below(100) < 7:
            ops.append(rng.choice(DEC_NULL_OPS))
            if ops[-1] == "dec_init_handle_nullcfg":
                phase, cfg = "handle", False
            continue
        if phase == "none":
            ops.append("dec_init_handle")
            phase, cfg = "handle", False
        elif phase == "handle":
            if not cfg:
                ops.append("dec_set_param valid")
                cfg = True
            elif rng.chance(1, 5):
                ops.append(rng.choice(["dec_set_param valid", "dec_deinit_handle"]))
                if ops[-1] == "dec_deinit_handle":
                    phase = "none"
            else:
                ops.append("dec_init")
                phase = "inited"
        elif phase == "inited":
            c = rng.below(10)
            if c < 5:
                ops.append("dec_frame")
            elif c < 8:
                ops.append(rng.choice(["dec_get_picture", "dec_get_picture_nullinfo"]))
            elif c < 9:
                ops.append("dec_set_param valid")
            else:
                ops.append("dec_deinit")
                phase = "deinited"
        else:
            ops.append("dec_deinit_handle")
            phase = "none"
    if rng.chance(3, 4):
        if phase == "inited":
            ops += ["dec_deinit", "dec_deinit_handle"]
        elif phase in ("handle", "deinited"):
            ops.append("dec_deinit_handle")
    return "; ".join(ops)


def gen_malformed(rng):
    """Random ops over the whole alphabet, any order (no enc_init after an accepted configuration: those are the costly
    walks above; here enc_init mostly hits the unconfigured handle)."""
    pool = ENC_ALL_OPS if rng.chance(3, 5) else DEC_ALL_OPS
    if rng.chance(1, 6):
        pool = ENC_ALL_OPS + DEC_ALL_OPS
    ops = []
    for _ in range(rng.range(1, 8)):
        o = rng.choice(pool)
        if o == "set_param invalid":
            o += " %d" % rng.below(6)
        ops.append(o)
    return "; ".join(ops)


def gen_sequences(chk):
    quick = chk.tier == "quick"
    n_full, n_cheap, n_dec, n_mal = (14, 70, 50, 90) if quick else (110, 500, 400, 700)
    seqs = [(s, "corpus") for s in CORPUS + BLOCKING_CORPUS]
    seqs += [(gen_enc_walk(chk.rng, True), "enc-full") for _ in range(n_full)]
    seqs += [(gen_enc_walk(chk.rng, False), "enc-cheap") for _ in range(n_cheap)]
    seqs += [(gen_dec_walk(chk.rng), "dec") for _ in range(n_dec)]
    seqs += [(gen_malformed(chk.rng), "malformed") for _ in range(n_mal)]
    seen, out = set(), []
    for s, fam in seqs:
        if s and s not in seen:
            seen.add(s)
            out.append((s, fam))
    return out


# ----------------------------------------------------------------------------- running
def build_harness():
    return C.compile_harness("apiseq", [os.path.join(C.VERIF, "harness", "apiseq.c")], libs=["libSvtAv1Enc.a", "libSvtAv1Dec.a"])


RC_RE = re.compile(r"^rc=([0-9a-f,]*) crashed=(\d+) blocked=(\d) at=(-?\d+) n=(\d+) ms=(\d+)$")


def parse_real(line):
    m = RC_RE.match(line.strip())
    if not m:
        return None
    codes = [int(x, 16) for x in m.group(1).split(",") if x]
    return {"codes": codes, "crashed": int(m.group(2)), "blocked": int(m.group(3)), "at": int(m.group(4)), "n": int(m.group(5)), "ms": int(m.group(6))}


def run_real(exe, seqs, watchdog=WATCHDOG, nproc=NPROC):
    """Run sequences on `nproc` harness processes (longest-expected first so that watchdog waits overlap)."""
    if not seqs:
        return []
    chunks = [[] for _ in range(min(nproc, len(seqs)))]
    for i, s in enumerate(seqs):
        chunks[i % len(chunks)].append((i, s))

    def one(ch):
        text = "".join(s + "\n" for _, s in ch)
        p = subprocess.run([exe, str(watchdog)], input=text.encode(), stdout=subprocess.PIPE, stderr=subprocess.PIPE,
                           timeout=len(ch) * (watchdog + 30) + 600)
        lines = [l for l in p.stdout.decode("utf-8", "replace").split("\n") if l.strip()]
        if len(lines) != len(ch):
            raise RuntimeError("apiseq: %d output lines for %d sequences (rc=%d): %s" % (len(lines), len(ch), p.returncode, p.stderr.decode()[-500:]))
        return [(i, l) for (i, _), l in zip(ch, lines)]
    res = [None] * len(seqs)
    with ThreadPoolExecutor(max_workers=len(chunks)) as ex:
        for part in ex.map(one, chunks):
            for i, l in part:
                res[i] = l
    return res


def run_model(seqs):
    out = C.run_model("apiproto", "".join(s + "\n" for s in seqs))
    lines = [l for l in out.split("\n") if l.strip()]
    if len(lines) != len(seqs):
        raise RuntimeError("svtmodel apiproto: %d lines for %d sequences" % (len(lines), len(seqs)))
    res = []
    for l in lines:
        if l.startswith("bad-op"):
            res.append(None)
            continue
        toks = l.split()
        classes = [t for t in toks if not (t.startswith("state=") or t.startswith("held=") or t.startswith("pre="))]
        kv = dict(t.split("=", 1) for t in toks if t.split("=", 1)[0] in ("state", "held", "pre"))
        res.append({"classes": classes, "state": kv.get("state", ""), "held": kv.get("held", ""), "pre": kv.get("pre", "").split(",")})
    return res


def model_tables():
    out = C.run_model("apiproto", "!guards\n!locks\n")
    guards = [l.split() for l in out.split("\n") if l.startswith("guard ")]
    locks = [l.split() for l in out.split("\n") if l.startswith("lock ")]
    balanced = "allBalanced=true" in out
    return guards, locks, balanced


def key_of(tag):
    """undef:null-<fn>-<ptr> -> F7-null-<fn>-<ptr>; undef:order-<fn>-<what> -> order-<fn>-<what>"""
    t = tag[len("undef:"):]
    return ("F7-" + t) if t.startswith("null-") else t


def split_ops(seq):
    return [o.strip() for o in seq.split(";") if o.strip()]


def is_blocking_get(op):
    return op in ("get_packet blocking", "drain")


def judge(seq, real, model):
    """-> list of (kind, key, text).  kind: 'finding' (crash/block at a call the model marks undefined),
    'violation' (crash/block where a return is predicted, or the predicted mutex block), 'corr' (codes differ)."""
    ops = split_ops(seq)
    res = []
    if real is None:
        return [("corr", None, "harness could not parse the sequence: %s" % seq)]
    if model is None:
        return [("corr", None, "model could not parse the sequence: %s" % seq)]
    full = seq
    if (real["crashed"] or real["blocked"]) and real["at"] + 1 < len(ops):
        # the calls after the one that did not return never ran: the replay is the prefix
        seq = "; ".join(ops[:real["at"] + 1]) + "\ngenerated as: " + full
    cls = model["classes"]
    stop = next((j for j, c in enumerate(cls) if c.startswith(("undef:", "mayblock", "block:"))), None)
    if real["crashed"] or real["blocked"]:
        at = real["at"]
        what = ("killed by signal %d" % real["crashed"]) if real["crashed"] else "did not return within the watchdog"
        where = "call %d `%s` %s" % (at, ops[at] if at < len(ops) else "?", what)
        if stop is not None and stop <= at:
            c = cls[stop]
            if c == "mayblock":
                if real["blocked"] and at == stop:
                    return [("documented-block", None, "")]
                res.append(("violation", None, "%s after the documented blocking wait\nsequence: %s" % (where, seq)))
            elif c.startswith("block:"):
                res.append(("violation", "F3-mutex-left-held", "set_parameter blocks on a mutex left held by an earlier call that returned (%s predicted by the lock table; %s)\nsequence: %s"
                            % (c, where, seq)))
            else:
                why = "NULL argument dereferenced" if c.startswith("undef:null-") else "call order the function does not check"
                res.append(("finding", key_of(c), "%s: %s (first call outside what the code checks: call %d `%s`, %s)\nsequence: %s"
                            % (why, where, stop, ops[stop], c, seq)))
        else:
            res.append(("violation", None, "%s although the model predicts `%s` there\nsequence: %s" % (where, cls[at] if at < len(cls) else "?", seq)))
        return res
    # returned: compare codes up to the first call whose result is not predicted
    lim = len(ops) if stop is None else stop
    for j in range(min(lim, len(real["codes"]))):
        c, code = cls[j], real["codes"][j]
        okc = (c == "ok" and code == 0) or (c.startswith("e:") and code == int(c[2:], 16)) or \
              (c.startswith("any:") and code in [int(x, 16) for x in c[4:].split("/")])
        if not okc:
            res.append(("corr", None, "call %d `%s` returned %x, model predicts %s\nsequence: %s" % (j, ops[j], code, c, seq)))
            break
    if stop is not None and cls[stop].startswith("block:"):
        res.append(("corr", None, "model predicts a mutex block at call %d `%s` but the real call returned\nsequence: %s" % (stop, ops[stop], seq)))
    if len(real["codes"]) != len(ops):
        res.append(("corr", None, "harness reported %d codes for %d calls\nsequence: %s" % (len(real["codes"]), len(ops), seq)))
    return res


def shrink(exe, seq):
    """Greedy: drop calls while the sequence still crashes/blocks at a call the model predicts to return."""
    ops = split_ops(seq)
    budget = 24
    i = 0
    while i < len(ops) and budget > 0 and len(ops) > 1:
        cand = "; ".join(ops[:i] + ops[i + 1:])
        budget -= 1
        r = parse_real(run_real(exe, [cand], nproc=1)[0])
        m = run_model([cand])[0]
        if r and m and (r["crashed"] or r["blocked"]) and any(k == "violation" and key is None for k, key, _ in judge(cand, r, m)):
            ops = split_ops(cand)[:r["at"] + 1]
            i = 0 if i >= len(ops) else i
        else:
            i += 1
    return "; ".join(ops)


def run(chk, seqs=None):
    seqs_given = seqs
    import apitables
    import cfun
    # 1. regenerate the tables from the current tree
    stats, terr = None, ""
    try:
        stats, gtab, ltab = apitables.main(os.path.join(C.LEAN, "SvtVerif/Gen/ApiTables.lean"))
    except cfun.Unsupported as e:
        terr = str(e)
    # 2. proofs on the regenerated tables
    pr = None
    if stats is not None:
        pr = chk.proofs(MODULE, trusted_extra=[
            "xlate/apitables.py: clang-14 JSON AST -> per-path NULL-test / dereference / mutex events (path-sensitive abstract interpretation; "
            "loops unrolled 0/1 times; same-file callees summarised; calls into other translation units with a tracked pointer counted as dereferences; "
            "refuses goto, mutex calls outside EB_API functions, unknown node kinds)",
            "Model/ApiProto.lean: NULL-argument and mutex behaviour are looked up in the generated tables; call-ORDER behaviour is a hand transcription of "
            "EbEncHandle.c / EbDecHandle.c, validated every run by harness/apiseq.c (real libSvtAv1Enc.a / libSvtAv1Dec.a, one forked child per sequence)",
            "pthread mutexes assumed non-recursive and per handle; mutexes taken inside other translation units (resource manager) are C23's subject"])
    # 3. sequences: real library and model
    exe = build_harness()
    if seqs is None:
        fam_seqs = gen_sequences(chk)
    else:
        fam_seqs = [(s, "replay") for s in seqs]
    seqs = [s for s, _ in fam_seqs]
    model_ok = stats is not None
    models = None
    if model_ok:
        try:
            models = run_model(seqs)
        except (C.BuildError, RuntimeError) as e:
            model_ok, terr = False, terr or str(e)[-1500:]
    # cap the number of sequences that cost a whole watchdog: predicted documented blocking waits beyond the corpus
    if models is not None and fam_seqs and fam_seqs[0][1] != "replay":
        keep, nblock = [], 0
        for (s, fam), m in zip(fam_seqs, models):
            if m is not None and "mayblock" in m["classes"] and fam != "corpus":
                nblock += 1
                if nblock > (3 if chk.tier == "quick" else 12):
                    continue
            keep.append(((s, fam), m))
        fam_seqs, models = [k[0] for k in keep], [k[1] for k in keep]
        seqs = [s for s, _ in fam_seqs]
    t0 = time.time()
    reals = [parse_real(l) for l in run_real(exe, seqs)]
    t_real = time.time() - t0
    # 4. oracle + correspondence
    known_keys = set(k["key"] for k in chk.known)
    findings, violations, corr = {}, [], []
    documented_blocks = 0
    pairs, crashes, blocks = set(), 0, 0
    fam_hist, class_hist, len_hist = {}, {}, {}
    for idx, ((seq, fam), real) in enumerate(zip(fam_seqs, reals)):
        model = models[idx] if models is not None else None
        fam_hist[fam] = fam_hist.get(fam, 0) + 1
        ops = split_ops(seq)
        len_hist[len(ops)] = len_hist.get(len(ops), 0) + 1
        if real is not None:
            crashes += 1 if real["crashed"] else 0
            blocks += 1 if real["blocked"] else 0
            nexec = len(real["codes"]) + (1 if (real["crashed"] or real["blocked"]) else 0)
            if model is not None:
                for j in range(min(nexec, len(ops))):
                    pre = model["pre"][j] if j < len(model["pre"]) else "-"
                    if pre != "-":
                        pairs.add((pre, re.sub(r"\s+\d+$", "", ops[j])))
                for c in model["classes"]:
                    k = c.split(":")[0]
                    class_hist[k] = class_hist.get(k, 0) + 1
        if models is None:
            # no model: the bare property oracle
            if real is None:
                corr.append("harness could not parse: %s" % seq)
            elif real["crashed"] or (real["blocked"] and not (real["at"] < len(ops) and is_blocking_get(ops[real["at"]]))):
                violations.append((None, "call %d `%s` %s (no model prediction available)\nsequence: %s" % (
                    real["at"], ops[real["at"]] if real["at"] < len(ops) else "?",
                    "killed by signal %d" % real["crashed"] if real["crashed"] else "did not return within the watchdog", seq), seq, real, None))
            continue
        for kind, key, text in judge(seq, real, model):
            if kind == "documented-block":
                documented_blocks += 1
            elif kind == "finding":
                findings.setdefault(key, []).append((text, seq, real, model))
            elif kind == "violation":
                violations.append((key, text, seq, real, model))
            else:
                corr.append(text)
    # a watchdog hit that is neither a listed finding nor the documented wait is re-run alone with a long watchdog and judged
    # again (a busy machine can make enc_init alone take longer than the first watchdog)
    def recheck(seq, model):
        r2 = parse_real(run_real(exe, [seq], watchdog=CONFIRM_WATCHDOG, nproc=1)[0])
        chk.count("watchdog_hits_rerun_with_long_watchdog")
        return r2, (judge(seq, r2, model) if model is not None else [])
    redo = [(seq, model) for key, text, seq, real, model in violations if real is not None and real["blocked"] and key is None]
    violations = [v for v in violations if not (v[3] is not None and v[3]["blocked"] and v[0] is None)]
    for key in list(findings):
        if key not in known_keys:
            redo += [(seq, model) for text, seq, real, model in findings[key] if real["blocked"]]
            findings[key] = [x for x in findings[key] if not x[2]["blocked"]]
            if not findings[key]:
                del findings[key]
    for seq, model in redo[:40]:
        r2, verdicts = recheck(seq, model)
        for kind, key, text in verdicts:
            if kind == "finding":
                findings.setdefault(key, []).append((text, seq, r2, model))
            elif kind == "violation":
                violations.append((key, text, seq, r2, model))
            elif kind == "corr":
                corr.append(text)
    # long sessions: resources an application hands back through the API (packets via release_out_buffer, recon frames via
    # get_recon) must really return to their pools - otherwise send_picture / get_packet block for ever once the pool (18 recon
    # frames here) is used up.  Only a session longer than every pool shows that; the seeded call sequences above are short.
    long_sessions = []
    if seqs_given is None:
        for nfr, rec in ((150, 1), (150, 0)) if chk.tier == "quick" else ((150, 1), (150, 0), (400, 1), (400, 0)):
            a = {"w": 64, "h": 64, "n": nfr, "cfg.enc_mode": 8, "cfg.logical_processors": 2, "recon": rec, "decode": 0, "drain": 0,
                 "final_nb": 1, "content": 4, "seed": chk.seed, "watchdog": 120}
            r = C.run_e2e(a, timeout=1200)
            ok = (not r["hung"] and not r["crashed"] and len(r["PKT"]) == nfr and (not rec or len(r["RECON"]) == nfr) and not r["ERR"])
            long_sessions.append({"frames": nfr, "recon": rec, "packets": len(r["PKT"]), "recons": len(r["RECON"]), "ok": ok})
            if not ok:
                violations.append((None, "a long session (drain after every send: non-blocking get_packet + release_out_buffer%s, then EOS) does not "
                                   "complete: an API call blocks for ever or the session loses output (packets %d of %d, recon frames %d, hung=%s, crashed=%s, "
                                   "errors=%s)\nargs: %s" % (" + get_recon" if rec else "", len(r["PKT"]), nfr, len(r["RECON"]), r["hung"], r["crashed"], r["ERR"][:3], r["argv"]),
                                   "long-session", None, None))
    chk.cov["long_sessions"] = long_sessions
    # evidence
    chk.cov["evaluations"] = len(seqs) + len(long_sessions)
    chk.cov["calls_executed"] = sum(len(r["codes"]) for r in reals if r)
    chk.cov["distinct_nontrivial"] = len(pairs)
    chk.cov["rule"] = ("distinct (protocol state before the call, API call with its NULL/valid/invalid argument variant) pairs that were actually executed "
                       "against the real libraries (the call returned, crashed or hit the watchdog); states are the automaton's seven encoder states / "
                       "decoder phases; each sequence runs in its own forked child")
    chk.cov["sequence_families"] = fam_hist
    chk.cov["sequence_length_histogram"] = {str(k): v for k, v in sorted(len_hist.items())}
    chk.cov["predicted_class_histogram"] = class_hist
    chk.cov["real_crashes"] = crashes
    chk.cov["real_blocks"] = blocks
    chk.cov["documented_blocking_waits_observed"] = documented_blocks
    chk.cov["harness_wall_s"] = round(t_real, 1)
    chk.cov["watchdog_s"] = WATCHDOG
    ms = sorted(r["ms"] for r in reals if r and not r["blocked"])
    if ms:
        chk.cov["sequence_wall_ms"] = {"median": ms[len(ms) // 2], "p95": ms[(len(ms) * 95) // 100], "max": ms[-1]}
    if stats is not None:
        chk.cov["translator"] = {k: stats[k] for k in ("functions", "pointers", "params", "derived", "guard_paths", "lock_paths")}
        chk.cov["guarded_params"] = stats["guarded_params"]
        chk.cov["unguarded_params"] = stats["unguarded_params"] + stats["unguarded_derived"]
        chk.cov["null_error_params"] = stats["null_error_params"]
    if model_ok:
        try:
            g, l, bal = model_tables()
            chk.cov["lock_table_balanced"] = bal
            chk.cov["lock_paths_unbalanced"] = [" ".join(x[1:]) for x in l if x[-1] != "balanced"]
        except (C.BuildError, RuntimeError):
            pass
    chk.cov["findings_reproduced"] = {k: len(v) for k, v in sorted(findings.items())}
    for i in (0, len(seqs) // 3, len(seqs) // 2, len(seqs) - 1):
        if 0 <= i < len(seqs) and reals[i] is not None:
            chk.sample({"sequence": seqs[i], "real": {"rc": ["%x" % c for c in reals[i]["codes"]], "crashed": reals[i]["crashed"], "blocked": reals[i]["blocked"]},
                        "model": " ".join(models[i]["classes"]) if models is not None and models[i] else None})
    chk.assumptions += ["one encoder handle and one decoder handle per process; the application resets its handle variable to NULL after deinit_handle "
                        "(calls through a dangling handle are outside any C API's reach)",
                        "valid configuration: 128x128, 8 bit, preset 8, logical_processors 1, recon on; at most 16 pictures in flight "
                        "(send_picture back-pressure is C27's subject)",
                        "blocking svt_av1_enc_get_packet with nothing guaranteed to arrive is the documented blocking wait and is allowed to block"]
    # 5. verdicts
    for key, items in sorted(findings.items()):
        text, seq, real, _ = items[0]
        chk.violation("%s\nsequences with this key in this run: %d\nreplay: bin/check C14 --replay <this file>\n" % (text, len(items)), key=key)
    if violations:
        key, text, seq, real, _ = violations[0]
        if key is None and real is not None:
            try:
                small = shrink(exe, seq)
                if small != seq:
                    text += "\nshrunk sequence: %s" % small
            except (RuntimeError, subprocess.TimeoutExpired):
                pass
        chk.violation("%s\nviolating sequences in this run: %d\nreplay: bin/check C14 --replay <this file>\n" % (text, len(violations)), key=key)
        return
    if chk.violations:
        return
    if stats is None:
        chk.violation("translator refused the current source: %s\nno call sequence crashed or blocked outside the listed findings (%d sequences run)\n" %
                      (terr, len(seqs)), tag="xlate", found_input=False)
    elif not pr.ok:
        chk.violation("proof obligations no longer check on the regenerated tables:\n%s\nforbidden tokens: %s\n"
                      "no call sequence crashed or blocked outside the listed findings (%d sequences run)\n" %
                      ("\n".join("%s: %s" % kv for kv in pr.failed.items()), pr.forbidden, len(seqs)), tag="proof", found_input=False)
    elif not model_ok:
        chk.violation("model driver unavailable: %s\n" % terr, tag="corr", found_input=False)
    elif corr:
        chk.violation("automaton and real library disagree on return codes, but no sequence crashed or blocked outside the listed findings\n%s\n"
                      "disagreeing sequences: %d\n" % (corr[0], len(corr)), tag="corr", found_input=False)


def replay(chk, path):
    seqs = []
    for line in open(path):
        m = re.match(r"\s*(?:shrunk )?sequence:\s*(.+)$", line)
        if m:
            seqs.append(m.group(1).strip())
    run(chk, seqs or None)
