"""C02 — every output packet is one well-formed temporal unit.

(1) Lean proofs (LEB128 round trip, OBU list round trip, temporal-unit structure of the encode_tu model).
(2) Correspondence of the Lean OBU / sequence-header / frame-header parser (`svtmodel obu`) with the REAL decoder's
    parser: every packet of a matrix of REAL encodes is parsed by both, and the extracted fields are compared
    field by field (harness/dec_hdr.c links libSvtAv1Dec.a and prints the decoder handle's frame_header/seq_header).
(3) The property's own oracle on the REAL packets (parse ok, TD first, exactly one displayed frame and it is the
    last one, sequence header in the first packet and with every key frame, byte-identical each time and to
    svt_av1_enc_stream_header, pic_type vs carried frame type).
"""
import os
import subprocess
from . import common as C

LEVEL = "proof"
MODULE = "SvtVerif.Props.C02"
MARK = "--- model input (feed to `svtmodel obu`; the same lines with `RESET w h bd` feed harness/dec_hdr) ---"

# keys compared between the Lean parser and the real decoder for every coded (not show-existing) frame
ALWAYS = ("show_existing frame_type show_frame showable error_res order_hint refresh primary_ref base_q_idx w h upw rw rh "
          "use_superres superres_denom allow_sct allow_intrabc tile_cols_log2 tile_rows_log2 tile_cols tile_rows uniform "
          "lf_y0 lf_y1 cdef_bits cdef_y cdef_uv lr_y lr_u lr_v tx_mode_select ref_select skip_mode warped reduced_tx gm gmp "
          "film_grain disable_cdf_update seg_enabled delta_q_present force_imv hp_mv ref_mvs disable_frame_end_cdf "
          "dq_ydc dq_udc dq_uac dq_vdc dq_vac qm seg_update_map seg_temporal seg_update_data delta_q_res delta_lf_present "
          "delta_lf_res delta_lf_multi coded_lossless cdef_damping skip_allowed ctx_tile_id").split()
INTER_ONLY = "ref_idx interp switchable_motion".split()
SHOW_EXISTING = "show_existing frame_type show_frame refresh".split()
SEQ_KEYS = ("profile w h sb128 filter_intra intra_edge interintra masked warped dual_filter order_hint jnt_comp ref_mvs sct "
            "intmv order_hint_bits superres cdef restoration bitdepth mono subx suby film_grain still reduced_still wbits "
            "hbits frame_ids timing decoder_model op_cnt level0 tier0 color_desc color_range csp sep_uv_dq").split()

EOS, SHOW_EXT, HAS_TD, IS_ALT_REF = 1, 2, 4, 8


def kv(line):
    d = {}
    for tok in line.split()[1:] if not line.startswith("pkt=") else line.split():
        if "=" in tok:
            k, v = tok.split("=", 1)
            d[k] = v
    return d


def cases(chk):
    """The encode matrix: fixed feature cases + seeded random ones."""
    base = [
        dict(w=64, h=64, n=8, bd=8, content=4, **{"cfg.enc_mode": 8}),
        dict(w=192, h=128, n=12, bd=8, content=4, **{"cfg.enc_mode": 4, "cfg.hierarchical_levels": 4}),
        dict(w=128, h=64, n=12, bd=10, content=2, **{"cfg.enc_mode": 8, "cfg.hierarchical_levels": 3, "cfg.intra_period_length": 4}),
        dict(w=72, h=88, n=10, bd=8, content=4, **{"cfg.enc_mode": 8, "cfg.hierarchical_levels": 2}),
        dict(w=192, h=128, n=6, bd=8, content=0, **{"cfg.enc_mode": 8, "cfg.tile_columns": 1, "cfg.tile_rows": 1}),
        # superres needs loop restoration; TPL is switched off because superres + TPL segfaults in tpl_mc_flow (side finding)
        dict(w=128, h=128, n=8, bd=8, content=4, **{"cfg.enc_mode": 8, "cfg.superres_mode": 1, "cfg.superres_denom": 12, "cfg.superres_kf_denom": 10,
                                                    "cfg.enable_restoration_filtering": 1, "cfg.enable_tpl_la": 0, "cfg.intra_period_length": 3}),
        dict(w=128, h=96, n=6, bd=8, content=5, **{"cfg.enc_mode": 8, "cfg.screen_content_mode": 1}),
        dict(w=128, h=64, n=8, bd=8, content=0, **{"cfg.enc_mode": 4, "cfg.hierarchical_levels": 3, "cfg.film_grain_denoise_strength": 10}),
        dict(w=64, h=64, n=6, bd=8, content=2, **{"cfg.enc_mode": 8, "cfg.hierarchical_levels": 0}),
        dict(w=96, h=80, n=10, bd=8, content=4, **{"cfg.enc_mode": 8, "cfg.hierarchical_levels": 1, "cfg.intra_period_length": 3, "cfg.intra_refresh_type": 1}),
        dict(w=128, h=128, n=12, bd=10, content=4, **{"cfg.enc_mode": 4, "cfg.hierarchical_levels": 4, "cfg.qp": 20}),
        dict(w=192, h=128, n=6, bd=8, content=4, **{"cfg.enc_mode": 8, "cfg.enable_adaptive_quantization": 1, "cfg.qp": 40}),
    ]
    extra = 0 if chk.tier == "quick" else 48
    sizes = [(64, 64), (128, 64), (192, 128), (72, 88), (96, 80), (128, 128), (160, 96), (136, 72), (80, 120), (128, 96)]
    r = chk.rng
    for _ in range(extra):
        w, h = r.choice(sizes)
        a = dict(w=w, h=h, n=r.range(3, 12), bd=r.choice([8, 8, 10]), content=r.choice([0, 2, 4, 4, 5]))
        a["cfg.enc_mode"] = r.choice([4, 8, 8])
        a["cfg.hierarchical_levels"] = r.range(0, 4)
        if r.chance(1, 2):
            a["cfg.intra_period_length"] = r.range(1, 8)
            a["cfg.intra_refresh_type"] = r.choice([1, 2])
        if r.chance(1, 4) and w >= 128:
            a["cfg.tile_columns"] = r.range(0, 1)
            a["cfg.tile_rows"] = r.range(0, 1)
        if r.chance(1, 5):
            a["cfg.superres_mode"] = r.choice([1, 2])
            a["cfg.superres_denom"] = r.range(9, 16)
            a["cfg.superres_kf_denom"] = r.range(8, 16)
            a["cfg.enable_restoration_filtering"] = 1
            a["cfg.enable_tpl_la"] = 0
        if r.chance(1, 5):
            a["cfg.screen_content_mode"] = r.choice([1, 2])
        if r.chance(1, 6):
            a["cfg.film_grain_denoise_strength"] = r.range(1, 30)
        if r.chance(1, 4):
            a["cfg.qp"] = r.range(10, 60)
        if r.chance(1, 6):
            a["cfg.enable_adaptive_quantization"] = r.choice([1, 2])
        base.append(a)
    for i, a in enumerate(base):
        a.update(hex=1, recon=0, decode=0, seed=chk.seed * 1000 + i, watchdog=100)
    return base


def model_input(r, with_dims=None):
    first = "RESET" if with_dims is None else "RESET %d %d %d" % with_dims
    lines = [first]
    if r["HDRHEX"]:
        lines.append("HDR " + r["HDRHEX"])
    for i in sorted(r["HEX"]):
        lines.append("PKT %d %s" % (i, r["HEX"][i]))
    return lines


def split_model_output(out):
    """-> list of streams; each {'hdr': str|None, 'hdr_seq': [..], 'pkts': [{'line':..,'kv':..,'seq':[..],'frm':[..]}]}"""
    streams = []
    cur = None
    where = None
    for line in out.split("\n"):
        if not line:
            continue
        if line == "reset":
            cur = {"hdr": None, "hdr_seq": [], "pkts": []}
            streams.append(cur)
        elif line.startswith("HDR "):
            cur["hdr"] = kv(line)
            where = cur["hdr_seq"]
        elif line.startswith("pkt="):
            p = {"line": line, "kv": kv(line), "seq": [], "frm": []}
            cur["pkts"].append(p)
            where = None
        elif line.startswith("SEQ "):
            (cur["pkts"][-1]["seq"] if where is None else where).append(kv(line))
        elif line.startswith("FRM "):
            cur["pkts"][-1]["frm"].append(kv(line))
    return streams


def run_dec(exe, r, dims):
    text = "\n".join(model_input(r, dims)) + "\n"
    try:
        p = subprocess.run([exe], input=text.encode(), stdout=subprocess.PIPE, stderr=subprocess.PIPE, timeout=300)
        rc, out = p.returncode, p.stdout.decode("utf-8", "replace")
    except subprocess.TimeoutExpired:
        rc, out = 124, ""
    d = {"rc": rc, "hdr_seq": [], "pkts": {}}
    for line in out.split("\n"):
        if line.startswith("SEQ "):
            k = kv(line)
            if k.get("pkt") == "-1":
                d["hdr_seq"].append(k)
            else:
                d["pkts"].setdefault(int(k["pkt"]), {"seq": [], "frm": [], "dpk": None})["seq"].append(k)
        elif line.startswith("FRM "):
            k = kv(line)
            d["pkts"].setdefault(int(k["pkt"]), {"seq": [], "frm": [], "dpk": None})["frm"].append(k)
        elif line.startswith("DPK "):
            k = kv(line)
            d["pkts"].setdefault(int(k["pkt"]), {"seq": [], "frm": [], "dpk": None})["dpk"] = k
    return d


def compare_frame(m, c):
    """Lean FRM kv vs decoder FRM kv -> list of (key, lean, dec)."""
    diffs = []
    if m.get("show_existing") == "1" or c.get("show_existing") == "1":
        keys = list(SHOW_EXISTING)
    else:
        keys = list(ALWAYS)
        if m.get("frame_type") in ("1", "3"):
            keys += INTER_ONLY
        if m.get("lf_y0") != "0" or m.get("lf_y1") != "0":
            keys += ["lf_u", "lf_v"]
        if m.get("coded_lossless") == "0" and m.get("allow_intrabc") == "0":
            keys += ["lf_sharp", "lf_delta_en"]
            if m.get("lf_delta_en") == "1":
                keys += ["lf_delta_upd"]
        if m.get("qm") == "1":
            keys += ["qm_y", "qm_u", "qm_v"]
        if m.get("film_grain") == "1" and m.get("fg_update") == "1":
            keys += ["fg_update"]     # with update_parameters = 0 the decoder's struct is overwritten by load_grain_params
        if m.get("tile_cols_log2") != "0" or m.get("tile_rows_log2") != "0":
            keys += ["tile_size_bytes"]
    for k in keys:
        if m.get(k) != c.get(k):
            diffs.append((k, m.get(k), c.get(k)))
    return diffs, len(keys)


def gm_lines(chk, n):
    """Seeded random inputs for global_motion_params(): bits biased towards is_global = 1, optional previous parameters."""
    r = chk.rng
    lines = []
    for _ in range(n):
        nbytes = 176
        mode = r.below(4)
        bs = bytearray(r.below(256) for _ in range(nbytes))
        if mode == 0:      # dense ones: many non-identity models and long sub-exponential escapes
            bs = bytearray((r.below(256) | r.below(256)) for _ in range(nbytes))
        elif mode == 1:    # sparse: mostly identity
            bs = bytearray((r.below(256) & r.below(256)) for _ in range(nbytes))
        hp = r.below(2)
        if r.chance(1, 2):
            prev = []
            for _ref in range(7):
                for j in range(6):
                    if j < 2:
                        v = r.range(-(1 << 21), 1 << 21)            # translation, WARPEDMODEL_PREC_BITS precision
                    else:
                        v = r.range(-(1 << 13), 1 << 13) * (1 if r.chance(1, 2) else 2) + ((1 << 16) if j % 3 == 2 else 0)
                    prev.append(v)
            lines.append("GM %d 1 %s %s" % (hp, " ".join(str(v) for v in prev), bs.hex()))
        else:
            lines.append("GM %d 0 %s" % (hp, bs.hex()))
    return lines


def describe(args):
    return " ".join("%s=%s" % (k, v) for k, v in args.items())


def run(chk, only_args=None):
    # ---- 1. proofs
    pr = chk.proofs(MODULE, trusted_extra=[
        "harness/dec_hdr.c: the real decoder (libSvtAv1Dec.a, public API, one svt_av1_dec_frame per frame) whose handle fields "
        "(frame_header, seq_header, cur_pic_buf->global_motion) are printed and compared with the Lean parser on every real packet",
        "harness/enc_e2e.c: the real encoder producing the packets"])
    # ---- 2. real encodes
    cs = [only_args] if only_args else cases(chk)
    results = C.run_parallel(lambda a: C.run_e2e(a, timeout=200), cs)
    dexe = C.compile_harness("dec_hdr", [os.path.join(C.VERIF, "harness", "dec_hdr.c")], libs=["libSvtAv1Dec.a"])
    usable = []
    enc_problems = []
    for a, r in zip(cs, results):
        if r["crashed"] or r["hung"] or r["SETPARAM"] not in (0,) or not r["PKT"] or len(r["HEX"]) != len(r["PKT"]):
            enc_problems.append((describe(a), "rc=%s setparam=%s packets=%d err=%s" % (r["rc"], r["SETPARAM"], len(r["PKT"]), r["ERR"][:2])))
        else:
            usable.append((a, r))
    chk.cov["encodes"] = len(cs)
    chk.cov["encodes_usable"] = len(usable)
    if enc_problems:
        chk.cov["encodes_not_usable"] = enc_problems[:10]
    text = "\n".join("\n".join(model_input(r)) for _, r in usable) + "\n"
    mstreams = []
    model_err = None
    if usable:
        try:
            mstreams = split_model_output(C.run_model("obu", text))
        except (RuntimeError, C.BuildError) as e:
            model_err = str(e)[-1500:]
    decs = C.run_parallel(lambda ar: run_dec(dexe, ar[1], (ar[0]["w"], ar[0]["h"], ar[0]["bd"])), usable)

    # ---- 2b. global_motion_params(): the real encoder never produced a non-identity model on the synthetic inputs, so the
    # Lean reader is compared with the real read_global_motion_params (EbDecParseObu.c l.1171) on seeded random bits
    gml = gm_lines(chk, 300 if chk.tier == "quick" else 5000)
    gm_bad = []
    gm_types = {}
    try:
        rc, cout = C.sh([dexe], input=("RESET 64 64 8\n" + "\n".join(gml) + "\n").encode())
        cg = [l for l in cout.split("\n") if l.startswith("GM ")]
        mg = [l for l in C.run_model("obu", "\n".join(gml) + "\n").split("\n") if l.startswith("GM ")]
        if len(cg) != len(gml) or len(mg) != len(gml):
            gm_bad.append(("count", "lean=%d decoder=%d expected=%d" % (len(mg), len(cg), len(gml)), ""))
        else:
            for inp, m_, c_ in zip(gml, mg, cg):
                for t in kv(m_).get("types", "").split(","):
                    gm_types[t] = gm_types.get(t, 0) + 1
                if m_ != c_:
                    gm_bad.append((inp, m_, c_))
    except (RuntimeError, C.BuildError) as e:
        gm_bad.append(("run", str(e)[-500:], ""))
    chk.cov["gm_random_inputs"] = len(gml)
    chk.cov["gm_types_decoded"] = gm_types

    # ---- 3. compare + oracle
    corr_fail = []      # (args, pkt, what)
    oracle_fail = []    # (args, r, pkt, what)
    api_mismatch = []   # (args, r)
    f13 = []            # (args, pkt, text)
    n_pkts = n_frames = n_fields = n_seq = 0
    type_seqs = {}
    frame_types = {}
    hist = {"show_existing_packets": 0, "multi_frame_packets": 0, "seqhdr_packets": 0, "intra_only_frames": 0,
            "non_shown_frames": 0, "superres_frames": 0, "tiled_frames": 0, "film_grain_frames": 0, "seg_frames": 0,
            "sct_frames": 0, "intrabc_frames": 0, "gm_nonidentity_frames": 0, "skip_mode_frames": 0, "lr_frames": 0,
            "pic_type": {}}
    samples = 0
    for si, (a, r) in enumerate(usable):
        if si >= len(mstreams):
            break
        ms, ds = mstreams[si], decs[si]
        tag = describe(a)
        # stream header
        if ms["hdr"] is None or ms["hdr"].get("ok") != "1" or len(ms["hdr_seq"]) != 1:
            oracle_fail.append((a, r, -1, "stream header from svt_av1_enc_stream_header is not exactly one parseable sequence header OBU: %s" % ms["hdr"]))
        elif ds["hdr_seq"]:
            n_seq += 1
            for k in SEQ_KEYS:
                if ms["hdr_seq"][0].get(k) != ds["hdr_seq"][0].get(k):
                    corr_fail.append((a, -1, "SEQ(api) %s: lean=%s decoder=%s" % (k, ms["hdr_seq"][0].get(k), ds["hdr_seq"][0].get(k))))
        if len(ms["pkts"]) != len(r["PKT"]):
            corr_fail.append((a, -1, "model printed %d packet lines for %d packets" % (len(ms["pkts"]), len(r["PKT"]))))
            continue
        api_bad = False
        for p, mp in zip(r["PKT"], ms["pkts"]):
            i = p["i"]
            m = mp["kv"]
            n_pkts += 1
            type_seqs[m.get("types", "")] = type_seqs.get(m.get("types", ""), 0) + 1
            hist["pic_type"][str(p["pic_type"])] = hist["pic_type"].get(str(p["pic_type"]), 0) + 1
            # --- oracle
            if m.get("ok") != "1":
                oracle_fail.append((a, r, i, "packet does not parse: %s" % m.get("err")))
                continue
            if m.get("td_first") != "1":
                oracle_fail.append((a, r, i, "packet does not start with a temporal delimiter (types=%s)" % m.get("types")))
            if m.get("types", "").split(",").count("2") != 1:
                oracle_fail.append((a, r, i, "packet contains %d temporal delimiters (types=%s)" % (m.get("types", "").split(",").count("2"), m.get("types"))))
            if m.get("tu") != "1":
                oracle_fail.append((a, r, i, "packet is not a temporal unit in the sense of Tu.isTemporalUnit (types=%s)" % m.get("types")))
            frm = mp["frm"]
            shown = [f for f in frm if f.get("show_frame") == "1"]
            if len(shown) != 1 or not frm or frm[-1].get("show_frame") != "1":
                oracle_fail.append((a, r, i, "packet carries %d displayed frames (show flags in order: %s)" % (len(shown), ",".join(f.get("show_frame", "?") for f in frm))))
            has_key = any(f.get("frame_type") == "0" and f.get("show_existing") == "0" for f in frm)
            if (i == 0 or has_key) and m.get("seqhdr") != "1":
                oracle_fail.append((a, r, i, "no sequence header in %s" % ("the first packet" if i == 0 else "a packet carrying a key frame")))
            if m.get("seqhdr") == "1":
                hist["seqhdr_packets"] += 1
                if m.get("seqhdr_same_as_first") != "1":
                    oracle_fail.append((a, r, i, "sequence header differs from the first one of the stream"))
                if m.get("seqhdr_same_as_api") != "1":
                    api_bad = True
            # sequence header position: before the first frame OBU
            ts = m.get("types", "").split(",")
            if "1" in ts and any(t in ("6", "3") for t in ts[:ts.index("1")]):
                oracle_fail.append((a, r, i, "sequence header after a frame inside the packet (types=%s)" % m.get("types")))
            if shown:
                d = shown[-1]
                ft = d.get("frame_type")
                pt = p["pic_type"]
                cls_frame = {"0": "KEY", "2": "INTRA_ONLY"}.get(ft, "INTER")
                cls_pkt = {3: "KEY", 2: "INTRA_ONLY"}.get(pt, "INTER")
                if cls_frame != cls_pkt:
                    oracle_fail.append((a, r, i, "pic_type=%d (%s) but the displayed frame has frame_type=%s (%s)" % (pt, cls_pkt, ft, cls_frame)))
                if pt == 1 and d.get("show_existing") == "0" and not (p["flags"] & IS_ALT_REF):
                    f13.append((a, i, "packet %d: pic_type=1 (EB_AV1_ALT_REF_PICTURE) for a directly shown inter frame "
                                      "(show_frame=1 show_existing_frame=0 refresh=%s, flags=%d without IS_ALT_REF)" % (i, d.get("refresh"), p["flags"])))
                if bool(p["flags"] & SHOW_EXT) != (d.get("show_existing") == "1"):
                    oracle_fail.append((a, r, i, "EB_BUFFERFLAG_SHOW_EXT=%d but show_existing_frame=%s" % (bool(p["flags"] & SHOW_EXT), d.get("show_existing"))))
            # --- coverage
            if len(frm) > 1:
                hist["multi_frame_packets"] += 1
            for f in frm:
                n_frames += 1
                frame_types[f.get("frame_type")] = frame_types.get(f.get("frame_type"), 0) + 1
                if f.get("show_existing") == "1":
                    hist["show_existing_packets"] += 1
                    continue
                hist["intra_only_frames"] += f.get("frame_type") == "2"
                hist["non_shown_frames"] += f.get("show_frame") == "0"
                hist["superres_frames"] += f.get("use_superres") == "1"
                hist["tiled_frames"] += f.get("tile_cols") != "1" or f.get("tile_rows") != "1"
                hist["film_grain_frames"] += f.get("film_grain") == "1"
                hist["seg_frames"] += f.get("seg_enabled") == "1"
                hist["sct_frames"] += f.get("allow_sct") == "1"
                hist["intrabc_frames"] += f.get("allow_intrabc") == "1"
                hist["gm_nonidentity_frames"] += f.get("gm") != "0,0,0,0,0,0,0"
                hist["skip_mode_frames"] += f.get("skip_mode") == "1"
                hist["lr_frames"] += (f.get("lr_y"), f.get("lr_u"), f.get("lr_v")) != ("0", "0", "0")
            # --- correspondence with the real decoder
            dp = ds["pkts"].get(i)
            if dp is None or dp["dpk"] is None or dp["dpk"].get("err") != "0" or dp["dpk"].get("leftover") != "0":
                corr_fail.append((a, i, "real decoder did not decode the packet: %s (rc=%s)" % (dp["dpk"] if dp else None, ds["rc"])))
                continue
            if len(dp["frm"]) != len(frm):
                corr_fail.append((a, i, "frame headers: lean=%d decoder=%d" % (len(frm), len(dp["frm"]))))
                continue
            for k, (mf, cf) in enumerate(zip(frm, dp["frm"])):
                diffs, nk = compare_frame(mf, cf)
                n_fields += nk
                for key, lv, cv in diffs:
                    corr_fail.append((a, i, "frame %d field %s: lean=%s decoder=%s" % (k, key, lv, cv)))
            if len(dp["seq"]) != len(mp["seq"]):
                corr_fail.append((a, i, "sequence headers: lean=%d decoder=%d" % (len(mp["seq"]), len(dp["seq"]))))
            for msq, csq in zip(mp["seq"], dp["seq"]):
                n_seq += 1
                for k in SEQ_KEYS:
                    n_fields += 1
                    if msq.get(k) != csq.get(k):
                        corr_fail.append((a, i, "SEQ %s: lean=%s decoder=%s" % (k, msq.get(k), csq.get(k))))
            if samples < 4 and frm:
                chk.sample({"encode": tag, "packet": i, "lean": mp["line"], "pic_type": p["pic_type"], "flags": p["flags"]})
                samples += 1
        if api_bad:
            api_mismatch.append((a, r, ms))

    # ---- 4. coverage
    chk.cov["evaluations"] = n_pkts
    chk.cov["packets"] = n_pkts
    chk.cov["frame_headers_parsed"] = n_frames
    chk.cov["sequence_headers_compared"] = n_seq
    chk.cov["fields_compared_with_real_decoder"] = n_fields
    chk.cov["distinct_nontrivial"] = len(type_seqs)
    chk.cov["rule"] = ("distinct_nontrivial = number of distinct OBU type sequences seen in real packets; every packet of every usable "
                       "encode is parsed by the Lean parser and by the real decoder and all listed header fields compared")
    chk.cov["obu_type_sequences"] = type_seqs
    chk.cov["frame_types_seen"] = frame_types
    chk.cov["feature_histogram"] = hist
    chk.cov["disagreements_checked"] = n_fields
    chk.assumptions += [
        "streams are the encoder's: profile 0, 4:2:0, no scalability, no annexb, obu_has_size_field=1",
        "packet sizes below 2^28 bytes (bound of write_uleb_obu_size, available = 4)",
        "tile group payloads are opaque (only headers are parsed)"]

    # ---- 5. verdict
    def replay_text(a, r, what):
        return ("%s\nencode: %s\nreplay: bin/check C02 --replay <this file>\n%s\n%s\n" %
                (what, describe(a), MARK, "\n".join(model_input(r))))

    if model_err:
        chk.violation("svtmodel obu failed on real packets: %s\n" % model_err, tag="model", found_input=False)
    if oracle_fail:
        a, r, i, what = oracle_fail[0]
        chk.violation(replay_text(a, r, "C02 violated by a real encoder output packet\npacket index: %d\n%s\nfailing packets in this run: %d" % (i, what, len(oracle_fail))))
    if api_mismatch:
        a, r, ms = api_mismatch[0]
        hs = ms["hdr_seq"][0] if ms["hdr_seq"] else {}
        ps = next((p["seq"][0] for p in ms["pkts"] if p["seq"]), {})
        diff = ["%s: api=%s in-band=%s" % (k, hs.get(k), ps.get(k)) for k in SEQ_KEYS if hs.get(k) != ps.get(k)]
        first = next((r["HEX"][i] for i in sorted(r["HEX"])), "")
        chk.violation(replay_text(a, r, "sequence header returned by svt_av1_enc_stream_header (called after svt_av1_enc_init, before the first picture) "
                                        "is not byte-identical to the sequence header in the stream\napi header bytes: %s\nfirst packet starts: %s\n"
                                        "differing fields: %s\nencodes affected in this run: %d of %d" %
                                        (r["HDRHEX"], first[:40], "; ".join(diff), len(api_mismatch), len(usable))),
                      tag="apihdr", key="C02-stream-header-api-mismatch")
    if f13:
        a, i, what = f13[0]
        chk.violation("packet pic_type carries the slice-type enum\nencode: %s\n%s\npackets affected in this run: %d\n" % (describe(a), what, len(f13)),
                      tag="pictype", key="F13-pictype-slice-enum")
    if not oracle_fail:
        if not pr.ok:
            chk.violation("proof obligations do not check:\n%s\nforbidden tokens: %s\nno real packet violates the property (%d packets)\n" %
                          ("\n".join("%s: %s" % kv_ for kv_ in pr.failed.items()), pr.forbidden, n_pkts), tag="proof", found_input=False)
        if corr_fail:
            a, i, what = corr_fail[0]
            chk.violation("Lean header parser and the real decoder disagree (parser validation failed); the packets satisfy the C02 oracle\n"
                          "encode: %s\npacket %d: %s\ndisagreements: %d\n%s\n" %
                          (describe(a), i, what, len(corr_fail), "\n".join("pkt %d: %s" % (x[1], x[2]) for x in corr_fail[:20])),
                          tag="corr", found_input=False)
        if gm_bad:
            chk.violation("Lean global_motion_params reader and the real read_global_motion_params disagree on %d of %d random inputs\n"
                          "input: %s\nlean:    %s\ndecoder: %s\n" % (len(gm_bad), len(gml), gm_bad[0][0], gm_bad[0][1], gm_bad[0][2]),
                          tag="gm", found_input=False)
        if not usable:
            chk.violation("no usable encode: %s\n" % enc_problems[:3], tag="enc", found_input=False)


def replay(chk, path):
    """Re-run the encode named in the replay file (line `encode: k=v ...`)."""
    args = None
    for line in open(path):
        if line.startswith("encode: "):
            args = {}
            for tok in line[len("encode: "):].split():
                k, v = tok.split("=", 1)
                args[k] = int(v) if v.lstrip("-").isdigit() else v
            break
    run(chk, only_args=args)
