"""C02 — every output packet is one well-formed temporal unit.

(0) `xlate/obusites.py` regenerates lean/SvtVerif/Gen/ObuSites.lean: every OBU framing site of the encoder (header write,
    size-field reservation `obu_mem_move`, size-field encoding `write_uleb_obu_size`, accounted byte count) as expression trees.
(1) Lean proofs (LEB128 round trip, OBU list round trip, temporal-unit structure of the encode_tu model, and — over the generated
    table — `all_sites_consistent`: at every site the reserved value is the encoded value, for ALL payload sizes).
(2) Correspondence of the Lean OBU / sequence-header / frame-header parser (`svtmodel obu`) with the REAL decoder's
    parser: every packet of a matrix of REAL encodes is parsed by both, and the extracted fields are compared
    field by field (harness/dec_hdr.c links libSvtAv1Dec.a and prints the decoder handle's frame_header/seq_header).
    Correspondence of `ObuSite.layoutSite` with the REAL `obu_mem_move` + `write_uleb_obu_size` and the real
    `write_metadata_av1` on payload sizes around 127/128 and 16383/16384 (harness/obusite.c).
(3) The property's own oracle on the REAL packets (parse ok, TD first, exactly one displayed frame and it is the
    last one, sequence header in the first packet and with every key frame, byte-identical each time and to
    svt_av1_enc_stream_header, pic_type vs carried frame type), on
      * the feature matrix,
      * a boundary-directed family of tiny encodes, generated until OBU_FRAME payloads of 126, 127 and 128 bytes were all seen
        (LEB128 length boundary of the size field; the histogram is measured and reported),
      * one (thorough: three) stream(s) longer than the 2048-entry packetization reorder queue, so that queue entries and their
        show-existing bitstreams are reused,
      * the show-existing branch of `packetization_kernel` itself, extracted and run on real objects for > 2 x 2048 pictures
        (harness/pktz_se.c), every resulting show-existing packet through the same oracle.
"""
import os
import subprocess
import sys
import time
from . import common as C

sys.path.insert(0, os.path.join(C.VERIF, "xlate"))
sys.path.insert(0, os.path.join(C.VERIF, "harness"))

LEVEL = "proof"
MODULE = "SvtVerif.Props.C02"
MARK = "--- model input (feed to `svtmodel obu`; the same lines with `RESET w h bd` feed harness/dec_hdr) ---"
GEN = "SvtVerif/Gen/ObuSites.lean"

# keys compared between the Lean parser and the real decoder for every coded (not show-existing) frame
ALWAYS = ("show_existing frame_type show_frame showable error_res order_hint refresh primary_ref base_q_idx w h upw rw rh "
          "use_superres superres_denom allow_sct allow_intrabc tile_cols_log2 tile_rows_log2 tile_cols tile_rows uniform "
          "lf_y0 lf_y1 cdef_bits cdef_y cdef_uv lr_y lr_u lr_v tx_mode_select ref_select skip_mode warped reduced_tx gm gmp "
          "film_grain disable_cdf_update seg_enabled delta_q_present force_imv hp_mv ref_mvs disable_frame_end_cdf "
          "dq_ydc dq_udc dq_uac dq_vdc dq_vac qm seg_update_map seg_temporal seg_update_data delta_q_res delta_lf_present "
          "delta_lf_res delta_lf_multi coded_lossless cdef_damping skip_allowed ctx_tile_id").split()
INTER_ONLY = "ref_idx interp switchable_motion".split()
SHOW_EXISTING = "show_existing frame_type show_frame refresh".split()
SEQ_KEYS = ("profile w h sb128 filter_intra intra_edge interintra masked warped dual_filter order_hint jnt_comp ref_mvs sct "
            "intmv order_hint_bits superres cdef restoration bitdepth mono subx suby film_grain still reduced_still wbits "
            "hbits frame_ids timing decoder_model op_cnt level0 tier0 color_desc color_range csp sep_uv_dq").split()

EOS, SHOW_EXT, HAS_TD, IS_ALT_REF = 1, 2, 4, 8
BOUNDARY = (126, 127, 128)             # OBU payload sizes around the first LEB128 length boundary
QUEUE_DEPTH = 2048                     # PACKETIZATION_REORDER_QUEUE_MAX_DEPTH (harness/pktz_se.c prints the real value)


def kv(line):
    d = {}
    for tok in line.split()[1:] if not line.startswith("pkt=") else line.split():
        if "=" in tok:
            k, v = tok.split("=", 1)
            d[k] = v
    return d


def cases(chk):
    """The encode matrix: fixed feature cases + seeded random ones."""
    base = [
        dict(w=64, h=64, n=8, bd=8, content=4, **{"cfg.enc_mode": 8}),
        dict(w=192, h=128, n=12, bd=8, content=4, **{"cfg.enc_mode": 4, "cfg.hierarchical_levels": 4}),
        dict(w=128, h=64, n=12, bd=10, content=2, **{"cfg.enc_mode": 8, "cfg.hierarchical_levels": 3, "cfg.intra_period_length": 4}),
        dict(w=72, h=88, n=10, bd=8, content=4, **{"cfg.enc_mode": 8, "cfg.hierarchical_levels": 2}),
        dict(w=192, h=128, n=6, bd=8, content=0, **{"cfg.enc_mode": 8, "cfg.tile_columns": 1, "cfg.tile_rows": 1}),
        # superres needs loop restoration; TPL is switched off because superres + TPL segfaults in tpl_mc_flow (side finding)
        dict(w=128, h=128, n=8, bd=8, content=4, **{"cfg.enc_mode": 8, "cfg.superres_mode": 1, "cfg.superres_denom": 12, "cfg.superres_kf_denom": 10,
                                                    "cfg.enable_restoration_filtering": 1, "cfg.enable_tpl_la": 0, "cfg.intra_period_length": 3}),
        dict(w=128, h=96, n=6, bd=8, content=5, **{"cfg.enc_mode": 8, "cfg.screen_content_mode": 1}),
        dict(w=128, h=64, n=8, bd=8, content=0, **{"cfg.enc_mode": 4, "cfg.hierarchical_levels": 3, "cfg.film_grain_denoise_strength": 10}),
        dict(w=64, h=64, n=6, bd=8, content=2, **{"cfg.enc_mode": 8, "cfg.hierarchical_levels": 0}),
        dict(w=96, h=80, n=10, bd=8, content=4, **{"cfg.enc_mode": 8, "cfg.hierarchical_levels": 1, "cfg.intra_period_length": 3, "cfg.intra_refresh_type": 1}),
        dict(w=128, h=128, n=12, bd=10, content=4, **{"cfg.enc_mode": 4, "cfg.hierarchical_levels": 4, "cfg.qp": 20}),
        dict(w=192, h=128, n=6, bd=8, content=4, **{"cfg.enc_mode": 8, "cfg.enable_adaptive_quantization": 1, "cfg.qp": 40}),
    ]
    extra = 0 if chk.tier == "quick" else 48
    sizes = [(64, 64), (128, 64), (192, 128), (72, 88), (96, 80), (128, 128), (160, 96), (136, 72), (80, 120), (128, 96)]
    r = chk.rng
    for _ in range(extra):
        w, h = r.choice(sizes)
        a = dict(w=w, h=h, n=r.range(3, 12), bd=r.choice([8, 8, 10]), content=r.choice([0, 2, 4, 4, 5]))
        a["cfg.enc_mode"] = r.choice([4, 8, 8])
        a["cfg.hierarchical_levels"] = r.range(0, 4)
        if r.chance(1, 2):
            a["cfg.intra_period_length"] = r.range(1, 8)
            a["cfg.intra_refresh_type"] = r.choice([1, 2])
        if r.chance(1, 4) and w >= 128:
            a["cfg.tile_columns"] = r.range(0, 1)
            a["cfg.tile_rows"] = r.range(0, 1)
        if r.chance(1, 5):
            a["cfg.superres_mode"] = r.choice([1, 2])
            a["cfg.superres_denom"] = r.range(9, 16)
            a["cfg.superres_kf_denom"] = r.range(8, 16)
            a["cfg.enable_restoration_filtering"] = 1
            a["cfg.enable_tpl_la"] = 0
        if r.chance(1, 5):
            a["cfg.screen_content_mode"] = r.choice([1, 2])
        if r.chance(1, 6):
            a["cfg.film_grain_denoise_strength"] = r.range(1, 30)
        if r.chance(1, 4):
            a["cfg.qp"] = r.range(10, 60)
        if r.chance(1, 6):
            a["cfg.enable_adaptive_quantization"] = r.choice([1, 2])
        base.append(a)
    for i, a in enumerate(base):
        a.update(hex=1, recon=0, decode=0, seed=chk.seed * 1000 + i, watchdog=100)
    return base


def long_cases(chk):
    """Streams longer than the packetization reorder queue (2048 entries), hierarchical GOP with show-existing frames:
    every queue entry, and the 16-byte bitstream holding its show-existing header, is used a second time."""
    cs = [dict(w=64, h=64, n=QUEUE_DEPTH + 252, bd=8, content=4, **{"cfg.enc_mode": 8, "cfg.logical_processors": 1})]
    if chk.tier != "quick":
        # Leads for C11/C27 met while choosing these (accepted configurations on which the encoder stops producing packets):
        #   hierarchical_levels=5 with logical_processors=1 (64x64, enc_mode 8: 16 packets, then nothing);
        #   enable_overlays=1 with logical_processors=1 and intra_period_length=255 (nothing after packet 232 of a 4216-frame stream);
        #   hierarchical_levels=5 with enable_overlays=1 (no packet).  The 5-level stream therefore runs with the default thread count.
        cs.append(dict(w=64, h=64, n=QUEUE_DEPTH + 352, bd=8, content=2,
                       **{"cfg.enc_mode": 8, "cfg.logical_processors": 1, "cfg.hierarchical_levels": 3, "cfg.qp": 55}))
        cs.append(dict(w=64, h=64, n=2 * QUEUE_DEPTH + 120, bd=8, content=0,
                       **{"cfg.enc_mode": 8, "cfg.logical_processors": 1, "cfg.qp": 60, "cfg.intra_period_length": 255}))
        cs.append(dict(w=64, h=64, n=QUEUE_DEPTH + 252, bd=8, content=4, **{"cfg.enc_mode": 8, "cfg.hierarchical_levels": 5}))
    for i, a in enumerate(cs):
        a.update(hex=1, recon=0, decode=0, seed=chk.seed * 1000 + 900 + i, watchdog=900, kind="long")
    return cs


# ------------------------------------------------------------------------------------------------ boundary-directed family
B_SIZES = [(64, 64), (72, 64), (64, 72), (80, 64), (96, 64), (64, 96), (80, 80), (128, 64), (96, 96), (128, 128), (176, 144)]


def boundary_case(chk, idx, w, h, qp, content, levels, n):
    a = dict(w=w, h=h, n=n, bd=8, content=content, hex=1, recon=0, decode=0, seed=chk.seed * 1000 + 500 + idx, watchdog=300, kind="boundary")
    a.update({"cfg.enc_mode": 8, "cfg.qp": qp, "cfg.logical_processors": 1, "cfg.hierarchical_levels": levels})
    return a


def boundary_round(chk, idx0, scored, k=4):
    """k tiny real encodes.  First round: a spread over size / qp / content; afterwards: variations (new content seed, qp +-2, one
    size step) of the configurations that produced most OBU_FRAME payloads in [96, 160] so far."""
    r = chk.rng
    out = []
    best = sorted(scored, key=lambda s: -s[0])[:3]
    for j in range(k):
        if best and best[0][0] > 0 and not r.chance(1, 4):
            _, a = best[j % len(best)]
            w, h = a["w"], a["h"]
            if r.chance(1, 3):
                w, h = r.choice([(w, h), (min(176, w + 8), h), (w, min(144, h + 8)), (max(64, w - 8), h)])
            qp = max(40, min(63, a["cfg.qp"] + r.range(-2, 2)))
            content = a["content"] if not r.chance(1, 5) else r.choice([4, 2, 0])
            levels = a["cfg.hierarchical_levels"] if not r.chance(1, 4) else r.choice([3, 4])
        else:
            w, h = r.choice(B_SIZES)
            qp = r.range(50, 63)
            content = r.choice([4, 4, 2, 0, 1])
            levels = r.choice([3, 4])
        out.append(boundary_case(chk, idx0 + j, w, h, qp, content, levels, r.choice([160, 240, 320])))
    return out


def model_input(r, with_dims=None, upto=None):
    first = "RESET" if with_dims is None else "RESET %d %d %d" % with_dims
    lines = [first]
    if r["HDRHEX"]:
        lines.append("HDR " + r["HDRHEX"])
    for i in sorted(r["HEX"]):
        if upto is not None and i > upto:
            break
        lines.append("PKT %d %s" % (i, r["HEX"][i]))
    return lines


def split_model_output(out):
    """-> list of streams; each {'hdr': str|None, 'hdr_seq': [..], 'pkts': [{'line':..,'kv':..,'seq':[..],'frm':[..]}]}"""
    streams = []
    cur = None
    where = None
    for line in out.split("\n"):
        if not line:
            continue
        if line == "reset":
            cur = {"hdr": None, "hdr_seq": [], "pkts": []}
            streams.append(cur)
        elif line.startswith("HDR "):
            cur["hdr"] = kv(line)
            where = cur["hdr_seq"]
        elif line.startswith("pkt="):
            p = {"line": line, "kv": kv(line), "seq": [], "frm": []}
            cur["pkts"].append(p)
            where = None
        elif line.startswith("SEQ "):
            (cur["pkts"][-1]["seq"] if where is None else where).append(kv(line))
        elif line.startswith("FRM "):
            cur["pkts"][-1]["frm"].append(kv(line))
    return streams


def run_dec(exe, r, dims):
    text = "\n".join(model_input(r, dims)) + "\n"
    try:
        p = subprocess.run([exe], input=text.encode(), stdout=subprocess.PIPE, stderr=subprocess.PIPE, timeout=600)
        rc, out = p.returncode, p.stdout.decode("utf-8", "replace")
    except subprocess.TimeoutExpired:
        rc, out = 124, ""
    d = {"rc": rc, "hdr_seq": [], "pkts": {}}
    for line in out.split("\n"):
        if line.startswith("SEQ "):
            k = kv(line)
            if k.get("pkt") == "-1":
                d["hdr_seq"].append(k)
            else:
                d["pkts"].setdefault(int(k["pkt"]), {"seq": [], "frm": [], "dpk": None})["seq"].append(k)
        elif line.startswith("FRM "):
            k = kv(line)
            d["pkts"].setdefault(int(k["pkt"]), {"seq": [], "frm": [], "dpk": None})["frm"].append(k)
        elif line.startswith("DPK "):
            k = kv(line)
            d["pkts"].setdefault(int(k["pkt"]), {"seq": [], "frm": [], "dpk": None})["dpk"] = k
    return d


def compare_frame(m, c):
    """Lean FRM kv vs decoder FRM kv -> list of (key, lean, dec)."""
    diffs = []
    if m.get("show_existing") == "1" or c.get("show_existing") == "1":
        keys = list(SHOW_EXISTING)
    else:
        keys = list(ALWAYS)
        if m.get("frame_type") in ("1", "3"):
            keys += INTER_ONLY
        if m.get("lf_y0") != "0" or m.get("lf_y1") != "0":
            keys += ["lf_u", "lf_v"]
        if m.get("coded_lossless") == "0" and m.get("allow_intrabc") == "0":
            keys += ["lf_sharp", "lf_delta_en"]
            if m.get("lf_delta_en") == "1":
                keys += ["lf_delta_upd"]
        if m.get("qm") == "1":
            keys += ["qm_y", "qm_u", "qm_v"]
        if m.get("film_grain") == "1" and m.get("fg_update") == "1":
            keys += ["fg_update"]     # with update_parameters = 0 the decoder's struct is overwritten by load_grain_params
        if m.get("tile_cols_log2") != "0" or m.get("tile_rows_log2") != "0":
            keys += ["tile_size_bytes"]
    for k in keys:
        if m.get(k) != c.get(k):
            diffs.append((k, m.get(k), c.get(k)))
    return diffs, len(keys)


def gm_lines(chk, n):
    """Seeded random inputs for global_motion_params(): bits biased towards is_global = 1, optional previous parameters."""
    r = chk.rng
    lines = []
    for _ in range(n):
        nbytes = 176
        mode = r.below(4)
        bs = bytearray(r.below(256) for _ in range(nbytes))
        if mode == 0:      # dense ones: many non-identity models and long sub-exponential escapes
            bs = bytearray((r.below(256) | r.below(256)) for _ in range(nbytes))
        elif mode == 1:    # sparse: mostly identity
            bs = bytearray((r.below(256) & r.below(256)) for _ in range(nbytes))
        hp = r.below(2)
        if r.chance(1, 2):
            prev = []
            for _ref in range(7):
                for j in range(6):
                    if j < 2:
                        v = r.range(-(1 << 21), 1 << 21)            # translation, WARPEDMODEL_PREC_BITS precision
                    else:
                        v = r.range(-(1 << 13), 1 << 13) * (1 if r.chance(1, 2) else 2) + ((1 << 16) if j % 3 == 2 else 0)
                    prev.append(v)
            lines.append("GM %d 1 %s %s" % (hp, " ".join(str(v) for v in prev), bs.hex()))
        else:
            lines.append("GM %d 0 %s" % (hp, bs.hex()))
    return lines


def describe(args):
    return " ".join("%s=%s" % (k, v) for k, v in args.items() if k != "kind")


class Acc:
    """Everything accumulated over the real packets of a run."""

    def __init__(self):
        self.corr_fail = []      # (args, pkt, what)
        self.oracle_fail = []    # (args, r, pkt, what)
        self.api_mismatch = []   # (args, r, ms)
        self.f13 = []            # (args, pkt, text)
        self.n_pkts = self.n_frames = self.n_fields = self.n_seq = 0
        self.type_seqs = {}
        self.frame_types = {}
        self.hist = {"show_existing_packets": 0, "multi_frame_packets": 0, "seqhdr_packets": 0, "intra_only_frames": 0,
                     "non_shown_frames": 0, "superres_frames": 0, "tiled_frames": 0, "film_grain_frames": 0, "seg_frames": 0,
                     "sct_frames": 0, "intrabc_frames": 0, "gm_nonidentity_frames": 0, "skip_mode_frames": 0, "lr_frames": 0,
                     "pic_type": {}}
        self.samples = 0
        self.payload_sizes = {}          # obu type -> {payload size: count}
        self.boundary_by_kind = {}       # encode kind -> {126|127|128: count} (OBU_FRAME / OBU_FRAME_HEADER payloads)
        self.usable = 0
        self.encodes = 0
        self.enc_problems = []
        self.model_err = None
        self.by_kind = {}
        self.packets_beyond_queue = 0    # packets with index >= 2048 (a queue entry used for the second time)
        self.show_existing_beyond_queue = 0


def encode_all(cs, workers=4):
    return C.run_parallel(lambda a: C.run_e2e({k: v for k, v in a.items() if k != "kind"}, timeout=a.get("watchdog", 100) + 100), cs, workers=workers)


def process(chk, acc, cs, results, dexe=None):
    """Lean parser (+ real decoder when `dexe`) over the packets of the given encodes; oracle; histograms.
    Returns per encode the number of OBU_FRAME payloads in [96, 160] (density near the first LEB128 boundary)."""
    usable = []
    density = []
    for a, r in zip(cs, results):
        acc.encodes += 1
        acc.by_kind[a.get("kind", "matrix")] = acc.by_kind.get(a.get("kind", "matrix"), 0) + 1
        if r["crashed"] or r["hung"] or r["SETPARAM"] not in (0,) or not r["PKT"] or len(r["HEX"]) != len(r["PKT"]):
            acc.enc_problems.append((describe(a), "rc=%s setparam=%s packets=%d err=%s" % (r["rc"], r["SETPARAM"], len(r["PKT"]), r["ERR"][:2])))
        else:
            usable.append((a, r))
    acc.usable += len(usable)
    if not usable:
        return [0 for _ in cs]
    text = "\n".join("\n".join(model_input(r)) for _, r in usable) + "\n"
    try:
        mstreams = split_model_output(C.run_model("obu", text))
    except (RuntimeError, C.BuildError) as e:
        acc.model_err = str(e)[-1500:]
        return [0 for _ in cs]
    decs = C.run_parallel(lambda ar: run_dec(dexe, ar[1], (ar[0]["w"], ar[0]["h"], ar[0]["bd"])), usable, workers=4) if dexe else [None] * len(usable)
    dens_of = {}
    for si, (a, r) in enumerate(usable):
        if si >= len(mstreams):
            break
        ms, ds = mstreams[si], decs[si]
        tag = describe(a)
        dens = 0
        # stream header
        if ms["hdr"] is None or ms["hdr"].get("ok") != "1" or len(ms["hdr_seq"]) != 1:
            acc.oracle_fail.append((a, r, -1, "stream header from svt_av1_enc_stream_header is not exactly one parseable sequence header OBU: %s" % ms["hdr"]))
        elif ds is not None and ds["hdr_seq"]:
            acc.n_seq += 1
            for k in SEQ_KEYS:
                if ms["hdr_seq"][0].get(k) != ds["hdr_seq"][0].get(k):
                    acc.corr_fail.append((a, -1, "SEQ(api) %s: lean=%s decoder=%s" % (k, ms["hdr_seq"][0].get(k), ds["hdr_seq"][0].get(k))))
        if len(ms["pkts"]) != len(r["PKT"]):
            acc.corr_fail.append((a, -1, "model printed %d packet lines for %d packets" % (len(ms["pkts"]), len(r["PKT"]))))
            continue
        api_bad = False
        for p, mp in zip(r["PKT"], ms["pkts"]):
            i = p["i"]
            m = mp["kv"]
            acc.n_pkts += 1
            acc.type_seqs[m.get("types", "")] = acc.type_seqs.get(m.get("types", ""), 0) + 1
            acc.hist["pic_type"][str(p["pic_type"])] = acc.hist["pic_type"].get(str(p["pic_type"]), 0) + 1
            if i >= QUEUE_DEPTH:
                acc.packets_beyond_queue += 1
            # --- oracle
            if m.get("ok") != "1":
                acc.oracle_fail.append((a, r, i, "packet does not parse: %s" % m.get("err")))
                continue
            ts = m.get("types", "").split(",")
            for t, sz in zip(ts, m.get("sizes", "").split(",")):
                if sz.isdigit():
                    h = acc.payload_sizes.setdefault(t, {})
                    h[int(sz)] = h.get(int(sz), 0) + 1
                    if t == "6" and 96 <= int(sz) <= 160:
                        dens += 1
                    if t in ("6", "3") and int(sz) in BOUNDARY:
                        bk = acc.boundary_by_kind.setdefault(a.get("kind", "matrix"), {})
                        bk[sz] = bk.get(sz, 0) + 1
            if m.get("td_first") != "1":
                acc.oracle_fail.append((a, r, i, "packet does not start with a temporal delimiter (types=%s)" % m.get("types")))
            if ts.count("2") != 1:
                acc.oracle_fail.append((a, r, i, "packet contains %d temporal delimiters (types=%s)" % (ts.count("2"), m.get("types"))))
            if m.get("tu") != "1":
                acc.oracle_fail.append((a, r, i, "packet is not a temporal unit in the sense of Tu.isTemporalUnit (types=%s)" % m.get("types")))
            frm = mp["frm"]
            shown = [f for f in frm if f.get("show_frame") == "1"]
            if len(shown) != 1 or not frm or frm[-1].get("show_frame") != "1":
                acc.oracle_fail.append((a, r, i, "packet carries %d displayed frames (show flags in order: %s; OBU types %s)" %
                                        (len(shown), ",".join(f.get("show_frame", "?") for f in frm), m.get("types"))))
            has_key = any(f.get("frame_type") == "0" and f.get("show_existing") == "0" for f in frm)
            if (i == 0 or has_key) and m.get("seqhdr") != "1":
                acc.oracle_fail.append((a, r, i, "no sequence header in %s" % ("the first packet" if i == 0 else "a packet carrying a key frame")))
            if m.get("seqhdr") == "1":
                acc.hist["seqhdr_packets"] += 1
                if m.get("seqhdr_same_as_first") != "1":
                    acc.oracle_fail.append((a, r, i, "sequence header differs from the first one of the stream"))
                if m.get("seqhdr_same_as_api") != "1":
                    api_bad = True
            # sequence header position: before the first frame OBU
            if "1" in ts and any(t in ("6", "3") for t in ts[:ts.index("1")]):
                acc.oracle_fail.append((a, r, i, "sequence header after a frame inside the packet (types=%s)" % m.get("types")))
            if shown:
                d = shown[-1]
                ft = d.get("frame_type")
                pt = p["pic_type"]
                cls_frame = {"0": "KEY", "2": "INTRA_ONLY"}.get(ft, "INTER")
                cls_pkt = {3: "KEY", 2: "INTRA_ONLY"}.get(pt, "INTER")
                if cls_frame != cls_pkt:
                    acc.oracle_fail.append((a, r, i, "pic_type=%d (%s) but the displayed frame has frame_type=%s (%s)" % (pt, cls_pkt, ft, cls_frame)))
                if pt == 1 and d.get("show_existing") == "0" and not (p["flags"] & IS_ALT_REF):
                    acc.f13.append((a, i, "packet %d: pic_type=1 (EB_AV1_ALT_REF_PICTURE) for a directly shown inter frame "
                                          "(show_frame=1 show_existing_frame=0 refresh=%s, flags=%d without IS_ALT_REF)" % (i, d.get("refresh"), p["flags"])))
                if bool(p["flags"] & SHOW_EXT) != (d.get("show_existing") == "1"):
                    acc.oracle_fail.append((a, r, i, "EB_BUFFERFLAG_SHOW_EXT=%d but show_existing_frame=%s" % (bool(p["flags"] & SHOW_EXT), d.get("show_existing"))))
            # --- coverage
            if len(frm) > 1:
                acc.hist["multi_frame_packets"] += 1
            for f in frm:
                acc.n_frames += 1
                acc.frame_types[f.get("frame_type")] = acc.frame_types.get(f.get("frame_type"), 0) + 1
                if f.get("show_existing") == "1":
                    acc.hist["show_existing_packets"] += 1
                    if i >= QUEUE_DEPTH:
                        acc.show_existing_beyond_queue += 1
                    continue
                acc.hist["intra_only_frames"] += f.get("frame_type") == "2"
                acc.hist["non_shown_frames"] += f.get("show_frame") == "0"
                acc.hist["superres_frames"] += f.get("use_superres") == "1"
                acc.hist["tiled_frames"] += f.get("tile_cols") != "1" or f.get("tile_rows") != "1"
                acc.hist["film_grain_frames"] += f.get("film_grain") == "1"
                acc.hist["seg_frames"] += f.get("seg_enabled") == "1"
                acc.hist["sct_frames"] += f.get("allow_sct") == "1"
                acc.hist["intrabc_frames"] += f.get("allow_intrabc") == "1"
                acc.hist["gm_nonidentity_frames"] += f.get("gm") != "0,0,0,0,0,0,0"
                acc.hist["skip_mode_frames"] += f.get("skip_mode") == "1"
                acc.hist["lr_frames"] += (f.get("lr_y"), f.get("lr_u"), f.get("lr_v")) != ("0", "0", "0")
            # --- correspondence with the real decoder
            if ds is None:
                continue
            dp = ds["pkts"].get(i)
            if dp is None or dp["dpk"] is None or dp["dpk"].get("err") != "0" or dp["dpk"].get("leftover") != "0":
                acc.corr_fail.append((a, i, "real decoder did not decode the packet: %s (rc=%s)" % (dp["dpk"] if dp else None, ds["rc"])))
                continue
            if len(dp["frm"]) != len(frm):
                acc.corr_fail.append((a, i, "frame headers: lean=%d decoder=%d" % (len(frm), len(dp["frm"]))))
                continue
            for k, (mf, cf) in enumerate(zip(frm, dp["frm"])):
                diffs, nk = compare_frame(mf, cf)
                acc.n_fields += nk
                for key, lv, cv in diffs:
                    acc.corr_fail.append((a, i, "frame %d field %s: lean=%s decoder=%s" % (k, key, lv, cv)))
            if len(dp["seq"]) != len(mp["seq"]):
                acc.corr_fail.append((a, i, "sequence headers: lean=%d decoder=%d" % (len(mp["seq"]), len(dp["seq"]))))
            for msq, csq in zip(mp["seq"], dp["seq"]):
                acc.n_seq += 1
                for k in SEQ_KEYS:
                    acc.n_fields += 1
                    if msq.get(k) != csq.get(k):
                        acc.corr_fail.append((a, i, "SEQ %s: lean=%s decoder=%s" % (k, msq.get(k), csq.get(k))))
            if acc.samples < 4 and frm:
                chk.sample({"encode": tag, "packet": i, "lean": mp["line"], "pic_type": p["pic_type"], "flags": p["flags"]})
                acc.samples += 1
        if api_bad:
            acc.api_mismatch.append((a, r, ms))
        dens_of[id(a)] = dens
    return [dens_of.get(id(a), 0) for a in cs]


def boundary_seen(acc):
    """{126: n, 127: n, 128: n} over OBU_FRAME / OBU_FRAME_HEADER payloads of real packets."""
    return {b: acc.payload_sizes.get("6", {}).get(b, 0) + acc.payload_sizes.get("3", {}).get(b, 0) for b in BOUNDARY}


# ------------------------------------------------------------------------------------------------ unit level: sites and the kernel branch
def gen_inc():
    import extract
    import pktz_se_extract
    inc = pktz_se_extract.write_inc(C.gen_src_dir())
    t = extract.function_text("Source/Lib/Encoder/Codec/EbEntropyCoding.c", "obu_mem_move") + "\n"
    p = os.path.join(inc, "obusite_extracted.inc")
    if not os.path.exists(p) or open(p).read() != t:
        open(p, "w").write(t)
    return inc


def site_unit(chk, sites_info):
    """`ObuSite.layoutSite` of every generated moving site vs the REAL obu_mem_move + write_uleb_obu_size, and of the metadata site
    vs the REAL write_metadata_av1, on payload sizes around the LEB128 length boundaries.
    Returns (ops, model/real mismatches, real metadata OBUs the parser rejects)."""
    exe = C.compile_harness("obusite", [os.path.join(C.VERIF, "harness", "obusite.c")], libs=["libSvtAv1Enc.a"],
                            extra=["-I" + gen_inc(), "-DNDEBUG"])
    r = chk.rng
    psizes = [0, 1, 2, 125, 126, 127, 128, 129, 130, 255, 256, 16382, 16383, 16384, 16385] + [r.range(3, 20000) for _ in range(6)]
    if chk.tier != "quick":
        psizes += [2097150, 2097151, 2097152, 2097153] + [r.range(3, 300000) for _ in range(20)]
    ops = []
    for p in psizes:
        for hdr in ("32", "0a", "2a", "3620"):
            if hdr == "3620" and p > 300:
                continue
            payload = bytes(r.below(256) for _ in range(min(p, 64))) * (p // 64 + 1)
            ops.append(("MM", hdr, payload[:p].hex() or "-"))
    msizes = [1, 2, 123, 124, 125, 126, 127, 128, 16380, 16381, 16382, 16383] + [r.range(2, 18000) for _ in range(4)]
    mops = [("META", sz, r.below(1 << 30)) for sz in msizes]
    text = "".join("MM %s %s\n" % (h, p) for _, h, p in ops) + "".join("META %d %d\n" % (sz, sd) for _, sz, sd in mops)
    rc, cout = C.sh([exe], input=text.encode(), timeout=600)
    cl = [l for l in cout.split("\n") if l.startswith("MM ") or l.startswith("META ")]
    mism = []
    if rc != 0 or len(cl) != len(ops) + len(mops):
        return len(cl), [("harness/obusite rc=%s printed %d lines for %d ops" % (rc, len(cl), len(ops) + len(mops)), "", "")], []
    moving = [s for s in sites_info if s.get("moving") == "1"]
    meta = [s for s in sites_info if s.get("types") == "5"]
    lines = []
    for s in moving:
        for _, h, p in ops:
            lines.append("SITE %s %s %s" % (s["k"], h, p))
    metas = [kv(l) for l in cl[len(ops):]]
    if any(mk.get("len") == "0" or not mk.get("hex") for mk in metas):
        return len(cl), [("harness/obusite: write_metadata_av1 wrote nothing for a non-empty metadata item", "", str([mk.get("sz") for mk in metas if not mk.get("hex")]))], []
    for s in meta:
        for mk in metas:
            lines.append("SITE %s %s %s" % (s["k"], "2a", mk["payload"]))
    mout = [l for l in C.run_model("obu", "\n".join(lines) + "\n").split("\n") if l.startswith("SITE ")]
    if len(mout) != len(lines):
        return len(cl), [("svtmodel obu printed %d SITE lines for %d ops" % (len(mout), len(lines)), "", "")], []
    j = 0
    for s in moving:
        for (_, h, p), c in zip(ops, cl[:len(ops)]):
            ck, mk = kv(c), kv(mout[j])
            j += 1
            if ck.get("hex") != mk.get("hex") or ck.get("len") != mk.get("len"):
                mism.append(("site %s (%s): header %s, payload of %d bytes" % (s["k"], s["name"], h, 0 if p == "-" else len(p) // 2),
                             "lean layoutSite: len=%s %s.." % (mk.get("len"), (mk.get("hex") or "")[:40]),
                             "real obu_mem_move + write_uleb_obu_size(hdr, payload): len=%s %s.." % (ck.get("len"), (ck.get("hex") or "")[:40])))
    for s in meta:
        for mk_c in metas:
            mk = kv(mout[j])
            j += 1
            if mk_c.get("hex") != mk.get("hex") or mk_c.get("err") != "0":
                mism.append(("site %s (%s): real write_metadata_av1 with %s metadata bytes" % (s["k"], s["name"], mk_c.get("sz")),
                             "lean layoutSite: len=%s %s.." % (mk.get("len"), (mk.get("hex") or "")[:40]),
                             "real: err=%s len=%s %s.." % (mk_c.get("err"), mk_c.get("len"), (mk_c.get("hex") or "")[:40])))
    # the real metadata OBUs must also parse (independent of the site model): framing oracle on real bytes
    ptext = "RESET\n" + "".join("PKT %d %s\n" % (i, mk["hex"]) for i, mk in enumerate(metas))
    pk = [kv(l) for l in C.run_model("obu", ptext).split("\n") if l.startswith("pkt=")]
    bad_real = []
    for mk_c, m in zip(metas, pk):
        want = str(int(mk_c["sz"]) + 2)
        if m.get("err", "").startswith("obu:") or m.get("types") != "5" or m.get("sizes") != want:
            bad_real.append("real write_metadata_av1 output for %s metadata bytes is not one OBU_METADATA with a %s-byte payload: "
                            "parser says err=%s types=%s sizes=%s; bytes %s.." % (mk_c["sz"], want, m.get("err"), m.get("types"), m.get("sizes"), mk_c["hex"][:40]))
    chk.cov["site_unit"] = {"mem_move_ops": len(ops), "metadata_ops": len(mops), "moving_sites_compared": [s["name"] for s in moving],
                            "payload_sizes": sorted(set(psizes))[:40], "metadata_payload_sizes": sorted(sz + 2 for sz in msizes)}
    return len(lines), mism, bad_real


def kernel_branch_unit(chk):
    """The extracted show-existing branch of packetization_kernel on real objects, more pictures than queue entries; every resulting
    show-existing packet (temporal delimiter + the entry's bitstream, as encode_show_existing assembles it) through the oracle."""
    exe = C.compile_harness("pktz_se", [os.path.join(C.VERIF, "harness", "pktz_se.c")], libs=["libSvtAv1Enc.a"],
                            extra=["-I" + gen_inc(), "-DNDEBUG"])
    passes = 3 if chk.tier == "quick" else 6
    runs = ["RUN %d 4 0 0" % (passes * QUEUE_DEPTH + 40), "RUN %d 3 7 %d" % (2 * QUEUE_DEPTH + 300, chk.rng.range(1, 40)),
            "RUN %d 8 2 125" % (2 * QUEUE_DEPTH + 64)]
    fails = []
    n = 0
    reused = 0
    for run in runs:
        rc, out = C.sh([exe], input=(run + "\n").encode(), timeout=600)
        se = [kv(l) for l in out.split("\n") if l.startswith("SE ")]
        depth = [l.split()[1] for l in out.split("\n") if l.startswith("DEPTH ")]
        if rc != 0 or not se:
            fails.append((run, "harness/pktz_se failed: rc=%s, %d SE lines, output tail: %s" % (rc, len(se), out[-300:])))
            continue
        if depth and int(depth[0]) != QUEUE_DEPTH:
            chk.cov["queue_depth_in_repo"] = int(depth[0])
        text = "RESET\n" + "".join("PKT %d 1200%s\n" % (i, s.get("hex", "")) for i, s in enumerate(se))
        pk = [kv(l) for l in C.run_model("obu", text).split("\n") if l.startswith("pkt=")]
        for s, m in zip(se, pk):
            n += 1
            reused += s.get("use") != "1"
            want_types = "2,3" if s.get("meta") == "0" else "2,5,3"
            if m.get("err", "").startswith("obu:") or m.get("tu") != "1" or m.get("types") != want_types:
                fails.append((run, "picture with decode_order %s (queue entry %s, use no. %s of that entry, show_existing_frame=%s): the show-existing "
                                   "packet `TD ++ entry bitstream` = 1200%s has OBU types %s (expected %s), temporal unit with exactly one displayed frame: %s, "
                                   "framing error: %s" % (s.get("d"), s.get("slot"), s.get("use"), s.get("idx"), s.get("hex"), m.get("types"), want_types,
                                                          m.get("tu") == "1", m.get("err"))))
    chk.cov["kernel_show_existing_unit"] = {"runs": runs, "branch_executions": n, "on_reused_entries": reused}
    return n, fails


def run(chk, only_args=None, only_unit=False):
    t_start = time.time()
    quick = chk.tier == "quick"
    # ---- 0. regenerate the framing-site table from the current tree
    import cfun
    import obusites
    site_table, terr = None, None
    try:
        site_table = obusites.main(os.path.join(C.LEAN, GEN))
    except cfun.Unsupported as e:
        terr = str(e)
    chk.cov["framing_sites"] = site_table if site_table is not None else "translator refused: %s" % terr
    # ---- 1. proofs
    pr = chk.proofs(MODULE, trusted_extra=[
        "xlate/obusites.py: clang-14 JSON AST -> per framing site the size expressions of obu_mem_move / write_uleb_obu_size / the write-pointer "
        "advance over hdr and payload (callee bodies and locals inlined; `payload` = what is appended behind the header; refuses unknown shapes)",
        "harness/dec_hdr.c: the real decoder (libSvtAv1Dec.a, public API, one svt_av1_dec_frame per frame) whose handle fields "
        "(frame_header, seq_header, cur_pic_buf->global_motion) are printed and compared with the Lean parser on every real packet",
        "harness/enc_e2e.c: the real encoder producing the packets",
        "harness/obusite.c: real obu_mem_move / write_uleb_obu_size / write_metadata_av1 vs ObuSite.layoutSite",
        "harness/pktz_se.c: the show-existing branch of packetization_kernel (extracted text) on real queue entries; the pictures reaching it are hand-written"])
    acc = Acc()
    proof_broken = (not pr.ok) or terr is not None
    timing = {"xlate_and_proofs_s": round(time.time() - t_start, 1)}
    t_mark = time.time()
    # ---- 2. unit level
    sites_info = []
    site_mism, site_bad_real, se_fails = [], [], []
    n_site_ops = n_se = 0
    unit_err = None
    try:
        sites_info = [kv(l) for l in C.run_model("obu", "SITES\n").split("\n") if l.startswith("SITEINFO ")]
        if not only_args:
            n_site_ops, site_mism, site_bad_real = site_unit(chk, sites_info)
            n_se, se_fails = kernel_branch_unit(chk)
    except (RuntimeError, C.BuildError, cfun.Unsupported) as e:
        unit_err = str(e)[-1500:]
    inconsistent = [s["name"] for s in sites_info if s.get("consistent") != "1"]
    timing["unit_harnesses_s"] = round(time.time() - t_mark, 1)
    t_mark = time.time()
    chk.cov["framing_sites_consistent"] = {s["name"]: s.get("consistent") == "1" for s in sites_info}
    # ---- 3. real encodes: matrix + long stream(s) + boundary family
    dexe = C.compile_harness("dec_hdr", [os.path.join(C.VERIF, "harness", "dec_hdr.c")], libs=["libSvtAv1Dec.a"])
    scored = []
    rounds = 0
    if only_unit:
        cs = []
    elif only_args:
        cs = [only_args]
    else:
        first = boundary_round(chk, 0, scored)
        cs = long_cases(chk) + first + cases(chk)
        rounds = 1
    results = encode_all(cs)
    timing["first_batch_encodes_s"] = round(time.time() - t_mark, 1)
    t_mark = time.time()
    dens = process(chk, acc, cs, results, dexe)
    timing["first_batch_parse_and_decode_s"] = round(time.time() - t_mark, 1)
    for a, d in zip(cs, dens):
        if a.get("kind") == "boundary":
            scored.append((d, a))
    # boundary search: until 126, 127, 128 were all seen (budget), or — when an obligation is broken — until a real packet fails
    t_b = time.time()
    budget = (75 if quick else 400)
    budget_broken = (170 if quick else 900)
    idx = 4
    while not only_args and not only_unit:
        seen = boundary_seen(acc)
        done = all(seen[b] > 0 for b in BOUNDARY)
        el = time.time() - t_b
        if acc.oracle_fail:
            break
        if proof_broken or inconsistent or site_mism:
            if el > budget_broken:
                break
        elif done or el > budget:
            break
        rnd = boundary_round(chk, idx, scored)
        idx += len(rnd)
        rounds += 1
        res = encode_all(rnd)
        dens = process(chk, acc, rnd, res, None)
        for a, d in zip(rnd, dens):
            scored.append((d, a))

    # ---- 2b. global_motion_params(): the real encoder never produced a non-identity model on the synthetic inputs, so the
    # Lean reader is compared with the real read_global_motion_params (EbDecParseObu.c l.1171) on seeded random bits
    gml = gm_lines(chk, 300 if quick else 5000)
    gm_bad = []
    gm_types = {}
    try:
        rc, cout = C.sh([dexe], input=("RESET 64 64 8\n" + "\n".join(gml) + "\n").encode())
        cg = [l for l in cout.split("\n") if l.startswith("GM ")]
        mg = [l for l in C.run_model("obu", "\n".join(gml) + "\n").split("\n") if l.startswith("GM ")]
        if len(cg) != len(gml) or len(mg) != len(gml):
            gm_bad.append(("count", "lean=%d decoder=%d expected=%d" % (len(mg), len(cg), len(gml)), ""))
        else:
            for inp, m_, c_ in zip(gml, mg, cg):
                for t in kv(m_).get("types", "").split(","):
                    gm_types[t] = gm_types.get(t, 0) + 1
                if m_ != c_:
                    gm_bad.append((inp, m_, c_))
    except (RuntimeError, C.BuildError) as e:
        gm_bad.append(("run", str(e)[-500:], ""))
    chk.cov["gm_random_inputs"] = len(gml)
    timing["boundary_search_s"] = round(time.time() - t_b, 1)
    chk.cov["timing"] = timing
    chk.cov["gm_types_decoded"] = gm_types

    # ---- 4. coverage
    seen = boundary_seen(acc)
    fsz = acc.payload_sizes.get("6", {})
    chk.cov["encodes"] = acc.encodes
    chk.cov["encodes_usable"] = acc.usable
    chk.cov["encodes_by_kind"] = acc.by_kind
    if acc.enc_problems:
        chk.cov["encodes_not_usable"] = acc.enc_problems[:10]
    chk.cov["evaluations"] = acc.n_pkts + n_se
    chk.cov["packets"] = acc.n_pkts
    chk.cov["frame_headers_parsed"] = acc.n_frames
    chk.cov["sequence_headers_compared"] = acc.n_seq
    chk.cov["fields_compared_with_real_decoder"] = acc.n_fields
    chk.cov["distinct_nontrivial"] = len(acc.type_seqs)
    chk.cov["rule"] = ("distinct_nontrivial = number of distinct OBU type sequences seen in real packets; every packet of every usable "
                       "encode is parsed by the Lean parser (matrix and long streams also by the real decoder, all listed header fields compared)")
    chk.cov["obu_type_sequences"] = acc.type_seqs
    chk.cov["frame_types_seen"] = acc.frame_types
    chk.cov["feature_histogram"] = acc.hist
    chk.cov["disagreements_checked"] = acc.n_fields + n_site_ops
    chk.cov["leb128_boundary"] = {
        "target": "OBU_FRAME / OBU_FRAME_HEADER payloads of exactly 126, 127, 128 bytes in real packets (size field grows from 1 to 2 bytes at 128)",
        "seen": {str(b): seen[b] for b in BOUNDARY},
        "all_hit": all(seen[b] > 0 for b in BOUNDARY),
        "seen_by_encode_kind": acc.boundary_by_kind,
        "boundary_rounds": rounds, "boundary_encodes": acc.by_kind.get("boundary", 0), "search_seconds": round(time.time() - t_b, 1),
        "frame_payload_sizes_120_135": {str(s): fsz.get(s, 0) for s in range(120, 136)},
        "frame_payload_hist": {"1-15": sum(v for s, v in fsz.items() if s < 16), "16-63": sum(v for s, v in fsz.items() if 16 <= s < 64),
                               "64-125": sum(v for s, v in fsz.items() if 64 <= s < 126), "126-128": sum(v for s, v in fsz.items() if 126 <= s <= 128),
                               "129-1023": sum(v for s, v in fsz.items() if 129 <= s < 1024), "1024-16382": sum(v for s, v in fsz.items() if 1024 <= s < 16383),
                               "16383-16384": sum(v for s, v in fsz.items() if 16383 <= s <= 16384), ">16384": sum(v for s, v in fsz.items() if s > 16384)},
        "second_boundary_16383_16384_seen": {str(b): fsz.get(b, 0) for b in (16383, 16384)},
        "other_obu_types_126_128": {t: {str(b): h.get(b, 0) for b in BOUNDARY} for t, h in acc.payload_sizes.items() if t not in ("6", "3")},
        "note": "metadata OBUs are driven through 127/128 and 16383/16384 by the real write_metadata_av1 (site_unit); not hitting a size is reported here, it is not a violation"}
    chk.cov["queue_reuse"] = {"packets_with_index_at_least_2048": acc.packets_beyond_queue,
                              "show_existing_packets_beyond_2048": acc.show_existing_beyond_queue,
                              "long_streams": [describe(a) for a in cs if a.get("kind") == "long"]}
    chk.assumptions += [
        "streams are the encoder's: profile 0, 4:2:0, no scalability, no annexb, obu_has_size_field=1",
        "packet sizes below 2^28 bytes (bound of write_uleb_obu_size, available = 4)",
        "tile group payloads are opaque (only headers are parsed)",
        "framing sites: `payload` is what the site's writers report to have appended behind the header (not re-derived from their bodies); "
        "what they really write is covered by parsing every real packet"]

    # ---- 5. verdict
    def replay_text(a, r, what, upto=None):
        return ("%s\nencode: %s\nreplay: bin/check C02 --replay <this file>\n%s\n%s\n" %
                (what, describe(a), MARK, "\n".join(model_input(r, upto=upto))))

    oracle_fail = acc.oracle_fail
    if acc.model_err:
        chk.violation("svtmodel obu failed on real packets: %s\n" % acc.model_err, tag="model", found_input=False)
    if oracle_fail:
        a, r, i, what = oracle_fail[0]
        why = ""
        if inconsistent or terr:
            why = "\nframing sites whose size-field reservation is not consistent with the encoded size: %s%s" % (inconsistent, " (translator: %s)" % terr if terr else "")
        chk.violation(replay_text(a, r, "C02 violated by a real encoder output packet\npacket index: %d\n%s\nfailing packets in this run: %d%s" %
                                  (i, what, len(oracle_fail), why), upto=(i if i >= 0 else None)))
    if se_fails:
        run_line, what = se_fails[0]
        chk.violation("C02 violated by the show-existing branch of packetization_kernel run on real queue entries (harness/pktz_se.c)\n"
                      "unit: pktz_se %s\n%s\nfailing branch executions in this run: %d of %d\nreplay: bin/check C02 --replay <this file>\n" %
                      (run_line, what, len(se_fails), n_se), tag="kernelse")
    if site_bad_real:
        chk.violation("C02 violated by the real write_metadata_av1 (harness/obusite.c)\nunit: obusite\n%s\nfailing: %d\n" %
                      (site_bad_real[0], len(site_bad_real)), tag="metasite")
    if acc.api_mismatch:
        a, r, ms = acc.api_mismatch[0]
        hs = ms["hdr_seq"][0] if ms["hdr_seq"] else {}
        ps = next((p["seq"][0] for p in ms["pkts"] if p["seq"]), {})
        diff = ["%s: api=%s in-band=%s" % (k, hs.get(k), ps.get(k)) for k in SEQ_KEYS if hs.get(k) != ps.get(k)]
        first = next((r["HEX"][i] for i in sorted(r["HEX"])), "")
        chk.violation(replay_text(a, r, "sequence header returned by svt_av1_enc_stream_header (called after svt_av1_enc_init, before the first picture) "
                                        "is not byte-identical to the sequence header in the stream\napi header bytes: %s\nfirst packet starts: %s\n"
                                        "differing fields: %s\nencodes affected in this run: %d of %d" %
                                        (r["HDRHEX"], first[:40], "; ".join(diff), len(acc.api_mismatch), acc.usable), upto=3),
                      tag="apihdr", key="C02-stream-header-api-mismatch")
    if acc.f13:
        a, i, what = acc.f13[0]
        chk.violation("packet pic_type carries the slice-type enum\nencode: %s\n%s\npackets affected in this run: %d\n" % (describe(a), what, len(acc.f13)),
                      tag="pictype", key="F13-pictype-slice-enum")
    if not oracle_fail and not se_fails and not site_bad_real:
        if terr is not None:
            chk.violation("xlate/obusites.py refuses the current tree: %s\nno real packet violates the property (%d packets)\n" % (terr, acc.n_pkts),
                          tag="xlate", found_input=False)
        if not pr.ok:
            table = "\n".join("  %s (%s:%s): reserved = %s, encoded = %s, total = %s" % (s["name"], s["file"], s["line"], s["reserved"], s["encoded"], s["total"])
                              for s in (site_table or []))
            chk.violation("proof obligations do not check:\n%s\nforbidden tokens: %s\nframing sites not consistent: %s\nsites:\n%s\n"
                          "no real packet violates the property (%d packets; OBU_FRAME payload sizes 126/127/128 seen: %s)\n" %
                          ("\n".join("%s: %s" % kv_ for kv_ in pr.failed.items()), pr.forbidden, inconsistent, table, acc.n_pkts, seen),
                          tag="proof", found_input=False)
        if site_mism:
            chk.violation("ObuSite.layoutSite and the real reserve - move - encode code disagree (model validation failed, or a site is inconsistent); "
                          "the real packets satisfy the C02 oracle\n%s\n%s\n%s\ndisagreements: %d\n" % (site_mism[0] + (len(site_mism),)),
                          tag="sitecorr", found_input=False)
        if unit_err:
            chk.violation("unit harnesses could not be built / run: %s\n" % unit_err, tag="unit", found_input=False)
        if acc.corr_fail:
            a, i, what = acc.corr_fail[0]
            chk.violation("Lean header parser and the real decoder disagree (parser validation failed); the packets satisfy the C02 oracle\n"
                          "encode: %s\npacket %d: %s\ndisagreements: %d\n%s\n" %
                          (describe(a), i, what, len(acc.corr_fail), "\n".join("pkt %d: %s" % (x[1], x[2]) for x in acc.corr_fail[:20])),
                          tag="corr", found_input=False)
        if gm_bad:
            chk.violation("Lean global_motion_params reader and the real read_global_motion_params disagree on %d of %d random inputs\n"
                          "input: %s\nlean:    %s\ndecoder: %s\n" % (len(gm_bad), len(gml), gm_bad[0][0], gm_bad[0][1], gm_bad[0][2]),
                          tag="gm", found_input=False)
        if not acc.usable and not only_unit:
            chk.violation("no usable encode: %s\n" % acc.enc_problems[:3], tag="enc", found_input=False)


def replay(chk, path):
    """Re-run the encode named in the replay file (line `encode: k=v ...`), or the unit harnesses (line `unit: ...`)."""
    args = None
    unit = False
    for line in open(path):
        if line.startswith("unit: "):
            unit = True
        if line.startswith("encode: "):
            args = {}
            for tok in line[len("encode: "):].split():
                k, v = tok.split("=", 1)
                args[k] = int(v) if v.lstrip("-").isdigit() else v
            break
    if unit and args is None:
        run(chk, only_unit=True)
    else:
        run(chk, only_args=args)
