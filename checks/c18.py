"""C18 — frame quantizers stay within the configured QP bounds.

(1) regenerate Gen/QTable.lean from the real `quantizer_to_qindex`, check Props/C18.lean (bounds on every assigning branch of the
    rate-control tail and of the recode clamp for ALL upstream values, exactness in fixed-QP coding, effective bounds of
    copy_api_from_app);
(2) unit correspondence: the REAL text of the rate-control tail (EbRateControlProcess.c) and of recode_loop_decision_maker
    (EbEncDecProcess.c), extracted by harness/qptail_extract.py and compiled against the real headers, vs `svtmodel qptail` on
    boundary grids + seeded random tuples, all branches; the bounds oracle is evaluated on the REAL outputs;
(3) end to end: REAL encodes (rate_control_mode 0/1/2, min/max pairs incl. min == max, fixed qindex offsets, qp file, tpl on/off,
    8/10 bit, noise/flat/moving content, 1-pass; per-picture header qp and 2-pass through harness/qp_e2e.c); `svtmodel obu` parses base_q_idx out of
    every frame header of the produced packets; the property's own oracle on the REAL output:
       quantizer_to_qindex[min] <= base_q_idx <= quantizer_to_qindex[max]   for the EFFECTIVE bounds (copy_api_from_app: 1/63 in CQP),
       fixed offsets: base_q_idx in { clip(q2q[qp] + offset) }, exactly q2q[qp] with zero offsets,
       packet.qp == clip(min, max, (base_q_idx + 2) >> 2) of the displayed frame.
"""
import os
import subprocess
import sys
import time
from . import common as C
from . import c02
from . import configcommon as K

sys.path.insert(0, os.path.join(C.VERIF, "xlate"))
sys.path.insert(0, os.path.join(C.VERIF, "harness"))
LEVEL = "proof"
MODULE = "SvtVerif.Props.C18"
BRANCH = {0: "plain CQP (no assignment)", 1: "fixed qindex offsets", 2: "CQP + QP scaling", 3: "qp on the fly", 4: "VBR with pass-1 stats",
          5: "VBR 1-pass", 6: "CVBR", 7: "other mode"}
I32MIN, I32MAX = -(1 << 31), (1 << 31) - 1


# --------------------------------------------------------------------------------------------- unit level
def unit_lines(chk, q2q):
    """-> list of (line, kind).  Kept inside the domain where the C text has defined behaviour: table indices <= 63, no int32 overflow."""
    r = chk.rng
    lines = [("Q %d" % i, "Q") for i in range(64)]
    qps = [0, 1, 2, 31, 32, 61, 62, 63]
    bnd = sorted(set([0, 1, 3, 4, 5, 62, 63, 124, 125, 126, 127, 128, 243, 244, 245, 248, 249, 250, 254, 255, 256, 257, 511, -1, -2, -255, -256,
                      65535, 65536, I32MAX, I32MIN, I32MAX - 1, I32MIN + 1, 1 << 32, (1 << 32) + 100, -(1 << 32) - 7, 1 << 40]))
    offs = [0, 1, -1, 4, -4, 255, -255, 256, -256, 1000, -1000, I32MAX - 255, I32MIN, I32MIN + 1, 1 << 20, -(1 << 20)]
    pairs = [(a, b) for a in qps for b in qps]           # includes min > max (the C text is still defined; the theorem needs min <= max)

    def t(rc, fx, sc, otf, tp, mn, mx, qp, pq, ppq, intra, lo, ko, clo, kco, nq, rpq):
        return "%d %d %d %d %d %d %d %d %d %d %d %d %d %d %d %d %d" % (rc, fx, sc, otf, tp, mn, mx, qp, pq, ppq, intra, lo, ko, clo, kco, nq, rpq)

    # (a) grid: every branch x min/max pairs x boundary upstream values
    for mn, mx in pairs:
        for v in bnd + [q2q[mn] - 1, q2q[mn], q2q[mn] + 1, q2q[mx] - 1, q2q[mx], q2q[mx] + 1]:
            lines.append((t(0, 0, 1, 0, 0, mn, mx, 50, 50, 50, 0, 0, 0, 0, 0, v, 0), "grid"))            # branch 2
            lines.append((t(1, 0, 1, 0, 1, mn, mx, 50, 50, 50, 0, 0, 0, 0, 0, v, 0), "grid"))            # branch 4
            lines.append(("R %d %d %d" % (mn, mx, v), "R"))
        for v in list(range(0, 70)) + [127, 128, 200, 254, 255, 256, 300, -1]:
            lines.append((t(1, 0, 1, 0, 0, mn, mx, 50, 50, 50, 0, 0, 0, 0, 0, 0, v), "grid"))            # branch 5
            lines.append((t(2, 0, 1, 0, 0, mn, mx, 50, 50, 50, 0, 0, 0, 0, 0, 0, v), "grid"))            # branch 6
            lines.append((t(0, 0, 1, 1, 0, mn, mx, 50, min(v & 255, 63), v, 0, 0, 0, 0, 0, 0, 0), "grid"))   # branch 3
            lines.append((t(0, 0, 0, 1, 0, mn, mx, 50, min(v & 255, 63), v, 0, 0, 0, 0, 0, 0, 0), "grid"))   # branch 3, scaling flag off
            lines.append((t(3, 0, 1, 0, 0, mn, mx, 50, v & 255, 50, 0, 0, 0, 0, 0, 0, 0), "grid"))       # branch 7
        for qp in qps:
            for o in offs:
                for intra in (0, 1):
                    lines.append((t(0, 1, 0, 0, 0, mn, mx, qp, qp, qp, intra, o, -o if o != I32MIN else 7, offs[(qp + intra) % len(offs)], o, 0, 0), "grid"))   # branch 1
    for qp in range(64):                                                                                  # branch 0 (unreachable through the API)
        lines.append((t(0, 0, 0, 0, 0, 1, 63, qp, qp, qp, 0, 0, 0, 0, 0, 0, 0), "grid"))
        lines.append((t(0, 2, 0, 0, 0, 1, 63, qp, qp, qp, 0, 5, 5, 5, 5, 0, 0), "grid"))                # fixedOffsets = 2 is "not 1"
        lines.append((t(0, 0, 1, 2, 0, 1, 63, qp, qp, qp, 0, 0, 0, 0, 0, 9, 0), "grid"))                # qp_on_the_fly = 2: neither branch
    # (b) seeded random tuples
    n = 6000 if chk.tier == "quick" else 150000

    def rv():
        k = r.below(5)
        if k == 0:
            return r.choice(bnd)
        if k == 1:
            return r.range(-8, 300)
        if k == 2:
            return r.range(I32MIN, I32MAX)
        if k == 3:
            return r.range(-(1 << 40), 1 << 40)
        return r.choice(q2q) + r.range(-2, 2)

    def ro():
        k = r.below(4)
        return r.choice(offs) if k == 0 else (r.range(-300, 300) if k < 3 else r.range(I32MIN, I32MAX - 255))

    for _ in range(n):
        rc = r.choice([0, 0, 0, 1, 1, 2, 3, (1 << 32), (1 << 32) + 1])
        mn, mx = r.range(0, 63), r.range(0, 63)
        if r.chance(3, 4) and mn > mx:
            mn, mx = mx, mn
        if r.chance(1, 8):
            mx = mn
        fx = r.choice([0, 0, 1, 1, 2, 257])            # 257 truncates to EbBool 1
        sc = r.choice([0, 1, 1, 2, 1 << 32])             # 2^32 truncates to uint32 0
        otf = r.choice([0, 0, 0, 1, 1, 2, 256])
        qp = r.range(0, 63) + r.choice([0, 0, 0, 256])
        rcw = rc & 0xFFFFFFFF
        need_small = rcw == 0 or (rcw == 1)
        pq = r.range(0, 63) if need_small else r.range(0, 255)
        lines.append((t(rc, fx, sc, otf, r.below(2), mn, mx, qp, pq, r.range(0, 255), r.below(2), ro(), ro(), ro(), ro(), rv(), r.range(-3, 300)), "random"))
    for _ in range(n // 4):
        mn, mx = r.range(0, 63), r.range(0, 63)
        if r.chance(3, 4) and mn > mx:
            mn, mx = mx, mn
        lines.append(("R %d %d %d" % (mn, mx, rv()), "R"))
    return lines


def build_unit_harness():
    import qptail_extract
    import qtable
    qptail_extract.REPO = C.REPO
    path = qptail_extract.write_source(C.gen_src_dir())
    return C.compile_harness("c18_qptail", [path]), qptail_extract


def uncovered_sites(qx, sites, l0, l1):
    """Assignment sites of base_q_idx that neither the model nor the unit harness covers -> list of text."""
    import re
    import extract
    bad = []
    try:
        recode = extract.function_text(qx.ED_SRC, "recode_loop_decision_maker")
    except Exception as e:      # noqa
        recode = ""
        bad.append("recode_loop_decision_maker not extractable: %s" % e)
    for f, n, txt in sites:
        if f == qx.RC_SRC:
            if not (l0 <= n <= l1):
                bad.append("%s:%d %s (outside the modelled tail %d-%d)" % (f, n, txt, l0, l1))
        elif f == qx.ED_SRC:
            if txt not in recode:
                bad.append("%s:%d %s (outside recode_loop_decision_maker)" % (f, n, txt))
        elif re.search(r"base_q_idx\s*=\s*\d+\s*;", txt):
            pass                 # constant initialisation of the picture control set, overwritten by the tail for every picture
        elif f.endswith("EbModeDecisionConfigurationProcess.c"):
            # svt_av1_set_quantizer: dead code today; any caller makes it a live site
            rc_, out = C.sh(["grep", "-rn", "--include=*.c", "svt_av1_set_quantizer(", os.path.join(C.REPO, "Source")])
            callers = [l for l in out.split("\n") if l and not re.search(r"\bvoid\s+svt_av1_set_quantizer\(", l)]
            if callers:
                bad.append("%s:%d svt_av1_set_quantizer now has callers: %s" % (f, n, callers[:3]))
        else:
            bad.append("%s:%d %s (new assignment site)" % (f, n, txt))
    return bad


def unit_oracle(line, out, q2q):
    """The property on one REAL evaluation -> None or text."""
    ws = line.split()
    try:
        if ws[0] == "R":
            mn, mx = int(ws[1]), int(ws[2])
            base, pq = (int(x) for x in out.split())
            branch = -1
        elif ws[0] == "Q":
            return None
        else:
            v = [int(x) for x in ws]
            mn, mx = v[5], v[6]
            o = [int(x) for x in out.split()]
            branch, base, pq = o[0], o[1], o[2]
    except (ValueError, IndexError):
        return "unparsable answer %r" % out
    if not (0 <= mn <= mx <= 63) or branch == 0:
        return None
    if not (q2q[mn] <= base <= q2q[mx]):
        return "base_q_idx %d outside [%d, %d] = quantizer_to_qindex[%d..%d]" % (base, q2q[mn], q2q[mx], mn, mx)
    if not (mn <= pq <= mx):
        return "picture_qp %d outside [%d, %d]" % (pq, mn, mx)
    return None


# --------------------------------------------------------------------------------------------- end to end
def eff_bounds(a):
    rc = a.get("cfg.rate_control_mode", 0)
    if rc != 0:
        return a.get("cfg.min_qp_allowed", 1), a.get("cfg.max_qp_allowed", 63)
    return 1, 63


def clip(lo, hi, x):
    return lo if x < lo else (hi if x > hi else x)


def e2e_cases(chk):
    r = chk.rng
    S = dict(w=128, h=64)
    vbr = {"cfg.rate_control_mode": 1}
    cvbr = {"cfg.rate_control_mode": 2}
    cs = [
        ("cqp default", dict(S, n=9, content=0)),
        ("cqp qp=0 flat", dict(S, n=6, content=1, **{"cfg.qp": 0})),
        ("cqp qp=63 noise", dict(S, n=9, content=0, **{"cfg.qp": 63})),
        ("cqp min/max configured (ignored in CQP)", dict(S, n=6, content=4, **{"cfg.qp": 50, "cfg.min_qp_allowed": 20, "cfg.max_qp_allowed": 30})),
        ("cqp scaling flag 0", dict(S, n=9, content=4, **{"cfg.qp": 40, "cfg.enable_qp_scaling_flag": 0})),
        ("cqp fixed offsets distinct", dict(S, n=10, content=4, **{"cfg.hierarchical_levels": 2, "cfg.use_fixed_qindex_offsets": 1, "cfg.qp": 30,
                                                                    "cfg.qindex_offsets[0]": -20, "cfg.qindex_offsets[1]": 10, "cfg.qindex_offsets[2]": 21,
                                                                    "cfg.key_frame_qindex_offset": -300, "cfg.chroma_qindex_offsets[1]": 7})),
        ("cqp fixed offsets zero (fixed QP, no scaling)", dict(S, n=9, content=0, **{"cfg.use_fixed_qindex_offsets": 1, "cfg.qp": 37})),
        ("cqp fixed offsets beyond the range", dict(S, n=9, content=4, **{"cfg.hierarchical_levels": 3, "cfg.use_fixed_qindex_offsets": 1, "cfg.qp": 60,
                                                                           "cfg.qindex_offsets[0]": 200, "cfg.qindex_offsets[1]": 255, "cfg.qindex_offsets[2]": -255,
                                                                           "cfg.qindex_offsets[3]": 13, "cfg.key_frame_qindex_offset": 255})),
        ("cqp qp file (qp 0 in every picture header)", dict(S, n=6, content=4, **{"cfg.use_qp_file": 1})),
        ("cqp tpl off", dict(S, n=9, content=4, **{"cfg.enable_tpl_la": 0, "cfg.qp": 25})),
        ("cqp 10-bit 1 thread 64x64", dict(w=64, h=64, n=6, bd=10, content=2, **{"cfg.qp": 30, "cfg.logical_processors": 1})),
        ("cqp flat prediction structure", dict(S, n=6, content=4, **{"cfg.hierarchical_levels": 0, "cfg.qp": 20})),
        ("vbr default bounds", dict(S, n=9, content=0, **dict(vbr, **{"cfg.target_bit_rate": 200000}))),
        ("vbr min == max == 20", dict(S, n=9, content=0, **dict(vbr, **{"cfg.target_bit_rate": 200000, "cfg.min_qp_allowed": 20, "cfg.max_qp_allowed": 20}))),
        ("vbr [30,35] flat rich", dict(S, n=9, content=1, **dict(vbr, **{"cfg.target_bit_rate": 40000000, "cfg.min_qp_allowed": 30, "cfg.max_qp_allowed": 35}))),
        ("vbr [40,45] noise starved", dict(S, n=9, content=0, **dict(vbr, **{"cfg.target_bit_rate": 1000, "cfg.min_qp_allowed": 40, "cfg.max_qp_allowed": 45}))),
        ("vbr [0,0]", dict(S, n=5, content=4, **dict(vbr, **{"cfg.target_bit_rate": 200000, "cfg.min_qp_allowed": 0, "cfg.max_qp_allowed": 0}))),
        ("vbr [62,63]", dict(S, n=6, content=0, **dict(vbr, **{"cfg.target_bit_rate": 90000000, "cfg.min_qp_allowed": 62, "cfg.max_qp_allowed": 63}))),
        ("cvbr default bounds", dict(S, n=9, content=0, **dict(cvbr, **{"cfg.target_bit_rate": 200000}))),
        ("cvbr min == max == 33", dict(S, n=9, content=4, **dict(cvbr, **{"cfg.target_bit_rate": 200000, "cfg.min_qp_allowed": 33, "cfg.max_qp_allowed": 33}))),
        ("cvbr [10,50] short gop", dict(S, n=12, content=4, **dict(cvbr, **{"cfg.target_bit_rate": 100000, "cfg.min_qp_allowed": 10, "cfg.max_qp_allowed": 50,
                                                                               "cfg.intra_period_length": 7, "cfg.look_ahead_distance": 7}))),
        ("cvbr [5,6] rich", dict(S, n=6, content=1, **dict(cvbr, **{"cfg.target_bit_rate": 90000000, "cfg.min_qp_allowed": 5, "cfg.max_qp_allowed": 6}))),
    ]
    extra = 0 if chk.tier == "quick" else 70
    sizes = [(128, 64), (192, 128), (136, 72), (128, 128), (256, 64)]
    for k in range(extra):
        w, h = r.choice(sizes)
        a = dict(w=w, h=h, n=r.range(4, 14), bd=r.choice([8, 8, 10]), content=r.choice([0, 1, 4, 4, 2, 5]))
        a["cfg.hierarchical_levels"] = r.range(0, 4)
        a["cfg.enc_mode"] = r.choice([8, 8, 6, 4])
        mode = r.choice([0, 0, 1, 1, 2])
        label = "random "
        if mode:
            a["cfg.rate_control_mode"] = mode
            a["cfg.target_bit_rate"] = r.choice([1000, 50000, 300000, 5000000, 90000000])
            mn = r.range(0, 62)
            mx = mn if r.chance(1, 3) else r.range(mn, 63)
            a["cfg.min_qp_allowed"], a["cfg.max_qp_allowed"] = mn, mx
            if mode == 2 and r.chance(1, 2):
                ip = r.range(3, 15)
                a["cfg.intra_period_length"], a["cfg.look_ahead_distance"] = ip, ip
            if r.chance(1, 3):
                a["cfg.recode_loop"] = r.range(0, 3)
            label += "rc=%d [%d,%d]" % (mode, mn, mx)
        else:
            a["cfg.qp"] = r.range(0, 63)
            if r.chance(1, 4):
                a["cfg.min_qp_allowed"], a["cfg.max_qp_allowed"] = r.range(0, 30), r.range(31, 63)
            k2 = r.below(4)
            if k2 == 0:
                a["cfg.use_fixed_qindex_offsets"] = 1
                for l in range(a["cfg.hierarchical_levels"] + 1):
                    a["cfg.qindex_offsets[%d]" % l] = r.range(-256, 255)
                    a["cfg.chroma_qindex_offsets[%d]" % l] = r.range(-30, 30)
                a["cfg.key_frame_qindex_offset"] = r.range(-256, 255)
                a["cfg.key_frame_chroma_qindex_offset"] = r.range(-30, 30)
                label += "cqp fixed offsets qp=%d" % a["cfg.qp"]
            elif k2 == 1:
                a["cfg.use_qp_file"] = 1
                label += "cqp qp file"
            else:
                a["cfg.enable_tpl_la"] = r.below(2)
                label += "cqp scaling qp=%d" % a["cfg.qp"]
            if r.chance(1, 5):
                a["cfg.intra_period_length"] = r.range(2, 9)
        cs.append((label, a))
    # per-picture qp in the input header and 2-pass encodes: harness/qp_e2e.c
    qs = [
        ("qp file 7*f % 64", dict(S, n=10, content=4, inqp=1001, **{"cfg.use_qp_file": 1})),
        ("qp file seeded 0..70 (values > 63 are ignored by the library)", dict(S, n=12, content=4, inqp=1000, **{"cfg.use_qp_file": 1, "cfg.hierarchical_levels": 3})),
        ("2-pass vbr [20,40]", dict(S, n=10, content=4, passes=2, **dict(vbr, **{"cfg.target_bit_rate": 100000, "cfg.min_qp_allowed": 20, "cfg.max_qp_allowed": 40}))),
        ("2-pass cqp qp=30", dict(S, n=10, content=4, passes=2, **{"cfg.qp": 30})),
        ("first pass of vbr [20,40]", dict(S, n=6, content=4, passes=-1, **dict(vbr, **{"cfg.target_bit_rate": 100000, "cfg.min_qp_allowed": 20, "cfg.max_qp_allowed": 40}))),
    ]
    if chk.tier != "quick":
        qs += [
            ("2-pass vbr [10,12] starved, recode 3", dict(S, n=10, content=0, passes=2, **dict(vbr, **{"cfg.target_bit_rate": 20000, "cfg.min_qp_allowed": 10,
                                                                                                    "cfg.max_qp_allowed": 12, "cfg.recode_loop": 3}))),
            ("2-pass vbr min == max == 47", dict(S, n=10, content=0, passes=2, **dict(vbr, **{"cfg.target_bit_rate": 300000, "cfg.min_qp_allowed": 47, "cfg.max_qp_allowed": 47}))),
            ("2-pass vbr default bounds rich", dict(w=192, h=128, n=14, content=4, passes=2, **dict(vbr, **{"cfg.target_bit_rate": 50000000}))),
            ("2-pass vbr default bounds starved", dict(w=192, h=128, n=14, content=0, passes=2, **dict(vbr, **{"cfg.target_bit_rate": 2000}))),
            ("2-pass cqp qp=63", dict(S, n=10, content=0, passes=2, **{"cfg.qp": 63})),
            ("2-pass cqp qp=1 10-bit", dict(S, n=8, bd=10, content=2, passes=2, **{"cfg.qp": 1})),
            ("first pass cqp qp=13", dict(S, n=6, content=4, passes=-1, **{"cfg.qp": 13})),
            ("qp file constant 63", dict(S, n=6, content=0, inqp=63, **{"cfg.use_qp_file": 1})),
            ("qp file constant 64 (ignored)", dict(S, n=6, content=0, inqp=64, **{"cfg.use_qp_file": 1, "cfg.qp": 20})),
        ]
        for k in range(10):
            mn = r.range(0, 62)
            mx = mn if r.chance(1, 3) else r.range(mn, 63)
            qs.append(("random 2-pass vbr [%d,%d]" % (mn, mx), dict(S, n=r.range(6, 14), content=r.choice([0, 1, 4]), passes=2, **dict(vbr, **{
                "cfg.target_bit_rate": r.choice([1000, 50000, 300000, 5000000, 90000000]), "cfg.min_qp_allowed": mn, "cfg.max_qp_allowed": mx,
                "cfg.recode_loop": r.range(0, 3), "cfg.hierarchical_levels": r.range(2, 4)}))))
    out = []
    for i, (label, a) in enumerate(cs):
        a = dict(a)
        a.setdefault("bd", 8)
        a.update(hex=1, recon=0, decode=0, seed=chk.seed * 1000 + i, watchdog=300)
        out.append((label, "e2e", a))
    for i, (label, a) in enumerate(qs):
        a = dict(a)
        a.setdefault("bd", 8)
        a.update(hex=1, seed=chk.seed * 1000 + 500 + i, watchdog=300)
        out.append((label, "qp", a))
    return out


def describe(a):
    return " ".join("%s=%s" % kv for kv in a.items())


def qp_exe():
    C.e2e_exe()   # current cfg_fields.h
    return C.compile_harness("c18_qp_e2e", [os.path.join(C.VERIF, "harness", "qp_e2e.c")], libs=["libSvtAv1Enc.a"], extra=["-I" + C.gen_src_dir()])


def run_qp(args, timeout=900):
    """harness/qp_e2e.c (per-picture qp, 2-pass); same result shape as C.run_e2e plus INQP / PASS1."""
    argv = [qp_exe()] + ["%s=%s" % kv for kv in args.items()]
    try:
        p = subprocess.run(argv, stdout=subprocess.PIPE, stderr=subprocess.PIPE, timeout=timeout)
        out, err, rc = p.stdout.decode("utf-8", "replace"), p.stderr.decode("utf-8", "replace"), p.returncode
    except subprocess.TimeoutExpired as ex:
        out, err, rc = (ex.stdout or b"").decode("utf-8", "replace"), "[harness wall-clock timeout]", 124
    r = C.parse_e2e(out)
    r["rc"], r["stderr"], r["argv"] = rc, err[-3000:], " ".join(argv[1:])
    r["crashed"] = rc not in (0, 3, 124)
    r["hung"] = rc in (3, 124) or r["TIMEOUT"]
    r["INQP"], r["PASS1"] = {}, None
    for line in out.split("\n"):
        ws = line.split()
        if len(ws) == 3 and ws[0] == "INQP":
            r["INQP"][int(ws[1])] = int(ws[2])
        elif ws and ws[0] == "PASS1":
            r["PASS1"] = line
    return r


def run_case(c):
    label, drv, a = c
    return run_qp(a) if drv == "qp" else C.run_e2e(a, timeout=900)


def frame_oracle(a, f, q2q, inqp=None):
    """Property on one coded frame header of a REAL packet -> (None | text, class)."""
    base = int(f["base_q_idx"])
    mn, mx = eff_bounds(a)
    rc = a.get("cfg.rate_control_mode", 0)
    if not (0 <= mn <= mx <= 63):
        return None, "bounds-not-well-formed"
    if not (q2q[mn] <= base <= q2q[mx]):
        return ("base_q_idx %d outside [%d, %d] = quantizer_to_qindex[effective min %d .. effective max %d]" % (base, q2q[mn], q2q[mx], mn, mx)), "bounds"
    if rc == 0 and a.get("cfg.use_fixed_qindex_offsets", 0) == 1:
        qp = a.get("cfg.qp", 50)
        intra = f.get("frame_type") in ("0", "2")
        if intra:
            allowed = {clip(q2q[mn], q2q[mx], q2q[qp] + a.get("cfg.key_frame_qindex_offset", 0))}
        else:
            allowed = {clip(q2q[mn], q2q[mx], q2q[qp] + a.get("cfg.qindex_offsets[%d]" % l, 0)) for l in range(a.get("cfg.hierarchical_levels", 4) + 1)}
        if base not in allowed:
            return ("fixed qindex offsets: base_q_idx %d of a%s frame is not quantizer_to_qindex[%d] + configured offset, clipped (allowed: %s)" %
                    (base, "n intra" if intra else "n inter", qp, sorted(allowed))), "fixed-offsets"
        return None, "fixed-offsets-exact" if len(allowed) == 1 else "fixed-offsets-set"
    if rc == 0 and a.get("cfg.use_qp_file", 0) == 1:
        # EbResourceCoordinationProcess.c:1047-1053: a header qp above 63 is ignored (qp_on_the_fly = FALSE -> QP scaling decides)
        if inqp is None:
            return None, "bounds-only"
        if inqp > 63:
            return None, "qp-file-ignored(>63)"
        want = q2q[clip(mn, mx, inqp)]
        if base != want:
            return "qp file: picture qp %d, base_q_idx %d != quantizer_to_qindex[clip(%d, %d, %d)] = %d" % (inqp, base, mn, mx, inqp, want), "qp-file"
        return None, "qp-file-exact"
    if mn == mx:
        return None, "pinned(min==max)"
    return None, "bounds-only"


def run(chk, only=None):
    import qtable
    qtable.REPO = C.REPO
    phase, t_ph = {}, time.time()

    def mark(name):
        nonlocal t_ph
        phase[name] = round(time.time() - t_ph, 1)
        t_ph = time.time()
    try:
        q2q = qtable.main(os.path.join(C.LEAN, "SvtVerif/Gen/QTable.lean"))
        terr = ""
    except (qtable.Unsupported, OSError) as e:
        q2q, terr = None, str(e)
    # api_baseQIdx_in_bounds / effCfg_is_copyApi are stated over the GENERATED copy_api_from_app / verify_settings (same translator as C12/C13)
    g, cerr = K.regenerate()
    if g is None:
        q2q, terr = None, "xlate/config.py refused EbEncHandle.c: " + cerr
    pr = chk.proofs(MODULE, trusted_extra=[
        "xlate/qtable.py: regex translation of the quantizer_to_qindex initializer into Gen/QTable.lean (refuses non-literal entries); re-checked by `decide` lemmas",
        "Model/QpTail.lean: hand transcription of EbRateControlProcess.c:7322-7478, EbEncDecProcess.c:4237-4249 (effCfg is proved equal to the generated copy_api_from_app)",
        K.TRUSTED[0],
        "harness/qptail_extract.py: the REAL text of that tail and of recode_loop_decision_maker compiled against the real headers; upstream calls stubbed to return the line's value",
        "Model/Av1Header.lean (`svtmodel obu`, validated against the real decoder's parser by C02) reads base_q_idx from the real packets",
        "harness/enc_e2e.c, harness/qp_e2e.c: real encoder (qp_e2e adds per-picture header qp and the 2-pass call sequence of the sample application)"]) if q2q else None
    model_ok = bool(q2q) and pr.build_ok
    mark("regenerate+proofs")
    # ---------------------------------------------------------------- unit correspondence (real text vs model)
    exe, qx = build_unit_harness()
    sites = qx.base_q_idx_sites()
    l0, l1 = qx.tail_text()[1:]
    site_gaps = uncovered_sites(qx, sites, l0, l1)
    # the table as the REAL code sees it
    rc_, tout = C.sh([exe, "1"], input=("".join("Q %d\n" % i for i in range(64))).encode())
    real_tbl = [int(x) for x in tout.split()]
    if len(real_tbl) != 64:
        raise C.BuildError("unit harness did not print the table: %r" % tout[:200])
    ul = unit_lines(chk, real_tbl)
    text = "".join(l + "\n" for l, _ in ul)
    rc_, cout = C.sh([exe, str(chk.seed)], input=text.encode(), timeout=1200)
    cres = cout.split("\n")[:len(ul)]
    if len(cres) != len(ul) or "mismatch" in cout:
        raise C.BuildError("unit harness answered %d lines for %d operations (rc=%s): %s" % (len(cres), len(ul), rc_, cout[-300:]))
    mres = C.run_model("qptail", text).split("\n")[:len(ul)] if model_ok else None
    unit_dis, unit_bad = [], []
    bh = {}
    kinds = {}
    for i, (l, kind) in enumerate(ul):
        kinds[kind] = kinds.get(kind, 0) + 1
        if kind in ("grid", "random"):
            b = cres[i].split()[0] if cres[i].split() else "?"
            bh[b] = bh.get(b, 0) + 1
        if mres is not None and mres[i] != cres[i]:
            unit_dis.append((l, cres[i], mres[i]))
        w = unit_oracle(l, cres[i], real_tbl)
        if w:
            unit_bad.append((l, cres[i], w))
    tbl_mismatch = (q2q is not None and list(q2q) != real_tbl)
    mark("unit correspondence")

    # ---------------------------------------------------------------- end to end
    cases = [only] if only else e2e_cases(chk)
    C.e2e_exe()          # build both drivers once, before the worker threads ask for them
    qp_exe()
    results = C.run_parallel(run_case, cases, workers=4)
    mark("real encodes")
    usable, unusable, rejected_random = [], [], []
    for (label, drv, a), r in zip(cases, results):
        if label.startswith("random") and r["SETPARAM"] not in (0, None) and not r["crashed"] and not r["hung"]:
            rejected_random.append((label, describe(a)))       # a seeded combination verify_settings does not accept: nothing to observe
        elif r["crashed"] or r["hung"] or r["SETPARAM"] != 0 or not r["PKT"] or len(r["HEX"]) != len(r["PKT"]) or r["ERR"]:
            unusable.append((label, a, "rc=%s hung=%s set_parameter=%s packets=%d errors=%s %s" % (
                r["rc"], r["hung"], r["SETPARAM"], len(r["PKT"]), r["ERR"][:3], r["stderr"][-200:] if r["crashed"] else "")))
        else:
            usable.append((label, a, r))
    mstreams, model_err = [], None
    if usable:
        try:
            mstreams = c02.split_model_output(C.run_model("obu", "\n".join("\n".join(c02.model_input(r)) for _, _, r in usable) + "\n"))
        except (RuntimeError, C.BuildError) as e:
            model_err = str(e)[-1000:]
    e2e_bad = []       # (label, args, r, packet, text)
    flag_ignored = []  # (label, args, text)
    classes, per_case = {}, {}
    n_frames = n_pkts = n_qp = 0
    bq_hist = {}
    for si, (label, a, r) in enumerate(usable):
        if si >= len(mstreams):
            break
        ms = mstreams[si]
        mn, mx = eff_bounds(a)
        by_hint = {}
        seen = []
        if len(ms["pkts"]) != len(r["PKT"]):
            e2e_bad.append((label, a, r, -1, "parser printed %d packet lines for %d packets" % (len(ms["pkts"]), len(r["PKT"]))))
            continue
        for p, mp in zip(r["PKT"], ms["pkts"]):
            n_pkts += 1
            if mp["kv"].get("ok") != "1":
                e2e_bad.append((label, a, r, p["i"], "packet does not parse: %s" % mp["kv"].get("err")))
                continue
            for f in mp["frm"]:
                if f.get("show_existing") == "1":
                    continue
                n_frames += 1
                oh = int(f.get("order_hint", -1))
                if a["n"] > 120:
                    inqp = None
                elif r.get("INQP"):
                    inqp = r["INQP"].get(oh)
                else:
                    inqp = 0          # both drivers zero the input header when no per-picture qp is requested
                w, cls = frame_oracle(a, f, real_tbl, inqp)
                classes[cls] = classes.get(cls, 0) + 1
                base = int(f["base_q_idx"])
                seen.append(base)
                bq_hist[base // 32] = bq_hist.get(base // 32, 0) + 1
                by_hint[int(f.get("order_hint", -1))] = base
                if w:
                    e2e_bad.append((label, a, r, p["i"], w))
            # packet.qp belongs to the displayed picture (order hint == pts for these short streams)
            if a["n"] <= 120 and (p["pts"] % 128) in by_hint and 0 <= mn <= mx <= 63:
                n_qp += 1
                base = by_hint[p["pts"] % 128]
                want = clip(mn, mx, (base + 2) >> 2)
                if p["qp"] != want:
                    e2e_bad.append((label, a, r, p["i"], "packet qp %d but the displayed frame (pts %d) has base_q_idx %d -> picture_qp %d" % (p["qp"], p["pts"], base, want)))
        per_case[label] = "%d frames, base_q_idx %d..%d, bounds [%d,%d]" % (len(seen), min(seen) if seen else -1, max(seen) if seen else -1, real_tbl[mn] if 0 <= mn <= 63 else -1,
                                                                           real_tbl[mx] if 0 <= mx <= 63 else -1)
        # what the caller asked for vs what copy_api_from_app made of it (recorded finding, not the effective-bounds oracle)
        if (a.get("cfg.rate_control_mode", 0) == 0 and "cfg.enable_qp_scaling_flag" in a and a["cfg.enable_qp_scaling_flag"] == 0
                and a.get("cfg.use_fixed_qindex_offsets", 0) == 0 and a.get("cfg.use_qp_file", 0) == 0):
            want = real_tbl[a.get("cfg.qp", 50)]
            off = [b for b in seen if b != want]
            if off:
                flag_ignored.append((label, a, "enable_qp_scaling_flag = 0, rate_control_mode = 0, qp = %d: %d of %d frames have base_q_idx != quantizer_to_qindex[%d] = %d "
                                               "(seen %s)" % (a.get("cfg.qp", 50), len(off), len(seen), a.get("cfg.qp", 50), want, sorted(set(seen)))))
    for label, a, what in flag_ignored[:1]:
        chk.violation("the API member enable_qp_scaling_flag is ignored: copy_api_from_app overwrites it with 1 (EbEncHandle.c:2190), so fixed-QP coding without QP scaling "
                      "cannot be requested except through use_fixed_qindex_offsets\n%s\nencode: %s\n" % (what, describe(a)), tag="scalingflag", key="C18-qp-scaling-flag-ignored")

    mark("parse + oracle")
    # ---------------------------------------------------------------- coverage
    chk.cov["evaluations"] = len(ul) + n_frames
    chk.cov["distinct_nontrivial"] = len(set(l for l, k in ul if k != "Q")) + len(set(describe(a) for _, a, _ in usable))
    chk.cov["rule"] = ("unit: grid over (min,max) in {0,1,2,31,32,61,62,63}^2 x boundary upstream values (table entries +-1, uint8/int32 extremes, values that truncate) for every "
                       "branch of the tail and the recode clamp + seeded random 17-tuples, each run through the REAL extracted text and the Lean model; "
                       "e2e: every coded frame header of every packet of the listed real encodes. distinct_nontrivial = distinct unit tuples + distinct encodes")
    chk.cov["unit_operations"] = kinds
    chk.cov["unit_branch_histogram"] = {"%s %s" % (k, BRANCH.get(int(k), "?") if k.isdigit() else ""): v for k, v in sorted(bh.items())}
    chk.cov["unit_tail_lines"] = "EbRateControlProcess.c:%d-%d" % (l0, l1)
    chk.cov["base_q_idx_assignment_sites"] = ["%s:%d" % (f, n) for f, n, _ in sites]
    chk.cov["base_q_idx_assignment_sites_not_covered"] = site_gaps
    chk.cov["encodes"] = len(cases)
    chk.cov["encodes_two_pass"] = sum(1 for _, _, a in cases if a.get("passes") == 2)
    chk.cov["encodes_first_pass_only"] = sum(1 for _, _, a in cases if a.get("passes") == -1)
    chk.cov["encodes_usable"] = len(usable)
    chk.cov["encodes_not_usable"] = [(l, w) for l, _, w in unusable][:10]
    chk.cov["random_encodes_rejected_by_set_parameter"] = len(rejected_random)
    chk.cov["phase_s"] = phase
    chk.cov["packets"] = n_pkts
    chk.cov["frame_headers_checked"] = n_frames
    chk.cov["packet_qp_checked"] = n_qp
    chk.cov["frame_oracle_classes"] = classes
    chk.cov["base_q_idx_histogram_by_32"] = {"%d-%d" % (32 * k, 32 * k + 31): v for k, v in sorted(bq_hist.items())}
    chk.cov["per_encode"] = per_case
    chk.cov["programs"] = 2
    chk.cov["disagreements_checked"] = len(ul)
    chk.sample({"unit": ul[len(ul) // 2][0], "real": cres[len(ul) // 2], "model": mres[len(ul) // 2] if mres else None})
    chk.sample({"unit": ul[-1][0], "real": cres[-1], "model": mres[-1] if mres else None})
    for label, a, r in usable[:2]:
        chk.sample({"encode": label, "args": describe(a), "packet_qp": [p["qp"] for p in r["PKT"]], "result": per_case.get(label)})
    chk.assumptions += [
        "upstream values (cqp_qindex_calc*, rc_pick_q_and_bounds, find_fp_qindex, frame_level_rc_input_picture_*, recode_loop_update_q) are arbitrary in the theorems and "
        "stubbed in the unit harness; they run for real in the encodes",
        "effective bounds: copy_api_from_app replaces min/max by 1/63 when rate_control_mode == 0 (EbSvtAv1Enc.h documents them as rate-control only)",
        "per-superblock / segment delta-q is not part of the property (frame base index only)",
        "order_hint == pts for the streams used (n <= 120, pts = picture number): ties a packet's qp field and a picture's header qp to a frame header"]

    # ---------------------------------------------------------------- verdict
    if unit_bad:
        l, o, w = unit_bad[0]
        chk.violation("the real rate-control tail / recode clamp leaves the quantizer outside the configured bounds\ninput (svtmodel qptail protocol): %s\nreal output: %s\n%s\n"
                      "(%d such inputs)\n" % (l, o, w, len(unit_bad)), tag="unit")
    if e2e_bad:
        label, a, r, i, w = e2e_bad[0]
        chk.violation("C18 violated by a real encode\n%s\npacket %d: %s\nencode: %s\n(%d failing frames/packets in this run)\nreplay: bin/check C18 --replay <this file>\n" %
                      (label, i, w, describe(a), len(e2e_bad)))
    if not unit_bad and not e2e_bad:
        if q2q is None:
            chk.violation("translator refused quantizer_to_qindex: %s\nno real evaluation violates the bounds (%d unit, %d frames)\n" % (terr, len(ul), n_frames),
                          tag="xlate", found_input=False)
        elif not pr.ok:
            chk.violation("proof obligations no longer check:\n%s\nforbidden tokens: %s\nno real evaluation violates the bounds (%d unit inputs, %d frame headers)\n" %
                          ("\n".join("%s: %s" % kv for kv in pr.failed.items()), pr.forbidden, len(ul), n_frames), tag="proof", found_input=False)
        elif unit_dis or tbl_mismatch:
            d = unit_dis[0] if unit_dis else ("table", real_tbl, q2q)
            chk.violation("Lean model and the real rate-control tail disagree (model validation failed); the real outputs satisfy the bounds\ninput: %s\nreal:  %s\nmodel: %s\n"
                          "(%d disagreements)\n" % (d[0], d[1], d[2], len(unit_dis)), tag="corr", found_input=False)
        elif site_gaps:
            chk.violation("base_q_idx is assigned at a site that the model does not cover (the theorems say nothing about it); no real frame violates the bounds\n%s\n" %
                          "\n".join(site_gaps), tag="sites", found_input=False)
        elif model_err:
            chk.violation("svtmodel obu failed on real packets: %s\n" % model_err, tag="model", found_input=False)
        elif unusable and not only:
            label, a, w = unusable[0]
            chk.violation("a real encode of the matrix did not complete normally (not a quantizer-bounds failure)\n%s\n%s\nencode: %s\n(%d such encodes)\n" %
                          (label, w, describe(a), len(unusable)), tag="enc", found_input=False)


def replay(chk, path):
    """Re-run the encode named in the replay file (line `encode: k=v ...`); without one, the whole check."""
    args = None
    for line in open(path):
        if line.startswith("encode: "):
            args = {}
            for tok in line[len("encode: "):].split():
                k, v = tok.split("=", 1)
                args[k] = int(v) if v.lstrip("-").isdigit() else v
            break
    drv = "qp" if args and ("passes" in args or "inqp" in args) else "e2e"
    run(chk, only=("replay", drv, args) if args else None)
