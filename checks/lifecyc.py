"""Shared by checks/c15.py and checks/c16.py: building / driving harness/faultinj.c and harness/teardown.c,
symbolising crash reports, source-function lookup, hook presence."""
import hashlib
import os
import re
import subprocess
import sys
from concurrent.futures import ThreadPoolExecutor
from . import common as C

sys.path.insert(0, os.path.join(C.VERIF, "xlate"))

WRAP = "-Wl,--wrap=malloc,--wrap=calloc,--wrap=realloc,--wrap=free,--wrap=posix_memalign,--wrap=memalign,--wrap=aligned_alloc,--wrap=strdup"
HOOK_FILES = {"Source/Lib/Common/Codec/EbMalloc.h": "svt_verif_fail_here", "Source/Lib/Common/Codec/EbMalloc.c": "svt_verif_fail_at",
              "Source/Lib/Common/Codec/EbThreads.h": "svt_verif_fail_here", "Source/Lib/Decoder/Codec/EbDecMemInit.h": "svt_verif_fail_here"}
NPROC = 4


def hook_missing():
    miss = []
    for f, tok in HOOK_FILES.items():
        try:
            if tok not in open(os.path.join(C.REPO, f)).read():
                miss.append(f)
        except OSError:
            miss.append(f)
    return miss


def _macro_defs(text):
    """{name: [normalised bodies in order of definition]} for `#define NAME(args) body` with line continuations"""
    res = {}
    for m in re.finditer(r"^[ \t]*#[ \t]*define[ \t]+(\w+)\(([^)]*)\)((?:.*\\\n)*.*)$", text, re.M):
        body = re.sub(r"\\\n", " ", m.group(3))
        res.setdefault(m.group(1), []).append(re.sub(r"\s+", "", body))
    return res


def hook_drift():
    """The hook re-defines the primitive allocation macros; each copy must be the original with only the injected
    `svt_verif_fail_here(__FILE__,__LINE__) ? <failure> : ` removed.  Returns a list of macros that drifted."""
    drift = []
    pairs = [("Source/Lib/Common/Codec/EbMalloc.h", "Source/Lib/Common/Codec/EbMalloc.h",
              ["EB_NO_THROW_MALLOC", "EB_NO_THROW_CALLOC", "EB_REALLOC_ARRAY", "EB_MALLOC_ALIGNED"]),
             ("Source/Lib/Common/Codec/EbThreads.h", "Source/Lib/Common/Codec/EbThreads.h", ["EB_CREATE_THREAD"]),
             ("Source/Lib/Common/Codec/EbDefinitions.h", "Source/Lib/Common/Codec/EbThreads.h", ["EB_CREATE_SEMAPHORE", "EB_CREATE_MUTEX"]),
             ("Source/Lib/Decoder/Codec/EbDecMemInit.h", "Source/Lib/Decoder/Codec/EbDecMemInit.h", ["EB_ALLIGN_MALLOC_DEC", "EB_MALLOC_DEC"])]
    for orig_f, hook_f, names in pairs:
        try:
            o = _macro_defs(open(os.path.join(C.REPO, orig_f)).read())
            h = _macro_defs(open(os.path.join(C.REPO, hook_f)).read())
        except OSError:
            drift.append("%s: unreadable" % orig_f)
            continue
        for n in names:
            hooked = [b for b in h.get(n, []) if "svt_verif_fail_here" in b]
            plain = [b for b in o.get(n, []) if "svt_verif_fail_here" not in b]
            if not hooked or not plain:
                drift.append("%s: hooked or original definition not found" % n)
                continue
            hb = hooked[-1]
            hb = hb.replace("svt_verif_fail_here(__FILE__,__LINE__)?NULL:", "").replace("svt_verif_fail_here(__FILE__,__LINE__)?1:", "")
            if hb not in plain:
                drift.append("%s: hooked copy differs from the original beyond the injected test" % n)
    return drift


def build(name):
    src = os.path.join(C.VERIF, "harness", name + ".c")
    hdr = os.path.join(C.VERIF, "harness", "lifecyc_common.h")
    sha = hashlib.sha256(open(hdr, "rb").read()).hexdigest()[:12]
    return C.compile_harness("lifecyc_" + name, [src], libs=["libSvtAv1Enc.a", "libSvtAv1Dec.a"], flavour="rel",
                             extra=["-no-pie", WRAP, "-I" + os.path.join(C.VERIF, "harness"), "-DLIFECYC_H_SHA=\"%s\"" % sha])


def run_cmds(exe, args, cmds, nproc=NPROC, timeout=7200):
    """Deal `cmds` (text lines) round-robin to `nproc` harness processes; returns all output lines (unordered between processes)."""
    if not cmds:
        return []
    nproc = max(1, min(nproc, len(cmds)))
    chunks = [cmds[i::nproc] for i in range(nproc)]

    def one(ch):
        p = subprocess.run([exe] + list(args), input="".join(c if c.endswith("\n") else c + "\n" for c in ch).encode(),
                           stdout=subprocess.PIPE, stderr=subprocess.PIPE, timeout=timeout)
        if p.returncode != 0:
            raise RuntimeError("%s failed rc=%d: %s" % (os.path.basename(exe), p.returncode, p.stderr.decode("utf-8", "replace")[-800:]))
        return p.stdout.decode("utf-8", "replace").split("\n")
    with ThreadPoolExecutor(max_workers=nproc) as ex:
        outs = list(ex.map(one, chunks))
    return [l for o in outs for l in o if l]


def kv(line):
    return dict(x.split("=", 1) for x in line.split()[1:] if "=" in x)


class Symbols:
    def __init__(self, exe):
        self.exe, self.cache = exe, {}

    def resolve(self, addrs):
        need = sorted(set(a for a in addrs if a not in self.cache and re.match(r"^0x[0-9a-f]{1,11}$", a)))
        for i in range(0, len(need), 400):
            part = need[i:i + 400]
            out = subprocess.run(["addr2line", "-f", "-e", self.exe] + part, stdout=subprocess.PIPE).stdout.decode().split("\n")
            for j, a in enumerate(part):
                fn = out[2 * j] if 2 * j < len(out) else "??"
                fl = out[2 * j + 1] if 2 * j + 1 < len(out) else "??"
                self.cache[a] = (fn, os.path.basename(fl.split(":")[0]) if fl and not fl.startswith("??") else None)
        return self

    def frames(self, bt):
        """library / harness frames of a backtrace string, innermost first, without the signal trampoline"""
        addrs = bt.split(",")
        self.resolve(addrs)
        fr = [self.cache.get(a, ("??", None)) for a in addrs]
        return [f for f in fr if f[0] not in ("??", "crash_handler", "where_handler") and not f[0].startswith("__wrap_")]


HARNESS_FRAMES = {"enc_session", "dec_session", "enc_job", "dec_job", "cycles_job", "run_child", "main", "acct_sub", "acct_add", "send_pic",
                  "get_packets", "send_eos", "make_pic", "free_pic", "emit"}

_FUNCS = {}
_FILEMAP = {}


def source_function(basename, line):
    """(relpath, function name) of the function containing basename:line, or (relpath, None)"""
    import lifecycle as L
    if not _FILEMAP:
        for d in L.SRC_DIRS + ["Source/Lib/Decoder/Codec"]:
            full = os.path.join(C.REPO, d)
            if os.path.isdir(full):
                for fn in os.listdir(full):
                    if fn.endswith((".c", ".h")):
                        _FILEMAP.setdefault(fn, os.path.join(d, fn))
    rel = _FILEMAP.get(basename)
    if rel is None:
        return None, None
    if rel not in _FUNCS:
        try:
            _FUNCS[rel] = L.functions_of(rel)
        except Exception:
            _FUNCS[rel] = []
    for f in _FUNCS[rel]:
        if f.line <= line <= f.endline:
            return rel, f.name
    return rel, None


def stem(basename):
    return re.sub(r"\.[ch]$", "", basename or "unknown")
