"""C10 — the decoder survives arbitrary input bytes.

LEVEL "other": only the byte-level OBU framing contract is proof material; everything below it is exercised, not proved.

(1) Lean proofs (Props/C10.lean) about the byte-accurate model of svt_av1_dec_frame / decode_multiple_obu / dec_bits_init /
    read_obu_header / read_obu_size / dec_get_bits_leb128 (Model/ObuWalk.lean): for the repaired code (the code of /repo
    HEAD) every framing-layer load is below data_size and the call returns, for all inputs; for the code before the repairs
    the exact side conditions and concrete over-read / wrap / hang / abort witnesses.
(2) The source tree is inspected for the repairs (`tree_flags`); the model is run with the flags of the code that IS there,
    so a reverted repair changes the model variant and the real decoder's defect comes back as a VIOLATION with its input.
(3) Two input sets are fed to the REAL decoder (harness/decfuzz.c, ASan+UBSan Debug library, every input in a forked child
    with watchdog) and to `svtmodel obuwalk`; per-OBU trace (guarded hook svt_av1_verif_obu_trace), decode_multiple_obu
    calls, highest framing-layer load and outcome class are compared:
      EXPLORATION (seed driven): the fixed boundary set + seeded OBU streams / random bytes (hostile size fields, reserved
        types, Annex-B on/off, exact and padded buffers).  Candidates are first run through the model; only inputs whose walk
        reaches no sequence-header / frame-header / frame OBU are kept, i.e. inputs on which NO payload parser runs: the model
        predicts their outcome completely and nothing below the framing layer is executed.
      REGRESSION CORPUS (committed, corpus/c10/*.txt, independent of VERIF_SEED): real packets of four tiny real encodes with
        their context + truncations, bit flips, splices and size-field tampering that DO enter the payload parsers (generated
        once by `python3 -m checks.c10 gen` from seeds 1,2,3,7 and a thorough run).  quick = the lines marked q, thorough = all.
(4) The property's own oracle on the REAL decoder: sanitizer report, abort, signal, timeout (a Release-build probe looks
    for hangs).  Each distinct (function, kind) is one key `F9-<function>-<kind>` (framing layer / public API) or
    `F9b-<function>-<kind>` (below it); keys not listed in known_findings.txt are VIOLATIONs with the smallest input as
    replay.  Defects below the framing layer are decided by the regression corpus only.
"""
import os
import re
import subprocess
import time
from . import common as C

LEVEL = "other"
MODULE = "SvtVerif.Props.C10"
MARK = "--- replay input (harness/decfuzz lines) ---"

ASAN_FLAVOUR = "asanrec"
# ASan + UBSan (recoverable, so that one report does not hide the next), Debug (asserts on), decoder only.
# UBSan's alignment check is off: the library's word loads/stores are misaligned by design on x86 (dec_bits_init casts
# uint8_t* to uint32_t*, svt_memcpy_small stores through double*) and the check fires inside svt_av1_dec_init before any
# input byte is read (seen with the standard "asan" flavour: svt_av1_dec_init -> svt_av1_init_wedge_masks -> svt_memcpy_small).
C.FLAVOURS[ASAN_FLAVOUR] = ("Debug", "-D%s -Wno-error -O1 -g -fsanitize=address,undefined -fno-sanitize=alignment "
                                     "-fno-omit-frame-pointer" % C.GUARD,
                            ["-DCMAKE_EXE_LINKER_FLAGS=-fsanitize=address,undefined", "-DBUILD_ENC=OFF"])

FRAMING_FUNCS = {"dec_bits_init", "dec_get_bits", "dec_get_bits_leb128", "read_obu_header", "read_obu_size",
                 "read_obu_header_size", "decode_multiple_obu", "svt_av1_dec_frame", "svt_dec_out_buf",
                 "svt_av1_dec_get_picture", "dec_pic_mgr_update_ref_pic", "dec_ref_count_and_rel", "svt_av1_dec_deinit",
                 "svt_av1_dec_deinit_handle"}
BIT_READER = ("dec_bits_load_word", "dec_bits_init", "dec_get_bits")
FRAMING_CALLERS = {"decode_multiple_obu", "read_obu_header", "read_obu_size", "read_obu_header_size",
                   "dec_get_bits_leb128"}
OPAQUE_TYPES = {1, 3, 4, 6, 7}


# ----------------------------------------------------------------------------- which code is there
def tree_flags():
    def src(p):
        try:
            return open(os.path.join(C.REPO, p)).read()
        except OSError:
            return ""
    bits = src("Source/Lib/Decoder/Codec/EbDecBitstream.c")
    obu = src("Source/Lib/Decoder/Codec/EbDecParseObu.c")
    hdl = src("Source/Lib/Decoder/Codec/EbDecHandle.c")
    m = re.search(r"svt_av1_dec_frame\(.*?\n}\n", hdl, re.S)
    frame_fn = m.group(0) if m else ""
    m = re.search(r"EbErrorType decode_multiple_obu\(.*?\n}\n", obu, re.S)
    dmo = re.sub(r"\s+", " ", m.group(0) if m else "")
    return {
        "safeLoad": "dec_bits_load_word" in bits and "GET_BITS(" not in bits,
        "checkSub": ("data_size < obu_header.size + length_size" in dmo and "data_size < length_size" in dmo
                     and "obu_header.payload_size < obu_header.size" in dmo and "memset(&obu_header" in dmo),
        "errReturn": bool(re.search(r"if \(return_error != EB_ErrorNone\)\s*return return_error;", frame_fn))
                     and "assert(0)" not in frame_fn,
        "handleInit": "calloc(1, sizeof(EbDecHandle))" in hdl and "cur_pic_buf[0] == NULL" in hdl,
        "deinitFix": "while (memory_entry != dec_handle_ptr->memory_map_init_address && memory_entry) {" in hdl,
        "hook": "svt_av1_verif_obu_trace" in obu,
    }


def cfg_string(fl, ndebug):
    return "%d%d%d%d" % (fl["safeLoad"], fl["checkSub"], fl["errReturn"], ndebug)


# ----------------------------------------------------------------------------- corpus
def leb(v, n=None):
    out = []
    while True:
        b = v & 0x7f
        v >>= 7
        if v or (n is not None and len(out) + 1 < n):
            out.append(b | 0x80)
        else:
            out.append(b)
            break
        if len(out) >= 10:
            break
    return bytes(out)


def obu(t, payload=b"", has_size=True, ext=None, size=None, leblen=None, forbidden=0, reserved=0):
    h = bytes([(forbidden << 7) | ((t & 15) << 3) | ((1 if ext is not None else 0) << 2) | ((1 if has_size else 0) << 1) | reserved])
    if ext is not None:
        h += bytes([ext & 255])
    if has_size:
        h += leb(len(payload) if size is None else size, leblen)
    return h + payload


def annexb_wrap(obus, r=None):
    out = b""
    for o in obus:
        out += leb(len(o), None if r is None or r.chance(3, 4) else r.range(1, 4)) + o
    return out


def fixed_framing_inputs():
    """Deterministic boundary set (the same for every seed): (annexb, bytes)."""
    res = []
    res.append((0, b""))
    res.append((0, b"", 1))                  # empty packet, no svt_av1_dec_get_picture: straight to the teardown
    for b in range(256):
        res.append((0, bytes([b])))
    for t in range(16):
        res.append((0, obu(t)))
        res.append((0, obu(t, has_size=False)))
        res.append((0, obu(t, ext=0x00)))
        res.append((0, obu(t, ext=0xe8)))
        res.append((0, obu(t, ext=0x07)))
        res.append((0, obu(t, b"\x00" * 3)))
        res.append((0, obu(t, b"\x80" * 9)))
        res.append((0, obu(t, b"\x00" * 8, size=9)))           # size one past the end
        res.append((0, obu(t, b"", size=1)))
        res.append((0, obu(t, b"", size=0xffffffff)))
        res.append((0, obu(t, b"", size=0x100000000)))          # > UINT32_MAX
        res.append((0, obu(t, b"\x00" * 8, leblen=8)))          # non-minimal 8-byte size field
        res.append((0, obu(t)[:1] + b"\xff" * 8))                # 8 continuation bytes
        res.append((0, obu(t)[:1] + b"\xff" * 7 + b"\x7f"))
        res.append((0, obu(t, reserved=1)))
        res.append((0, obu(t, forbidden=1)))
        res.append((1, annexb_wrap([obu(t, has_size=False)])))
        res.append((1, annexb_wrap([obu(t)])))
        res.append((1, leb(0) + obu(t)))                         # Annex-B length smaller than the header
        res.append((1, leb(1) + obu(t, ext=0)))
        res.append((1, leb(200) + obu(t)))
        res.append((1, b"\xff" * 8))
        res.append((1, b"\x80" * 3))
    td = obu(2)
    for k in range(1, 12):
        res.append((0, td * k))
        res.append((0, td * k + obu(15, b"\x00" * k)))
        res.append((0, td + obu(5, bytes(range(k)))))
        res.append((0, (td * k)[:-1]))
    res.append((0, td + obu(4, b"\x00" * 10)))                   # tile group without frame header
    res.append((0, td + obu(7, b"\x00" * 10)))                   # redundant frame header without frame header (assert)
    res.append((0, td + obu(3, b"\x00" * 10) + obu(3, b"\x00" * 10)))
    res.append((0, td + obu(2, has_size=False) + td))
    res.append((0, obu(2, has_size=False) + b"\x00" * 16))
    res.append((0, td + obu(15, b"\xaa" * 20, size=10) + td))
    return res


ALL_TYPES = [2, 2, 15, 15, 5, 5, 0, 8, 9, 13, 1, 3, 4, 6, 7]
# exploration: no sequence header / frame header / frame OBUs (they enter the payload parsers); 4 = tile group without a frame
# header (EB_Corrupt_Frame before any parsing), 7 = redundant frame header (the Debug assert l.2566 before any parsing)
FRAMING_TYPES = [2, 2, 2, 15, 15, 5, 5, 0, 8, 9, 10, 11, 12, 13, 14, 4, 4, 7]


def random_obu_stream(r, types=ALL_TYPES):
    n = r.range(1, 5)
    obus = []
    for _ in range(n):
        t = r.choice(types)
        pl = bytes(r.below(256) for _ in range(r.choice([0, 0, 1, 2, 7, 8, 9, 15, 16, 17, 31])))
        kw = {}
        if r.chance(1, 5):
            kw["ext"] = r.choice([0, 0x20, 0xe8, 0x01, 0xff])
        if r.chance(1, 8):
            kw["has_size"] = False
        if r.chance(1, 4):
            kw["leblen"] = r.range(1, 8)
        if r.chance(1, 4):
            kw["size"] = r.choice([0, 1, len(pl) + 1, len(pl) + 8, 127, 128, 16383, 16384, 0xffffffff, 0x100000000,
                                   max(0, len(pl) - 1), 2 ** 56 - 1])
        if r.chance(1, 20):
            kw["forbidden"] = 1
        if r.chance(1, 20):
            kw["reserved"] = 1
        obus.append(obu(t, pl, **kw))
    ax = 1 if r.chance(1, 3) else 0
    data = annexb_wrap(obus, r) if ax else b"".join(obus)
    if r.chance(1, 3) and data:
        data = data[:r.range(0, len(data))]
    return ax, data


def mutate(r, pk, others):
    """One mutation of a real packet -> bytes."""
    b = bytearray(pk)
    k = r.below(9)
    if k == 0 and b:
        for _ in range(r.range(1, 3)):
            b[r.below(len(b))] ^= 1 << r.below(8)
    elif k == 1 and b:
        for _ in range(r.range(1, 4)):
            b[r.below(len(b))] = r.choice([0, 0xff, 0x80, 0x7f, r.below(256)])
    elif k == 2:
        b = b[:r.range(0, len(b))]
    elif k == 3 and len(b) > 4:
        i = r.range(0, len(b) - 2)
        j = r.range(i + 1, len(b))
        b = b[:i] + b[j:]
    elif k == 4 and others:
        o = r.choice(others)
        i = r.range(0, len(b))
        j = r.range(0, len(o))
        b = b[:i] + bytearray(o[j:])
    elif k == 5 and len(b) > 4:
        i = r.range(0, len(b) - 2)
        j = r.range(i + 1, min(len(b), i + 40))
        b = b[:j] + b[i:j] + b[j:]
    elif k == 6 and len(b) > 6:
        # first header bytes (frame header area) heavily
        for _ in range(r.range(1, 6)):
            b[r.range(2, min(len(b) - 1, 24))] ^= 1 << r.below(8)
    elif k == 7 and len(b) > 4:
        # tamper with a size field: find OBU boundaries of the well-formed packet
        pos, offs = 0, []
        while pos + 1 < len(b):
            hs = 2 if b[pos] & 4 else 1
            if not b[pos] & 2:
                break
            v, sh, q = 0, 0, pos + hs
            while q < len(b) and sh < 56:
                v |= (b[q] & 0x7f) << sh
                sh += 7
                q += 1
                if not b[q - 1] & 0x80:
                    break
            offs.append((pos + hs, q))
            pos = q + v
        if offs:
            s, e = r.choice(offs)
            nv = r.choice([0, 1, 2, 127, 128, len(b), len(b) + 1, 0xffffffff, 0x100000000, r.below(1 << 14)])
            b = b[:s] + bytearray(leb(nv, r.choice([None, None, e - s, 8]))) + b[e:]
    else:
        i = r.range(0, len(b))
        b = b[:i] + bytearray(r.below(256) for _ in range(r.range(1, 12))) + b[i:]
    return bytes(b)


def encode_cases():
    """The four tiny real encodes the regression corpus is built on (generator side only; fixed seeds)."""
    cases = [
        dict(w=64, h=64, n=6, bd=8, content=4, **{"cfg.enc_mode": 8, "cfg.hierarchical_levels": 2}),
        dict(w=64, h=64, n=4, bd=10, content=2, **{"cfg.enc_mode": 8, "cfg.hierarchical_levels": 0}),
        dict(w=128, h=64, n=5, bd=8, content=0, **{"cfg.enc_mode": 8, "cfg.tile_columns": 1, "cfg.hierarchical_levels": 1}),
        dict(w=72, h=88, n=5, bd=8, content=5, **{"cfg.enc_mode": 8, "cfg.screen_content_mode": 1, "cfg.hierarchical_levels": 1}),
    ]
    for i, a in enumerate(cases):
        a.update(hex=1, recon=0, decode=0, seed=4100 + i, watchdog=1500)
    return cases


class Inp:
    __slots__ = ("id", "stream", "ctx", "annexb", "stackfill", "pad", "flags", "data", "kind", "src")

    def __init__(self, id, stream, ctx, annexb, data, kind, pad=0, stackfill=-1, flags=0, src="explore"):
        self.id, self.stream, self.ctx, self.annexb, self.data, self.kind = id, stream, ctx, annexb, data, kind
        self.pad, self.stackfill, self.flags, self.src = pad, stackfill, flags, src

    def tline(self):
        return "T %s %d %d %d %d %s" % (self.id, self.annexb, self.stackfill, self.pad, self.flags, self.data.hex() or "-")


def legacy_corpus(r, tier, streams, budget):
    """Generator side only (`python3 -m checks.c10 gen`): the seed-driven corpus the regression corpus was drawn from.
    streams: list of (args, [packet bytes]).  Returns list of Inp.  ctx = number of leading packets of the stream decoded
    (as context) before the input."""
    inps = []

    def add(stream, ctx, ax, data, kind, **kw):
        inps.append(Inp("i%d" % len(inps), stream, ctx, ax, data, kind, **kw))

    # A. framing layer, fresh decoder of stream 0
    fixed = fixed_framing_inputs()
    for k, it in enumerate(fixed):
        ax, d, fg = it[0], it[1], (it[2] if len(it) > 2 else 0)
        add(0, 0, ax, d, "fixed", pad=0 if k % 2 == 0 else 16, flags=fg)
        if tier == "thorough":
            add(0, 0, ax, d, "fixed", pad=16 if k % 2 == 0 else 0, flags=fg)
    nrand = budget["random"]
    for k in range(nrand):
        ax, d = random_obu_stream(r)
        add(0, 0, ax, d, "obustream", pad=r.choice([0, 0, 16, 24]))
    for k in range(budget["bytes"]):
        d = bytes(r.below(256) for _ in range(r.range(1, 40)))
        add(0, 0, r.below(2), d, "randombytes", pad=r.choice([0, 16]))
    # truncation of small real packets at every offset (first packet of each stream, and the smallest packet)
    for si, (a, pk) in enumerate(streams):
        cand = [0] + sorted(range(1, len(pk)), key=lambda i: len(pk[i]))[:1]
        for pi in cand:
            p = pk[pi]
            step = 1 if len(p) <= budget["trunc_full"] else max(1, len(p) // budget["trunc_full"])
            for cut in range(0, len(p), step):
                add(si, pi, 0, p[:cut], "truncate", pad=0)
            add(si, pi, 0, p, "valid", pad=0)
            add(si, pi, 0, p, "valid", pad=16)
    # valid packets in order (pad 0 and 16): the decoder on what the encoder produced
    for si, (a, pk) in enumerate(streams):
        for pi in range(len(pk)):
            add(si, pi, 0, pk[pi], "valid", pad=16 if pi % 2 else 0)
    # B. below the framing layer: mutations of real packets with their real context
    for k in range(budget["mutations"]):
        si = r.below(len(streams))
        pk = streams[si][1]
        pi = r.below(len(pk))
        d = mutate(r, pk[pi], pk)
        add(si, pi, 0, d, "mutation", pad=0 if k % 2 == 0 else 16)
    # Annex-B on real packets re-framed: <obu_length><obu> with and without the OBUs' own size fields
    for si, (a, pk) in enumerate(streams[:1]):
        for pi in range(min(2, len(pk))):
            obus, bare, pos, p = [], [], 0, pk[pi]
            while pos < len(p):
                hs = 2 if p[pos] & 4 else 1
                v, sh, q = 0, 0, pos + hs
                while q < len(p):
                    v |= (p[q] & 0x7f) << sh
                    sh += 7
                    q += 1
                    if not p[q - 1] & 0x80:
                        break
                obus.append(p[pos:q + v])
                bare.append(bytes([p[pos] & 0xfd]) + p[pos + 1:pos + hs] + p[q:q + v])
                pos = q + v
            add(si, pi, 1, annexb_wrap(obus), "annexb-valid", pad=16)
            add(si, pi, 1, annexb_wrap(bare), "annexb-valid", pad=0)
            add(si, pi, 1, annexb_wrap(bare), "annexb-valid", pad=16)
    return inps


def exploration_candidates(r, tier, budget, warm_ctx):
    """Seed-driven framing-layer inputs on stream 0 of the regression corpus: fresh decoder (ctx 0) or after `warm_ctx`
    valid packets.  `filter_exploration` drops the candidates whose walk reaches a payload parser."""
    inps = []

    def add(ctx, ax, data, kind, **kw):
        inps.append(Inp("e%d" % len(inps), 0, ctx, ax, data, kind, **kw))

    fixed = fixed_framing_inputs()
    if tier == "quick":
        # every seed keeps the structural cases, single bytes are sampled
        fixed = [x for x in fixed if len(x[1]) != 1] + [x for x in fixed if len(x[1]) == 1 and (x[1][0] % 8 in (0, 2) or r.chance(1, 8))]
    for k, it in enumerate(fixed):
        ax, d, fg = it[0], it[1], (it[2] if len(it) > 2 else 0)
        add(0, ax, d, "fixed", pad=0 if k % 2 == 0 else 16, flags=fg)
        if tier == "thorough":
            add(0, ax, d, "fixed", pad=16 if k % 2 == 0 else 0, flags=fg)
    for k in range(budget["random"]):
        ax, d = random_obu_stream(r, FRAMING_TYPES)
        add(warm_ctx if k % 3 == 2 else 0, ax, d, "obustream", pad=r.choice([0, 0, 16, 24]))
    for k in range(budget["bytes"]):
        d = bytes(r.below(256) for _ in range(r.range(1, 40)))
        add(warm_ctx if k % 3 == 2 else 0, r.below(2), d, "randombytes", pad=r.choice([0, 16]))
    return inps


def filter_exploration(cands, cfg):
    """Keep the candidates on which no payload parser runs: the model's walk (every non-opaque payload 'parses') reaches no
    OBU of type 1 / 3 / 6.  For those the model needs no oracle at all."""
    mres = parse_model(C.run_model("obuwalk", "\n".join(model_lines(cands, {}, cfg, False)) + "\n"))
    keep = []
    for x in cands:
        m = mres.get(x.id)
        if m is None:
            continue
        if any(t[1] in (1, 3, 6) for t in parse_trace(m["trace"])):
            continue
        keep.append(x)
    return keep


# ----------------------------------------------------------------------------- regression corpus (corpus/c10/*.txt)
CORPUS_DIR = os.path.join(C.VERIF, "corpus", "c10")


def load_corpus(tier):
    """corpus/c10/sN.txt:  `GEOM w h bd`, `PKT <hex>` (the real packets of stream N, in order), then
    `T <q|t> <ctx> <annexb> <pad> <flags> <kind> <hex|->` (q = also in the quick tier; ctx = number of leading packets decoded
    as context).  Returns (streams, inputs)."""
    streams, inps = [], []
    if not os.path.isdir(CORPUS_DIR):
        return streams, inps
    for fn in sorted(os.listdir(CORPUS_DIR)):
        if not re.match(r"s\d+\.txt$", fn):
            continue
        geom, pk, si = None, [], len(streams)
        for ln, line in enumerate(open(os.path.join(CORPUS_DIR, fn))):
            ws = line.split()
            if not ws or ws[0].startswith("#"):
                continue
            if ws[0] == "GEOM":
                geom = dict(w=int(ws[1]), h=int(ws[2]), bd=int(ws[3]))
                streams.append((geom, pk))
            elif ws[0] == "PKT":
                pk.append(bytes.fromhex(ws[1]))
            elif ws[0] == "T" and geom is not None:
                if tier == "quick" and ws[1] != "q":
                    continue
                data = b"" if ws[7] == "-" else bytes.fromhex(ws[7])
                inps.append(Inp("r%d_%d" % (si, ln), si, int(ws[2]), int(ws[3]), data, ws[6], pad=int(ws[4]), flags=int(ws[5]),
                                src="corpus"))
    return streams, inps


# ----------------------------------------------------------------------------- running the real decoder
def harness_exe(flavour):
    extra = ["-fsanitize=address,undefined"] if flavour == ASAN_FLAVOUR else []
    return C.compile_harness("decfuzz_" + flavour, [os.path.join(C.VERIF, "harness", "decfuzz.c")],
                             libs=["libSvtAv1Dec.a"], flavour=flavour, extra=extra)


def run_harness(exe, streams, inps, watchdog_ms, workers=4):
    """Group by (stream, ctx); deal groups to workers; returns ({id: rec}, [parent stderr texts])."""
    groups = {}
    for x in inps:
        groups.setdefault((x.stream, x.ctx), []).append(x)
    keys = sorted(groups, key=lambda k: -sum(1 + len(i.data) // 64 for i in groups[k]))
    # split very large groups so that the workers are balanced
    chunks = []
    for k in keys:
        g = groups[k]
        per = max(40, (len(inps) // (workers * 3)) or 1)
        for i in range(0, len(g), per):
            chunks.append((k, g[i:i + per]))
    bins = [[] for _ in range(workers)]
    load = [0] * workers
    for k, g in sorted(chunks, key=lambda c: -len(c[1])):
        j = load.index(min(load))
        bins[j].append((k, g))
        load[j] += len(g) + 15
    env = dict(os.environ)
    env["ASAN_OPTIONS"] = "detect_leaks=0:symbolize=0:abort_on_error=0:allocator_may_return_null=1:handle_abort=0"
    env["UBSAN_OPTIONS"] = "print_stacktrace=1:symbolize=0"

    def work(b):
        # one harness process per (stream, context) chunk: every child is forked from a parent whose whole history is
        # "init + these context packets", whatever the other inputs of the run and the number of workers are
        outs, errs = [], []
        for (si, ctx), g in b:
            a, pk = streams[si]
            lines = ["CTX c%d_%d 0 -1 0 0 %s" % (si, ctx, ",".join(p.hex() for p in pk[:ctx]) or "-")]
            lines += [x.tline() for x in g]
            try:
                p = subprocess.run([exe, "watchdog_ms=%d" % watchdog_ms, "w=%d" % a["w"], "h=%d" % a["h"], "bd=%d" % a["bd"]],
                                   input=("\n".join(lines) + "\n").encode(), stdout=subprocess.PIPE, stderr=subprocess.PIPE,
                                   env=env, timeout=7200)
                outs.append(p.stdout.decode("utf-8", "replace"))
                errs.append(p.stderr.decode("utf-8", "replace"))
                if p.returncode != 0:
                    errs.append("HARNESS-DIED rc=%d ctx=(%d,%d)" % (p.returncode, si, ctx))
            except subprocess.TimeoutExpired:
                errs.append("HARNESS-DIED timeout ctx=(%d,%d)" % (si, ctx))
        return "\n".join(outs), "\n".join(errs)

    res = C.run_parallel(work, bins, workers=workers)
    recs = {}
    for out, _ in res:
        cur = None
        for line in out.split("\n"):
            if line.startswith("R "):
                ws = line.split()
                d = {"E": []}
                for t in ws[2:]:
                    if "=" in t:
                        k, v = t.split("=", 1)
                        d[k] = v
                recs[ws[1]] = d
            elif line.startswith("E "):
                ws = line.split(None, 2)
                if len(ws) == 3 and ws[1] in recs:
                    recs[ws[1]]["E"].append(ws[2])
    return recs, [e for _, e in res]


def split_reports(lines):
    """sanitizer / assert head lines with their frames -> list of {head, rw, frames:[hex offsets]}"""
    reps, cur = [], None
    for l in lines:
        l = l.strip()
        if l.startswith("#"):
            m = re.search(r"\(([^()]*)\+0x([0-9a-f]+)\)", l)
            if cur is not None and m:
                cur["frames"].append((os.path.basename(m.group(1)), m.group(2)))
        elif l.startswith("SUMMARY"):
            continue
        elif l.startswith("READ of") or l.startswith("WRITE of"):
            if cur is not None:
                cur["rw"] = l.split()[0]
        elif "runtime error" in l or "ERROR: " in l or "Assertion" in l:
            cur = {"head": l, "frames": [], "rw": ""}
            reps.append(cur)
    return reps


UB_KINDS = [("out of bounds", "index-out-of-bounds"), ("left shift", "shift"), ("right shift", "shift"), ("shift exponent", "shift"),
            ("signed integer overflow", "signed-overflow"), ("null pointer", "null-pointer"), ("division by zero", "div-by-zero"),
            ("not a valid value", "invalid-value"), ("misaligned", "misaligned"), ("pointer index expression", "pointer-overflow"),
            ("applying", "pointer-overflow"), ("negation of", "signed-overflow"), ("outside the range", "float-cast-overflow"), ("insufficient space", "object-size")]


class Symbolizer:
    def __init__(self, exe):
        self.exe, self.cache = exe, {}

    def resolve(self, offs):
        need = sorted(set(o for o in offs if o not in self.cache))
        for i in range(0, len(need), 400):
            part = need[i:i + 400]
            rc, out = C.sh(["addr2line", "-f", "-e", self.exe] + ["0x" + o for o in part])
            ls = out.split("\n")
            for k, o in enumerate(part):
                fn = ls[2 * k].strip() if 2 * k < len(ls) else "?"
                fl = ls[2 * k + 1].strip() if 2 * k + 1 < len(ls) else "?"
                self.cache[o] = (fn, fl)

    def funcs(self, frames, exe_base):
        out = []
        for mod, off in frames:
            if mod != exe_base:
                out.append("<%s>" % mod)
                continue
            out.append(self.cache.get(off, ("?", "?"))[0])
        return out


def classify_report(rep, funcs):
    """-> (key, kind, function, caller chain) for one report"""
    h = rep["head"]
    lib = [f for f in funcs if not f.startswith("<") and f not in ("child", "main", "open_decoder", "on_abort", "?", "_start")]
    if "runtime error" in h:
        msg = h.split("runtime error:")[1]
        kind = next((k for pat, k in UB_KINDS if pat in msg), "ub")
        fn = lib[0] if lib else "?"
    elif "AddressSanitizer" in h:
        k = h.split("AddressSanitizer:")[1].split()[0]
        kind = k + ("-" + rep["rw"].lower() if rep["rw"] else "")
        fn = lib[0] if lib else "?"
    elif "Assertion" in h:
        m = re.search(r":\s*(\w+): Assertion", h)
        fn = m.group(1) if m else (lib[0] if lib else "?")
        kind = "assert"
    else:
        kind, fn = "other", (lib[0] if lib else "?")
    framing = fn in FRAMING_FUNCS and not (fn == "dec_get_bits" and (len(lib) < 2 or lib[1] not in FRAMING_CALLERS)) \
        and not (fn == "dec_bits_init" and (len(lib) < 2 or lib[1] not in FRAMING_CALLERS))
    # the bit reader's loads (a load far outside the allocation is a SEGV)
    if fn in BIT_READER and (kind.startswith("heap-buffer-overflow") or kind.startswith("SEGV")
                             or kind.startswith("unknown-crash") or kind.startswith("use-after")):
        if fn == "dec_bits_load_word":
            # repaired bit reader (fix-c10-bits-bounds): it loads below data + numbytes only, so the caller passed a wrong size
            caller = next((f for f in lib if f not in BIT_READER), "?")
            return "F9b-%s-bitreader-size" % caller, "heap-buffer-overflow-read", caller, lib[:4], False
        # pinned bit reader: one defect wherever it is called from
        return "F9-%s-overread" % fn, "heap-buffer-overflow-read", fn, lib[:4], framing
    key = "%s-%s-%s" % ("F9" if fn in FRAMING_FUNCS else "F9b", fn, kind)
    return key, kind, fn, lib[:4], framing


# ----------------------------------------------------------------------------- model
def oracle_string(trace):
    orc = []
    for t in trace:
        st = t[5]
        if st == "E":
            orc.append("r4000100c")
        else:
            v = int(st, 16)
            orc.append("c%x.%d" % (v >> 1, v & 1))
    return ",".join(orc) or "-"


def parse_trace(s):
    out = []
    for t in s.split(";"):
        if not t:
            continue
        pos, rest = t.split("@")
        f = rest.split(":")
        out.append((int(pos), int(f[0]), int(f[1]), int(f[2]), int(f[3]), f[4] if len(f) > 4 else ""))
    return out


def model_lines(inps, recs, cfg, hook):
    lines = []
    for x in inps:
        r = recs.get(x.id)
        orc = "-"
        if hook and r is not None:
            orc = oracle_string(parse_trace(r.get("trace", "")))
        g = ""
        if x.stackfill >= 0:
            g = ":" + ("%x" % int.from_bytes(bytes([x.stackfill]) * 8, "little"))
        mem = x.data.hex() + "00" * x.pad
        lines.append("%s %s%s %d %s %d %s" % (x.id, cfg, g, x.annexb, mem or "-", len(x.data), orc))
    return lines


def parse_model(out):
    res = {}
    for line in out.split("\n"):
        ws = line.split()
        if len(ws) < 2 or "=" not in ws[1]:
            continue
        d = {}
        for t in ws[1:]:
            k, v = t.split("=", 1)
            d[k] = v
        res[ws[0]] = d
    return res


# ----------------------------------------------------------------------------- the check
def budgets(tier):
    """exploration candidates per run (before the model filter)"""
    if tier == "quick":
        return {"random": 350, "bytes": 100}
    return {"random": 2000, "bytes": 600}


GEN_BUDGET = {"quick": {"random": 420, "bytes": 120, "trunc_full": 70, "mutations": 260},
              "thorough": {"random": 4000, "bytes": 1200, "trunc_full": 400, "mutations": 3200}}


def run(chk, only=None):
    t_start = time.time()
    fl = tree_flags()
    chk.cov["tree_flags"] = fl
    # ---- 1. proofs
    pr = chk.proofs(MODULE, trusted_extra=[
        "Model/ObuWalk.lean: hand-written transcription of svt_av1_dec_frame / decode_multiple_obu / read_obu_header(_size) / read_obu_size / "
        "dec_bits_init / dec_get_bits / dec_get_bits_leb128 with line references; tied to the code by the correspondence run below",
        "checks/c10.py:tree_flags: textual detection of which of hooks/fix-c10-*.patch are present (selects the model variant)",
        "harness/decfuzz.c + hooks/hook-obuwalk-trace.patch: the real decoder (public API, ASan+UBSan Debug build) and its per-OBU trace",
        "payload parsers (sequence header, frame header, tile groups, reconstruction) are opaque in the model: their outcome per OBU is taken from the real run"])
    cfg = cfg_string(fl, 0)
    chk.cov["model_cfg"] = cfg
    # ---- 2. regression corpus (fixed) and exploration inputs (seed driven, filtered by the model)
    if only is not None:
        streams, inps = only()
        n_cand = len(inps)
    else:
        streams, reg = load_corpus(chk.tier)
        if not streams or not reg:
            chk.violation("regression corpus corpus/c10/*.txt is missing or empty (generate it with `python3 -m checks.c10 gen`)\n",
                          tag="corpus", found_input=False)
            return
        warm = min(1, len(streams[0][1]))
        cands = exploration_candidates(chk.rng, chk.tier, budgets(chk.tier), warm)
        n_cand = len(cands)
        try:
            expl = filter_exploration(cands, cfg)
        except (RuntimeError, C.BuildError) as e:
            chk.violation("svtmodel obuwalk failed while filtering the exploration inputs: %s\n" % str(e)[-1500:], tag="model", found_input=False)
            return
        inps = expl + reg
    chk.cov["exploration_candidates"] = n_cand
    chk.cov["exploration_inputs"] = sum(1 for x in inps if x.src == "explore")
    chk.cov["regression_corpus_inputs"] = sum(1 for x in inps if x.src == "corpus")
    chk.cov["regression_corpus_streams"] = len(streams)
    chk.cov["real_packets"] = sum(len(p) for _, p in streams)
    chk.cov["inputs"] = len(inps)
    kinds = {}
    for x in inps:
        k = "%s:%s" % (x.src, x.kind)
        kinds[k] = kinds.get(k, 0) + 1
    chk.cov["input_kinds"] = kinds
    chk.cov["input_annexb"] = sum(x.annexb for x in inps)
    chk.cov["input_padded"] = sum(1 for x in inps if x.pad)
    sizes = {}
    for x in inps:
        b = "0" if not x.data else "1-8" if len(x.data) <= 8 else "9-64" if len(x.data) <= 64 else "65-512" if len(x.data) <= 512 else ">512"
        sizes[b] = sizes.get(b, 0) + 1
    chk.cov["input_size_histogram"] = sizes
    # ---- 4. real decoder (ASan+UBSan Debug)
    exe = harness_exe(ASAN_FLAVOUR)
    t0 = time.time()
    recs, perrs = run_harness(exe, streams, inps, watchdog_ms=60000)
    chk.cov["asan_run_s"] = round(time.time() - t0, 1)
    hook = any(r.get("hook") == "1" for r in recs.values())
    chk.cov["hook_present"] = hook
    missing = [x for x in inps if x.id not in recs]
    # ---- 5. model
    model_err = None
    mres = {}
    try:
        mres = parse_model(C.run_model("obuwalk", "\n".join(model_lines(inps, recs, cfg, hook)) + "\n"))
    except (RuntimeError, C.BuildError) as e:
        model_err = str(e)[-1500:]
    # ---- 6. classify the real outcomes
    sym = Symbolizer(exe)
    base = os.path.basename(exe)
    allreps = {}
    offs = set()
    for x in inps:
        r = recs.get(x.id)
        if r is None:
            continue
        reps = split_reports(r["E"])
        allreps[x.id] = reps
        for rp in reps:
            offs.update(o for m, o in rp["frames"] if m == base)
    parent_reps = []
    for e in perrs:
        rp = split_reports(e.split("\n"))
        parent_reps += rp
        for q in rp:
            offs.update(o for m, o in q["frames"] if m == base)
    sym.resolve(offs)
    findings = {}       # key -> dict(count, example Inp, text)

    def note(key, x, text):
        f = findings.setdefault(key, {"count": 0, "inp": None, "text": text, "deciding": False})
        f["count"] += 1
        # a defect below the framing layer is decided by the regression corpus (and its valid context packets) only
        if x is None or x.src != "explore" or not key.startswith("F9b-"):
            f["deciding"] = True
        if x is not None and (f["inp"] is None or (x.src != "explore", -len(x.data)) > (f["inp"].src != "explore", -len(f["inp"].data))):
            f["inp"], f["text"] = x, text

    outcome_hist = {}
    real_class = {}
    framing_over = {}
    tg_over = {}
    for x in inps:
        r = recs.get(x.id)
        if r is None:
            continue
        cls = None
        fo = False
        tgo = False
        payload_crash = False
        for rp in allreps[x.id]:
            fns = sym.funcs(rp["frames"], base)
            key, kind, fn, chain, framing = classify_report(rp, fns)
            note(key, x, "%s | %s | %s" % (rp["head"][:200], kind, " < ".join(chain)))
            if kind.startswith("heap-buffer-overflow") and fn in ("dec_bits_init", "dec_get_bits") and framing:
                fo = True
            elif kind.startswith("heap-buffer-overflow") and fn == "dec_bits_init" and len(chain) > 1 and chain[1] == "read_tile_group_obu":
                tgo = True      # l.2401: re-initialisation of the OBU reader at the end of the tile data (inside the opaque payload parser)
            elif "AddressSanitizer" in rp["head"] and fn not in ("svt_dec_out_buf",):
                payload_crash = True
            if kind == "assert" and fn not in ("svt_av1_dec_frame", "decode_multiple_obu"):
                payload_crash = True
        end, code, stage = r.get("end"), r.get("code"), int(r.get("stage", "0"))
        if end == "TIMEOUT":
            cls = "TIMEOUT"
            note("F9-%s-timeout" % ("svt_av1_dec_frame" if stage == 3 else "stage%d" % stage), x, "watchdog expired at stage %d" % stage)
        elif end == "SIGNAL":
            cls = "SIGNAL%s" % code
            if not allreps[x.id]:
                note("F9b-unknown-signal%s" % code, x, "killed by signal %s at stage %d, no report" % (code, stage))
        elif fo:
            cls = "OVERREAD"
        elif tgo:
            cls = "OVERREAD-TG"
        elif payload_crash:
            cls = "PAYLOAD"
        elif r.get("rc", "-") != "-":
            cls = "RET:0" if int(r["rc"], 16) == 0 else "RET:err"
            if end == "EXIT" and code not in ("0",) and not allreps[x.id]:
                note("F9b-unknown-exit%s" % code, x, "exit status %s at stage %d, no report" % (code, stage))
        elif end == "EXIT" and code == "134":
            cls = "ABORT"
        else:
            cls = "EXIT%s" % code
            if not allreps[x.id]:
                note("F9b-unknown-exit%s" % code, x, "exit status %s at stage %d, no report" % (code, stage))
        real_class[x.id] = cls
        framing_over[x.id] = fo
        tg_over[x.id] = tgo
        outcome_hist[cls] = outcome_hist.get(cls, 0) + 1
    for rp in parent_reps:
        fns = sym.funcs(rp["frames"], base)
        key, kind, fn, chain, framing = classify_report(rp, fns)
        note(key, None, "while decoding VALID context packets: %s | %s" % (rp["head"][:200], " < ".join(chain)))
    harness_died = [e for e in perrs if "HARNESS-DIED" in e]
    chk.cov["real_outcome_classes"] = outcome_hist
    # ---- 7. correspondence
    corr_fail = []
    compared = skipped_uninit = skipped_stale = far = granule = tgcount = 0
    type_seqs = set()
    wraps = []
    for x in inps:
        r, m = recs.get(x.id), mres.get(x.id)
        if r is None or m is None:
            continue
        n, memlen = len(x.data), len(x.data) + x.pad
        mover = int(m["maxread"]) > memlen
        mtr = parse_trace(m["trace"])
        type_seqs.add((tuple(t[1] for t in mtr), m["out"].split(":")[0], mover, m["wrapped"], x.annexb))
        if m["uninit"] == "1" and x.stackfill < 0 and not fl["checkSub"]:
            skipped_uninit += 1           # the value the code reads is not defined: nothing to compare
            note("F9-decode_multiple_obu-uninit-payload-size", x, "obu_has_size_field=0: payload_size read from the uninitialised local obu_header (model)")
            continue
        cls = real_class[x.id]
        if not x.annexb:
            # an OBU without size field after a frame header / tile group OBU reads obu_header.payload_size as the opaque payload
            # parser left it (EbDecParseObu.c:2202/2258/2392 subtract from it); the model keeps the unmodified value
            seen_opaque = False
            stale = False
            for t in (parse_trace(r.get("trace", "")) if hook else mtr):
                if t[3] == 0 and seen_opaque:
                    stale = True
                if t[1] in (3, 4, 6, 7):
                    seen_opaque = True
            if stale:
                skipped_stale += 1
                continue
        if hook:
            rtr = [t[:5] for t in parse_trace(r.get("trace", ""))]
            mt5 = [t[:5] for t in mtr]
            if rtr != mt5[:len(rtr)]:
                corr_fail.append((x, "OBU trace differs: real %s | model %s" % (r.get("trace"), m["trace"])))
                continue
            if m["wrapped"] == "1":
                wraps.append(x)
            if tg_over[x.id]:
                # the real decoder died at l.2401 inside read_tile_group_obu: the last OBU walked must be a tile group / frame
                tgcount += 1
                if not rtr or rtr[-1][1] not in (4, 6) or framing_over[x.id] or mover:
                    corr_fail.append((x, "over-read at the end of a tile group but the walk is %s (model maxread %s, allocation %d)" %
                                      (r.get("trace"), m["maxread"], memlen)))
                    continue
            elif mover != framing_over[x.id]:
                if mover and int(m["maxread"]) <= memlen + 3:
                    granule += 1          # a word straddling the end inside a fully addressable 8-byte granule: ASan checks the first granule only
                elif mover and int(m["maxread"]) > memlen + 32 and cls not in ("OVERREAD",):
                    far += 1              # load far outside the allocation: ASan only sees the red zone
                elif mover and cls in ("PAYLOAD", "TIMEOUT") or cls.startswith("SIGNAL"):
                    pass                  # the process died below the framing layer before it got there
                else:
                    corr_fail.append((x, "framing over-read: model maxread=%s (allocation %d) vs real %s %s" % (m["maxread"], memlen, cls, r.get("trace"))))
                    continue
            if cls in ("RET:0", "RET:err", "ABORT"):
                mo = m["out"]
                mcls = "RET:0" if mo == "RET:0" else "RET:err" if mo.startswith("RET:") else mo
                if mover:
                    pass
                elif mcls != cls:
                    corr_fail.append((x, "outcome: model %s vs real %s (rc=%s) trace %s" % (mo, cls, r.get("rc"), r.get("trace"))))
                    continue
                else:
                    if len(rtr) != len(mt5) or (r.get("max") not in ("-1", m["max"])) or (r.get("calls") != m["calls"]):
                        corr_fail.append((x, "completed walk differs: real obus=%d max=%s calls=%s | model obus=%d max=%s calls=%s" %
                                          (len(rtr), r.get("max"), r.get("calls"), len(mt5), m["max"], m["calls"])))
                        continue
            compared += 1
        else:
            # without the hook: only inputs whose walk meets no opaque payload parser
            if any(t[1] in OPAQUE_TYPES for t in mtr):
                continue
            mo = m["out"]
            mcls = "OVERREAD" if mover else "RET:0" if mo == "RET:0" else "RET:err" if mo.startswith("RET:") else mo
            if cls not in ("RET:0", "RET:err", "ABORT", "OVERREAD"):
                continue                  # died outside the walk (teardown, reference bookkeeping, get_picture): not the model's business
            if mcls != cls and not (mover and (int(m["maxread"]) > memlen + 32 or int(m["maxread"]) <= memlen + 3)):
                corr_fail.append((x, "outcome: model %s maxread=%s vs real %s" % (mo, m["maxread"], cls)))
                continue
            compared += 1
    if wraps:
        x = min(wraps, key=lambda i: len(i.data))
        note("F9-decode_multiple_obu-size-wrap", x, "data_size -= header+length wrapped: the real decoder walked OBUs beyond data_size exactly as the model (wrapped=1)")
        findings["F9-decode_multiple_obu-size-wrap"]["count"] = len(wraps)
    chk.cov["model_vs_real_compared"] = compared
    chk.cov["skipped_uninitialised_size"] = skipped_uninit
    chk.cov["skipped_size_left_by_payload_parser"] = skipped_stale
    chk.cov["far_overreads_not_visible_to_asan"] = far
    chk.cov["straddling_overreads_not_visible_to_asan"] = granule
    chk.cov["tile_group_end_overreads"] = tgcount
    # ---- 8. probes: uninitialised size (stack fill), Release-build hang
    probes = probe_uninit(chk, exe, streams, fl, hook, sym, note) if only is None else []
    hang = probe_release(chk, streams, fl, note) if only is None else []
    # ---- 9. coverage
    chk.cov["evaluations"] = len(recs)
    chk.cov["distinct_nontrivial"] = len(type_seqs)
    n_ex = sum(1 for x in inps if x.src == "explore" and x.id in recs)
    n_rg = sum(1 for x in inps if x.src == "corpus" and x.id in recs)
    chk.cov["evaluations_exploration"] = n_ex
    chk.cov["evaluations_regression_corpus"] = n_rg
    chk.cov["rule"] = ("evaluations = inputs decoded by the real decoder in a forked child = %d exploration inputs (seed driven: fixed boundary set + "
                       "seeded OBU streams / random bytes, kept only when the model's walk reaches no sequence-header / frame-header / frame OBU, "
                       "%d candidates generated) + %d regression-corpus inputs (corpus/c10, independent of VERIF_SEED, %s tier subset); "
                       "distinct_nontrivial = number of distinct (OBU type sequence walked, outcome class, framing over-read, size_t wrap, Annex-B) "
                       "tuples the model reports over both sets" % (n_ex, n_cand, n_rg, chk.tier))
    chk.cov["findings_seen"] = {k: v["count"] for k, v in sorted(findings.items())}
    chk.cov["explanation"] = (
        "Proved (Lean, all inputs): for the repaired code that /repo HEAD carries (tree_flags %s) obu_walk_reads_in_bounds_fixed (every framing-layer "
        "load < data_size, no size_t wrap, no uninitialised size) and walk_terminates_fixed (svt_av1_dec_frame returns); leb128_decode_bounds, "
        "walk_progress; for the code before the repairs obu_walk_in_bounds_partial / walk_terminates_debug_partial and the witnesses of the "
        "over-read, wrap, uninitialised size, Debug abort and Release hang (now `fixed:` entries; a reverted repair changes tree_flags, hence the "
        "model variant, and the real decoder's report is a VIOLATION again).  EXPLORATION inputs are seed driven and stay inside the framing layer: "
        "the model predicts them completely (trace, calls, highest load, outcome) and no code below the framing layer runs, so their verdict does "
        "not depend on the fragile payload parsers.  Everything BELOW the framing layer (sequence/frame header syntax, tile and block parsing, "
        "reconstruction) is NOT proved; it is exercised by the committed REGRESSION CORPUS only (real packets with context + mutations that enter "
        "the payload parsers), whose sanitizer / assert sites are exactly the listed F9b findings; a finite corpus cannot show absence of further "
        "defects there, and new seeds are deliberately not allowed to look for them." % ({k: int(v) for k, v in fl.items()},))
    for s in [x for x in inps if x.kind in ("valid", "obustream", "mutation")][:6]:
        chk.sample({"id": s.id, "kind": s.kind, "annexb": s.annexb, "pad": s.pad, "bytes": s.data.hex()[:80], "real": recs.get(s.id, {}).get("trace"),
                    "real_class": real_class.get(s.id), "model": mres.get(s.id, {}).get("out")})
    chk.assumptions += ["decoder configured for the stream's geometry, threads=1 (single-threaded decode path)",
                        "UBSan alignment check disabled (misaligned word access is by design on x86 and aborts svt_av1_dec_init itself)",
                        "ASan sees loads only within its red zones: a load far outside the allocation may go unreported (counted)"]
    chk.cov["wall_s_parts"] = {"total": round(time.time() - t_start, 1)}

    # ---- 10. verdict
    def replay_text(x, what):
        a, pk = streams[x.stream]
        return ("%s\ninput kind: %s, %d bytes, annexb=%d pad=%d, decoder %dx%d %d-bit after %d context packets\nreplay: bin/check C10 --replay <this file>\n%s\n"
                "GEOM %d %d %d\nCTX c 0 -1 0 0 %s\n%s\n" %
                (what, x.kind, len(x.data), x.annexb, x.pad, a["w"], a["h"], a["bd"], x.ctx, MARK, a["w"], a["h"], a["bd"],
                 ",".join(p.hex() for p in pk[:x.ctx]) or "-", x.tline()))

    real_bad = False
    listed = set(k["key"] for k in chk.known)
    stray = {}
    for key in sorted(findings):
        f = findings[key]
        x = f["inp"]
        if not f["deciding"] and key not in listed:
            # seen on seed-driven exploration inputs only: recorded, not part of the verdict (the model says no payload parser
            # runs on them; if one did, the trace comparison above reports it)
            stray[key] = {"count": f["count"], "input": x.tline()[:200] if x is not None else None, "text": f["text"][:200]}
            continue
        txt = "C10 violated by the real decoder: %s\n%s\ninputs showing it in this run: %d" % (key, f["text"], f["count"])
        if x is not None:
            txt = replay_text(x, txt)
        if chk.violation(txt, tag=re.sub(r"[^A-Za-z0-9_]", "_", key)[:60], key=key):
            real_bad = True
    if missing or harness_died:
        chk.violation("the harness did not report %d inputs (first: %s); harness stderr: %s\n" %
                      (len(missing), missing[0].tline()[:300] if missing else "-", [e[-300:] for e in harness_died][:2]),
                      tag="harness", found_input=False)
    if model_err:
        chk.violation("svtmodel obuwalk failed: %s\n" % model_err, tag="model", found_input=False)
    if not pr.ok:
        chk.violation("proof obligations do not check:\n%s\nforbidden tokens: %s\n" %
                      ("\n".join("%s: %s" % kv for kv in pr.failed.items()), pr.forbidden), tag="proof", found_input=False)
    if corr_fail:
        x, what = corr_fail[0]
        chk.violation(replay_text(x, "model (svtmodel obuwalk, cfg %s) and the real decoder disagree on %d of %d inputs\n%s" %
                                  (cfg, len(corr_fail), compared + len(corr_fail), what)), tag="corr", found_input=False)
    chk.cov["correspondence_failures"] = len(corr_fail)
    chk.cov["exploration_events_below_framing_not_in_verdict"] = stray
    if corr_fail:
        chk.cov["correspondence_failure_examples"] = ["%s | %s" % (x.tline()[:160], what[:300]) for x, what in corr_fail[:12]]


def probe_uninit(chk, exe, streams, fl, hook, sym, note):
    """obu_has_size_field = 0 without Annex-B: the same bytes with two different stack contents."""
    data = bytes([0x10])            # temporal delimiter, no size field
    a = Inp("u0", 0, 0, 0, data, "probe-uninit", pad=16, stackfill=0x00)
    b = Inp("u1", 0, 0, 0, data, "probe-uninit", pad=16, stackfill=0xff)
    recs, _ = run_harness(exe, streams, [a, b], watchdog_ms=60000, workers=1)
    ra, rb = recs.get("u0"), recs.get("u1")
    if ra is None or rb is None:
        return []
    sa = (ra.get("end"), ra.get("code"), ra.get("rc"), ra.get("trace"))
    sb = (rb.get("end"), rb.get("code"), rb.get("rc"), rb.get("trace"))
    chk.cov["probe_uninit"] = {"stack_00": sa, "stack_ff": sb}
    if sa != sb:
        note("F9-decode_multiple_obu-uninit-payload-size", a,
             "same input, different stack garbage, different behaviour: stack 0x00 -> %s, stack 0xff -> %s" % (sa, sb))
    return [sa, sb]


def probe_release(chk, streams, fl, note):
    """Release (NDEBUG) library: malformed input must return an error; on the pinned code svt_av1_dec_frame never returns."""
    try:
        exe = harness_exe("rel")
    except C.BuildError as e:
        chk.cov["probe_release"] = "not built: %s" % str(e)[-200:]
        return []
    cands = [(0, bytes([0x80]) + b"\x00" * 0, 16), (0, bytes([0x12, 0x00, 0x80]), 16), (0, bytes([0x00]), 16),
             (0, obu(2) + obu(4, b"\x00" * 10), 16), (0, obu(2), 16)]
    inps = [Inp("h%d" % i, 0, 0, ax, d, "probe-release", pad=pad, flags=1) for i, (ax, d, pad) in enumerate(cands)]
    recs, _ = run_harness(exe, streams, inps, watchdog_ms=8000, workers=4)
    cfg = cfg_string(fl, 1)
    try:
        mres = parse_model(C.run_model("obuwalk", "\n".join(model_lines(inps, {}, cfg, False)) + "\n"))
    except (RuntimeError, C.BuildError):
        mres = {}
    out = {}
    for x in inps:
        r, m = recs.get(x.id), mres.get(x.id, {})
        if r is None:
            continue
        out[x.data.hex()] = {"real": (r.get("end"), r.get("rc")), "model": m.get("out")}
        if r.get("end") == "TIMEOUT":
            note("F9-svt_av1_dec_frame-hang-on-error", x,
                 "Release (NDEBUG) build: svt_av1_dec_frame does not return within the 8 s watchdog on a %d-byte malformed input (model: %s)" % (len(x.data), m.get("out")))
        mo = m.get("out", "")
        real = "HANG" if r.get("end") == "TIMEOUT" else "RET:0" if r.get("rc") == "0" else "RET:err" if r.get("rc", "-") != "-" else "?"
        mcls = "RET:0" if mo == "RET:0" else "RET:err" if mo.startswith("RET:") else mo
        if mcls in ("HANG", "FUEL"):
            mcls = "HANG"
        if mcls != real and real != "?":
            note("C10-release-probe-model-mismatch", x, "Release build: model %s vs real %s" % (mo, real))
    chk.cov["probe_release"] = out
    return list(out.items())


def replay(chk, path):
    """Re-run the input of a replay file (GEOM / CTX / T lines after the marker) on the real decoder and the model."""
    geom, ctx, tl = (64, 64, 8), [], None
    on = False
    for line in open(path):
        line = line.strip()
        if line == MARK:
            on = True
        elif on and line.startswith("GEOM"):
            geom = tuple(int(v) for v in line.split()[1:4])
        elif on and line.startswith("CTX"):
            h = line.split()[-1]
            ctx = [] if h == "-" else [bytes.fromhex(v) for v in h.split(",")]
        elif on and line.startswith("T "):
            tl = line.split()
    if tl is None:
        run(chk)
        return

    def only():
        streams = [(dict(w=geom[0], h=geom[1], bd=geom[2]), ctx + [b""])]
        data = b"" if tl[6] == "-" else bytes.fromhex(tl[6])
        return streams, [Inp("i0", 0, len(ctx), int(tl[2]), data, "replay", pad=int(tl[4]), stackfill=int(tl[3]), flags=int(tl[5]),
                             src="corpus")]
    run(chk, only=only)


# ----------------------------------------------------------------------------- generator of the regression corpus
def input_keys(x, recs, sym, base):
    r = recs.get(x.id)
    keys = []
    if r is None:
        return keys
    for rp in split_reports(r["E"]):
        key = classify_report(rp, sym.funcs(rp["frames"], base))[0]
        keys.append(key)
    if r.get("end") == "TIMEOUT":
        keys.append("TIMEOUT")
    return keys


def gen_corpus(seeds=(1, 2, 3, 7), thorough_seed=1, per_key=6, sample_q=300, sample_t=1800):
    """`python3 -m checks.c10 gen`: rebuild corpus/c10 from the seed-driven legacy corpus (seeds 1,2,3,7 quick budgets on the first two
    streams + one thorough budget on all four), keeping what enters the payload parsers: all valid packets, the boundary-set members
    with sequence/frame OBUs, up to `per_key` smallest inputs per sanitizer/assert site, and a fixed sample of the rest."""
    cases = encode_cases()
    C.e2e_exe()
    encs = C.run_parallel(lambda a: C.run_e2e(a, timeout=2000), cases, workers=2)
    streams = []
    for a, r in zip(cases, encs):
        if r["crashed"] or r["hung"] or not r["PKT"] or len(r["HEX"]) != len(r["PKT"]):
            raise RuntimeError("encode not usable: %s rc=%s" % (a, r["rc"]))
        streams.append((dict(w=a["w"], h=a["h"], bd=a["bd"]), [bytes.fromhex(r["HEX"][i]) for i in sorted(r["HEX"])]))
    pool, seen = [], set()

    def take(inps, origin):
        for x in inps:
            k = (x.stream, x.ctx, x.annexb, x.pad, x.flags, x.data)
            if k in seen:
                continue
            seen.add(k)
            x.id = "g%d" % len(pool)
            x.src = "corpus"
            pool.append(x)
    for sd in seeds:
        take(legacy_corpus(C.Rng(sd * 0x9E3779B1 + 17), "quick", streams[:2], GEN_BUDGET["quick"]), "q%d" % sd)
    nq = len(pool)
    take(legacy_corpus(C.Rng(thorough_seed * 0x9E3779B1 + 99), "thorough", streams, GEN_BUDGET["thorough"]), "t%d" % thorough_seed)
    C.log("[gen] pool %d inputs (%d from the quick budgets)" % (len(pool), nq))
    exe = harness_exe(ASAN_FLAVOUR)
    recs, perrs = run_harness(exe, streams, pool, watchdog_ms=60000)
    fl = tree_flags()
    mres = parse_model(C.run_model("obuwalk", "\n".join(model_lines(pool, recs, cfg_string(fl, 0), True)) + "\n"))
    sym = Symbolizer(exe)
    base = os.path.basename(exe)
    offs = set()
    for x in pool:
        for rp in split_reports(recs.get(x.id, {"E": []})["E"]):
            offs.update(o for m, o in rp["frames"] if m == base)
    sym.resolve(offs)
    keep = {}          # id -> 'q' | 't'
    bykey = {}
    payload_level = []
    for i, x in enumerate(pool):
        keys = [k for k in input_keys(x, recs, sym, base)]
        m = mres.get(x.id, {"trace": ""})
        reaches = any(t[1] in (1, 3, 6) for t in parse_trace(m["trace"]))
        if not reaches and not any(k.startswith("F9b-") for k in keys) and x.kind not in ("valid", "annexb-valid"):
            continue       # stays inside the framing layer: exploration territory
        payload_level.append(x)
        for k in set(keys):
            bykey.setdefault(k, []).append(x)
        if x.kind in ("valid", "annexb-valid"):
            keep[x.id] = "q" if x.stream < 2 else "t"
        elif x.kind == "fixed":
            keep[x.id] = "q"
    for k, xs in sorted(bykey.items()):
        xs.sort(key=lambda x: (len(x.data), x.ctx, x.id))
        for j, x in enumerate(xs[:per_key]):
            tier = "q" if j < 2 and x.stream < 2 else "t"
            if keep.get(x.id) != "q":
                keep[x.id] = tier
    r = C.Rng(20260922)
    rest = [x for x in payload_level if x.id not in keep]
    rest = r.shuffle(rest)
    nq_, nt_ = 0, 0
    for x in rest:
        if x.stream < 2 and nq_ < sample_q:
            keep[x.id] = "q"
            nq_ += 1
        elif nt_ < sample_t:
            keep[x.id] = "t"
            nt_ += 1
    os.makedirs(CORPUS_DIR, exist_ok=True)
    for fn in os.listdir(CORPUS_DIR):
        if re.match(r"s\d+\.txt$", fn):
            os.unlink(os.path.join(CORPUS_DIR, fn))
    for si, (a, pk) in enumerate(streams):
        with open(os.path.join(CORPUS_DIR, "s%d.txt" % si), "w") as fh:
            fh.write("# C10 regression corpus, stream %d: real packets of a tiny real encode (%dx%d, %d-bit) and inputs that enter the payload parsers.\n"
                     "# Generated once by `python3 -m checks.c10 gen` (legacy seeds %s quick + seed %d thorough); independent of VERIF_SEED.\n"
                     "# T <q|t> <context packets> <annexb> <pad> <flags> <kind> <hex>\n" % (si, a["w"], a["h"], a["bd"], list(seeds), thorough_seed))
            fh.write("GEOM %d %d %d\n" % (a["w"], a["h"], a["bd"]))
            for p in pk:
                fh.write("PKT %s\n" % p.hex())
            for x in pool:
                if x.stream == si and x.id in keep:
                    fh.write("T %s %d %d %d %d %s %s\n" % (keep[x.id], x.ctx, x.annexb, x.pad, x.flags, x.kind, x.data.hex() or "-"))
    C.log("[gen] payload-level %d, kept %d (quick %d), keys %s" % (len(payload_level), len(keep), sum(1 for v in keep.values() if v == "q"),
                                                                   {k: len(v) for k, v in sorted(bykey.items())}))


if __name__ == "__main__":
    import sys
    if len(sys.argv) > 1 and sys.argv[1] == "gen":
        gen_corpus()
    else:
        print("usage: python3 -m checks.c10 gen     (regenerates corpus/c10 from the current tree; needs the encoder)")

