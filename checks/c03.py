"""C03 — one packet per submitted picture, in submission order, with timestamps and EOS.

(1) Lean proofs (Props/C03.lean: packetize_spec for all stream lengths / GOP shapes / window-respecting arrival orders, ...).
(2) Unit correspondence: the REAL pre-assignment-buffer code of picture_decision_kernel (release rule, delayed-intra send loop,
    is_delayed_intra; text extracted by harness/minigop_extract.py) vs the `MG` lines of `svtmodel packetize` (checks/minigop_units.py), and
    the REAL packetization tail (count_frames_in_next_tu, collect_frames_info, encode_tu, push/sort/pop of
    the undisplayed stack, EOS movement, release_frames; text extracted from EbPacketizationProcess.c) vs `svtmodel packetize`
    on generated valid GOP streams and fuzz streams (checks/pktz_units.py), and the property's oracle on the C output.
(3) End to end: REAL encodes (harness/gop_e2e.c, public API) for N x hierarchical levels x intra period x refresh type x
    look-ahead x overlays x TPL x pts sequence x polling pattern; the property's own oracle on what the API returns
    (exactly N packets, k-th packet = pts / p_app_private of the k-th submitted picture, dts = pts, EOS on the last packet only,
    nothing after it, N recon pictures one per display position, the stream decodes to N pictures in submission order) and a
    watchdog on the final blocking get_packet.  The decode-order frame list is reconstructed from the REAL bitstream with the
    Lean header parser (`svtmodel obu`), checked against `validGop` and run through `svtmodel packetize`; the model's packet
    list is compared with the real one field by field.
(4) Verdict as in c22.py / c24.py.
"""
import os

from . import common as C
from . import gope2e as G
from . import pktz_units as U
from . import minigop_units as M

LEVEL = "proof"
MODULE = "SvtVerif.Props.C03"

K_PRIV = "F14-app-private-not-returned"
K_TRUNC = "F15-pts-descend-int-truncation"
K_NONMONO = "F16-pts-not-increasing-misassigned"
K_POOL = "F17-levels5-deadlock"
K_OVL = "F18-enable-overlays-hang-or-crash"
K_RECON = "F19-recon-fifo-blocks-final-get-packet"
K_TPLIDR = "F20-lp1-tpl-idr-period-deadlock"
K_TPLCRA = "F21-tpl-cra-crash"


def minigop(L):
    return 1 << L


def base_args(chk, i, N, L, lp=1):
    if L == 5:
        lp = 4
    a = {"w": 64 if lp == 1 else 128, "h": 64, "n": N, "bd": 8, "seed": chk.seed * 100000 + i, "content": 2 if i % 3 else 4,
         "hex": 1, "decode": 1, "recon": 0, "watchdog": 90, "cfg.logical_processors": lp, "cfg.hierarchical_levels": L}
    return a


def randomise(chk, a, L):
    """Seeded choice of the remaining GOP / API parameters inside the region in which the pinned encoder is live.

    The pinned tree deadlocks on its own buffer pools (or crashes) for many otherwise valid settings; they are recorded findings and
    are probed with fixed inputs (see `probes`), not swept:
      * hierarchical_levels = 5 with logical_processors <= 2, with enable_tpl_la = 1, or with look_ahead_distance = 0 (F17);
      * enable_overlays = 1 outside levels 1..3 / without TPL (F18);
      * logical_processors = 1 with enable_tpl_la = 1 (IDR period in (minigop/2, minigop], 6 layers) (F20);
      * enable_tpl_la = 1 with CRA refresh, >= 5 layers and an intra period beyond one mini-GOP that is not aligned to it: SIGSEGV in
        tpl_get_open_loop_me (F21).
    So: one logical processor -> TPL off; TPL and overlays are exercised with 4 logical processors and at most 4 layers; 6 layers ->
    4 logical processors, TPL off, look-ahead left to the library or >= 33.  A hang or crash INSIDE this region is a violation."""
    r = chk.rng
    m = minigop(L)
    lp = a["cfg.logical_processors"]
    P = r.choice([-1, -1, 0, 1, 2, 3, 5, 7, 8, m - 1, m, m + 1, 2 * m - 1, 2 * m, 2 * m + 1, 3 * m - 1, 31, 33])
    a["cfg.intra_period_length"] = P
    a["cfg.intra_refresh_type"] = r.choice([1, 2])
    lad = r.choice([None, None, 33, 65]) if L == 5 else r.choice([None, None, 0, 1, 2, m, m + 1, 2 * m + 1, 17, 33, 120])
    if lad is not None:
        a["cfg.look_ahead_distance"] = lad
    a["cfg.enable_tpl_la"] = r.choice([0, 1]) if (lp >= 4 and L <= 3) else 0
    if 1 <= L <= 3 and lp >= 4 and r.chance(1, 2):
        a["cfg.enable_overlays"] = 1
        a["cfg.tf_level"] = r.choice([1, 1, 2])
        a["cfg.enable_tpl_la"] = 1
    a["pts_mode"] = r.choice([0, 0, 1, 1])
    a["pts_base"] = r.choice([0, 1, -5000, 10 ** 12, 123456789])
    if a["pts_mode"] == 0:
        a["pts_step"] = r.choice([1, 1, 2, 3, 1001, 3003, 90000, 1000000])
    else:
        a["pts_gap"] = r.choice([2, 50, 3000, 100000])
    # poll = 1 (no get_packet before the EOS was sent) is only legitimate while every output fits the encoder's output fifos:
    # with more pictures send_picture blocks for ever by design (the application must drain), so it is used for short streams only
    a["poll"] = r.choice([0, 0, 1, 2]) if a["n"] <= 6 else r.choice([0, 0, 2])
    if r.chance(1, 4):
        a["recon"] = 1
    return a


def probes(chk):
    """Fixed inputs of the recorded findings: (kind, args).  kind selects the known-findings key."""
    quick = chk.tier == "quick"
    cs = []
    cs.append(("pool", {"w": 128, "h": 64, "n": 40, "watchdog": 40, "hex": 0, "decode": 0, "cfg.logical_processors": 2, "cfg.hierarchical_levels": 5,
                        "cfg.enable_tpl_la": 0, "seed": 1}))
    cs.append(("reconblock", {"w": 64, "h": 64, "n": 57, "watchdog": 40, "hex": 0, "decode": 0, "recon": 1, "final_block": 1, "cfg.logical_processors": 1,
                              "cfg.hierarchical_levels": 4, "cfg.intra_period_length": 15, "cfg.intra_refresh_type": 2, "cfg.enable_tpl_la": 0, "seed": 1}))
    cs.append(("tplcra", {"w": 128, "h": 64, "n": 71, "watchdog": 40, "hex": 0, "decode": 0, "cfg.logical_processors": 4, "cfg.hierarchical_levels": 4,
                          "cfg.intra_period_length": 17, "cfg.intra_refresh_type": 1, "cfg.enable_tpl_la": 1, "seed": 1}))
    cs.append(("overlay", {"w": 64, "h": 64, "n": 3, "watchdog": 40, "hex": 0, "decode": 0, "cfg.logical_processors": 1, "cfg.hierarchical_levels": 0,
                           "cfg.enable_overlays": 1, "cfg.tf_level": 1, "seed": 1}))
    if not quick:
        cs.append(("pool", {"w": 64, "h": 64, "n": 70, "watchdog": 40, "hex": 0, "decode": 0, "cfg.logical_processors": 1, "cfg.hierarchical_levels": 5,
                            "cfg.enable_tpl_la": 1, "seed": 1}))
        cs.append(("tplcra", {"w": 128, "h": 64, "n": 98, "watchdog": 40, "hex": 0, "decode": 0, "cfg.logical_processors": 4, "cfg.hierarchical_levels": 5,
                              "cfg.intra_period_length": 32, "cfg.intra_refresh_type": 1, "cfg.look_ahead_distance": 0, "cfg.enable_tpl_la": 1, "seed": 1}))
        cs.append(("pool", {"w": 128, "h": 64, "n": 98, "watchdog": 40, "hex": 0, "decode": 0, "cfg.logical_processors": 4, "cfg.hierarchical_levels": 5,
                            "cfg.intra_period_length": -1, "cfg.look_ahead_distance": 0, "cfg.enable_tpl_la": 0, "seed": 1}))
        cs.append(("overlay", {"w": 64, "h": 64, "n": 30, "watchdog": 40, "hex": 0, "decode": 0, "cfg.logical_processors": 1, "cfg.hierarchical_levels": 4,
                               "cfg.enable_overlays": 1, "cfg.tf_level": 1, "seed": 1}))
        cs.append(("overlay", {"w": 64, "h": 64, "n": 30, "watchdog": 40, "hex": 0, "decode": 0, "cfg.logical_processors": 1, "cfg.hierarchical_levels": 1,
                               "cfg.enable_overlays": 1, "cfg.tf_level": 1, "cfg.enable_tpl_la": 0, "seed": 1}))
        cs.append(("tplidr", {"w": 64, "h": 64, "n": 40, "watchdog": 40, "hex": 0, "decode": 0, "cfg.logical_processors": 1, "cfg.hierarchical_levels": 2,
                              "cfg.intra_period_length": 3, "cfg.intra_refresh_type": 2, "cfg.enable_tpl_la": 1, "seed": 1}))
    a = base_args(chk, len(cs), 20, 3)
    a.update(pts_mode=0, pts_base=0, pts_step=1 << 30, **{"cfg.intra_period_length": -1, "cfg.enable_tpl_la": 0})
    cs.append(("trunc", a))
    a = base_args(chk, len(cs), 20, 3)
    a.update(pts_mode=3, pts_base=1000, pts_step=10, **{"cfg.intra_period_length": -1, "cfg.enable_tpl_la": 0})
    cs.append(("nonmono", a))
    if not quick:
        a = base_args(chk, len(cs), 20, 4)
        a.update(pts_mode=2, **{"cfg.intra_period_length": -1, "cfg.enable_tpl_la": 0})
        cs.append(("nonmono", a))
    return cs


def cases(chk):
    quick = chk.tier == "quick"
    r = chk.rng
    # ---- probes of the recorded findings first (their watchdog time overlaps with the sweep)
    cs = probes(chk)
    # ---- the sweep: N x levels, everything else seeded
    quota = {0: 5, 1: 8, 2: 8, 3: 8, 4: 7, 5: 5}
    for L in range(0, 6):
        m = minigop(L)
        hi = 3 * m + 2
        if quick:
            edge = [1, 2, m - 1, m, m + 1, m + 2, 2 * m, 2 * m + 1, 2 * m + 2, 3 * m, 3 * m + 1, 3 * m + 2]
            pool = sorted(set(x for x in edge if 1 <= x <= hi))
            ns = sorted(set(r.shuffle(pool)[:quota[L] - 2] + [r.range(1, hi) for _ in range(2)])) if len(pool) > quota[L] else pool
        else:
            # every N up to 3 mini-GOPs + 2, a seeded quarter of the lengths up to 130 (VERIF_C03_FULL=1: all of them)
            ns = [N for N in range(1, 131) if N <= hi or os.environ.get("VERIF_C03_FULL") or r.chance(1, 4)]
        for N in ns:
            lp = 4 if r.chance(1, 4) else 1
            cs.append(("grid", randomise(chk, base_args(chk, len(cs), N, L, lp), L)))
    # empty stream: EOS only
    for L in ((3,) if quick else (0, 3, 5)):
        a = base_args(chk, len(cs), 0, L)
        a.update(decode=0, watchdog=60, **{"cfg.enable_tpl_la": 0})
        cs.append(("empty", a))
    # default GOP settings (intra_period -2, look-ahead auto, default levels, TPL on), multi-threaded, recon on
    for N in ([40] if quick else [1, 2, 17, 33, 40, 64, 65, 100]):
        a = {"w": 128, "h": 64, "n": N, "bd": 8, "seed": chk.seed * 100000 + len(cs), "content": 4, "hex": 1, "decode": 1, "recon": 1,
             "watchdog": 90, "cfg.logical_processors": 4, "pts_mode": 1, "pts_base": -77, "pts_gap": 5000}
        cs.append(("default", a))
    # 10-bit
    a = randomise(chk, base_args(chk, len(cs), r.range(5, 20), 3), 3)
    a["bd"] = 10
    a.pop("cfg.enable_overlays", None)
    cs.append(("grid", a))
    return cs


def oracle(kind, a, r):
    """C03's statement evaluated on what the REAL API delivered.  -> list of (class, text); class in
    'hang','count','order','dts','priv','eos','extra','recon','decode','api'."""
    bad = []
    N = a["n"]
    if r["crashed"]:
        return [("api", "encoder process crashed rc=%s stderr=%s" % (r["rc"], r["stderr"][-300:]))]
    if r["hung"]:
        return [("hang", "watchdog fired (%s s) in phase %s; packets delivered so far: %d of %d" %
                 (a.get("watchdog"), r["TIMEOUT_PHASE"], len(r["PKT"]), N))]
    if r["END"] is None:
        return [("api", "harness ended without END line: %s" % r["ERR"][:3])]
    pk = r["PKT"]
    ins = r["IN"]
    if len(pk) != N:
        bad.append(("count", "%d packets for %d submitted pictures" % (len(pk), N)))
    for k in range(min(len(pk), len(ins))):
        if pk[k]["pts"] != ins[k][0]:
            src = [j for j in range(len(ins)) if ins[j][0] == pk[k]["pts"]]
            bad.append(("order", "packet %d carries pts %d (that of submitted picture %s); picture %d was submitted with pts %d" %
                        (k, pk[k]["pts"], src[0] if src else "none", k, ins[k][0])))
            break
    for k in range(len(pk)):
        if pk[k]["dts"] != pk[k]["pts"]:
            bad.append(("dts", "packet %d: dts %d != pts %d" % (k, pk[k]["dts"], pk[k]["pts"])))
            break
    for k in range(min(len(pk), len(ins))):
        if pk[k]["priv"] != ins[k][1]:
            allnull = all(p["priv"] == 0 for p in pk)
            bad.append(("priv", "packet %d: p_app_private = %d, picture %d was submitted with p_app_private = %d%s" %
                        (k, pk[k]["priv"], k, ins[k][1], " (every packet of the stream returns NULL)" if allnull else "")))
            if not allnull:
                bad.append(("order", "p_app_private of packet %d is neither NULL nor the submitted value" % k))
            break
    eos = [k for k in range(len(pk)) if pk[k]["flags"] & G.EOS]
    if N > 0 and eos != [len(pk) - 1]:
        bad.append(("eos", "EOS flag on packets %s, expected only on the last one (%d)" % (eos, len(pk) - 1)))
    if N == 0 and pk:
        bad.append(("count", "empty stream (EOS only) produced %d packets" % len(pk)))
    for e in r["ERR"]:
        if e.startswith("packet-after-eos") or e.startswith("packet-for-empty"):
            bad.append(("extra", e))
        elif e.startswith("dec_frame") or e.startswith("dec_"):
            bad.append(("decode", e))
        else:
            bad.append(("api", e))
    if a.get("recon") and N > 0:
        rp = sorted(x["pts"] for x in r["RECON"])
        if rp != list(range(N)):
            bad.append(("recon", "recon pictures delivered for display positions %s..., expected exactly 0..%d once each (%d delivered)" %
                        (rp[:8], N - 1, len(rp))))
    if a.get("decode") and N > 0 and len(pk) == N:
        d = r["DECPKT"]
        if len(d) != N or [x[2] for x in d] != list(range(N)):
            bad.append(("decode", "stream decodes to %d pictures (one expected per packet, %d packets)" % (len(d), N)))
        elif a.get("recon") and len(r["RECON"]) == N:
            rc = {x["pts"]: x["crc"] for x in r["RECON"]}
            for j, crc, _ in d:
                if rc.get(j) != crc:
                    bad.append(("decode", "decoded picture %d is not the reconstruction of submitted picture %d (display order broken)" % (j, j)))
                    break
    return bad


def model_compare(a, r, stream):
    """Real packet list vs `svtmodel packetize` on the decode-order list reconstructed from the real bitstream.
    -> (input_line, frames, list of disagreement strings (filled by caller after the model ran))"""
    frames, shows, problems = G.frames_of(stream)
    ins = r["IN"]
    line = G.packetize_line(frames, lambda d: ins[d][0] if d < len(ins) else 0, lambda d: 0)
    return line, frames, shows, problems


def run(chk, only=None):
    quick = chk.tier == "quick"
    # ---- 1. proofs
    pr = chk.proofs(MODULE, trusted_extra=[
        "Model/Packetize.lean is a hand transcription of the tail of packetization_kernel (EbPacketizationProcess.c l.302-366, 482-600, 654-683, "
        "828-840, 883-909); validated every run by harness/packetize.c (real functions, text extracted by harness/pktz_extract.py) on the same "
        "streams, and end to end: the frame list reconstructed from every real encode's bitstream is run through the model and the packet "
        "lists compared",
        "idealisation: the model sorts the undisplayed stack by the true order of pts, the code by (int)(b->pts - a->pts); equal while all pts "
        "differences among pending frames are below 2^31 (the excluded point is run on the real code: finding F15)",
        "Model/MiniGop.lean transcribes the pre-assignment buffer (EbPictureDecisionProcess.c l.4738-4816, 5570-5593, is_delayed_intra l.3739-3750); the split of a "
        "released buffer into mini-GOPs (generate_picture_window_split / handle_incomplete_picture_window_map) is a parameter constrained to cover the buffer exactly once; "
        "validated every run against the verbatim-extracted C pieces (harness/minigop_extract.py) with the one-mini-GOP split",
        "the GOP shape (show_frame / has_show_existing / is_alt_ref per frame, produced by ~2400 lines of av1_generate_rps_info) is an input of "
        "the model constrained by the decidable predicate validGop, which is evaluated on every real run",
        "the pipeline between picture decision and packetization (liveness across ~17 threads) is exercised with a watchdog, not proved",
        "harness/gop_e2e.c (real encoder + decoder through the public API), `svtmodel obu` (Lean header parser, validated by C02)"])
    # ---- 2. unit correspondence on the real packetization functions
    unit = {"ops": 0, "disagreements": [], "oracle_failures": [], "samples": [], "hist": {}, "frames": 0, "distinct_nontrivial": 0,
            "valid_rejected_by_validGop": [], "input_lines": []}
    unit_err = None
    trunc_unit = None
    mg = {"ops": 0, "disagreements": [], "oracle_failures": [], "hist": {}, "pictures": 0}
    if only is None:
        try:
            unit = U.run_packetize_unit(chk)
            trunc_unit = U.probe_pts_truncation(chk)
        except (RuntimeError, C.BuildError, OSError) as e:
            unit_err = str(e)[-1500:]
        try:
            mg = M.run_minigop_unit(chk)
        except (RuntimeError, C.BuildError, OSError, ImportError) as e:
            unit_err = (unit_err or "") + " minigop: " + str(e)[-1500:]
        except Exception as e:      # ExtractError: the anchors no longer match the source
            unit_err = (unit_err or "") + " minigop: %s: %s" % (type(e).__name__, str(e)[-1500:])
    # ---- 3. end to end
    import time
    t_unit = time.time() - chk.t0
    cs = [only] if only else cases(chk)
    G.enc_exe()
    results = C.run_parallel(lambda ka: G.run_enc(ka[1]), cs, workers=4)
    t_enc = time.time() - chk.t0
    parse_idx = [i for i, ((kind, a), r) in enumerate(zip(cs, results)) if r["HEX"] and len(r["HEX"]) == len(r["PKT"]) and not r["hung"] and not r["crashed"]]
    model_err = None
    streams = []
    try:
        if parse_idx:
            streams = G.parse_streams([results[i] for i in parse_idx])
    except (RuntimeError, C.BuildError) as e:
        model_err = str(e)[-1500:]
    stream_of = {i: streams[j] for j, i in enumerate(parse_idx) if j < len(streams)}
    lines, line_case = [], []
    recon_info = {}
    for i in parse_idx:
        if i not in stream_of:
            continue
        kind, a = cs[i]
        line, frames, shows, problems = model_compare(a, results[i], stream_of[i])
        recon_info[i] = (frames, shows, problems)
        if frames:
            lines.append(line)
            line_case.append(i)
    mout = []
    if lines and model_err is None:
        try:
            mout = C.run_model("packetize", "\n".join(lines) + "\n").strip().split("\n")
        except (RuntimeError, C.BuildError) as e:
            model_err = str(e)[-1500:]
    mline_of = {i: mout[j] for j, i in enumerate(line_case) if j < len(mout)}

    oracle_fail = []     # (kind, args, r, class, text)
    known = {K_PRIV: [], K_TRUNC: [], K_NONMONO: [], K_POOL: [], K_OVL: [], K_RECON: [], K_TPLIDR: [], K_TPLCRA: []}
    corr_fail = []       # (args, text)
    rejected = 0
    n_eval = n_pkts = n_frames = 0
    hist = {"levels": {}, "N_mod_minigop": {}, "intra_period": {}, "refresh": {}, "lad": {}, "overlays": 0, "tpl": 0, "recon": 0, "lp": {},
            "pts_mode": {}, "poll": {}, "show_existing_packets": 0, "altref_frames": 0, "multi_frame_packets": 0, "kinds": {}}
    distinct = set()
    finalwait = []
    for i, ((kind, a), r) in enumerate(zip(cs, results)):
        if r["SETPARAM"] not in (0, None) or (r["END"] or "").startswith("rejected"):
            rejected += 1
            continue
        n_eval += 1
        L = a.get("cfg.hierarchical_levels", 4)
        hist["kinds"][kind] = hist["kinds"].get(kind, 0) + 1
        hist["levels"][str(L)] = hist["levels"].get(str(L), 0) + 1
        key = "%d" % (a["n"] % minigop(L))
        hist["N_mod_minigop"][key] = hist["N_mod_minigop"].get(key, 0) + 1
        for hk, ak in (("intra_period", "cfg.intra_period_length"), ("refresh", "cfg.intra_refresh_type"), ("lad", "cfg.look_ahead_distance"),
                       ("lp", "cfg.logical_processors"), ("pts_mode", "pts_mode"), ("poll", "poll")):
            v = str(a.get(ak, "default"))
            hist[hk][v] = hist[hk].get(v, 0) + 1
        hist["overlays"] += 1 if a.get("cfg.enable_overlays") else 0
        hist["tpl"] += 1 if a.get("cfg.enable_tpl_la", 1) else 0
        hist["recon"] += 1 if a.get("recon") else 0
        n_pkts += len(r["PKT"])
        if r["FINALWAIT"] is not None:
            finalwait.append(r["FINALWAIT"])
        bad = oracle(kind, a, r)
        for cls, text in bad:
            if cls == "priv" and "every packet of the stream returns NULL" in text:
                known[K_PRIV].append((a, r, text))
            elif kind == "trunc" and cls == "order":
                known[K_TRUNC].append((a, r, text))
            elif kind == "nonmono" and cls == "order":
                known[K_NONMONO].append((a, r, text))
            elif kind == "pool" and (cls == "hang" or (cls == "api" and r["crashed"])):
                known[K_POOL].append((a, r, text))
            elif kind == "overlay" and (cls == "hang" or (cls == "api" and r["crashed"])):
                known[K_OVL].append((a, r, text))
            elif kind == "reconblock" and cls == "hang":
                known[K_RECON].append((a, r, text))
            elif kind == "tplidr" and cls == "hang":
                known[K_TPLIDR].append((a, r, text))
            elif kind == "tplcra" and cls == "api" and r["crashed"]:
                known[K_TPLCRA].append((a, r, text))
            else:
                oracle_fail.append((kind, a, r, cls, text))
        # --- correspondence with the model on the reconstructed frame list
        if i in recon_info and kind in ("grid", "default"):
            frames, shows, problems = recon_info[i]
            n_frames += len(frames)
            hist["show_existing_packets"] += sum(1 for s in shows if s["kind"] == "existing")
            hist["altref_frames"] += sum(1 for f in frames if f.alt)
            hist["multi_frame_packets"] += sum(1 for s in shows if s["ncoded"] > 1)
            distinct.add((L, a["n"], tuple((f.shown, f.hse, f.alt) for f in frames[:80])))
            for p in problems:
                corr_fail.append((a, "bitstream structure: " + p))
            ml = mline_of.get(i)
            if ml is None:
                continue
            mh, mp = U.parse_out(ml)
            if mh[0] != "0" or mh[1] != "0" or mh[2] != "0":
                corr_fail.append((a, "model run on the real frame list: clobbered=%s stuck=%s stack_left=%s" % tuple(mh[:3])))
            if mh[3] != str(a["n"]):
                corr_fail.append((a, "validGop rejects the GOP the real encoder produced (validN=%s, N=%d): %s" % (mh[3], a["n"], frames[:12])))
            real = [(p["pts"], p["dts"], 1 if p["flags"] & G.EOS else 0, 1 if p["flags"] & G.SHOW_EXT else 0, 1 if p["flags"] & G.HAS_TD else 0,
                     1 if p["flags"] & G.IS_ALT_REF else 0, p["priv"], shows[k]["ncoded"] if k < len(shows) else -1)
                    for k, p in enumerate(r["PKT"])]
            if real != mp:
                k = next((j for j in range(min(len(real), len(mp))) if real[j] != mp[j]), min(len(real), len(mp)))
                corr_fail.append((a, "packet %d (pts dts eos showExt hasTd alt priv frames): real %s model %s (real %d packets, model %d)" %
                                  (k, real[k] if k < len(real) else None, mp[k] if k < len(mp) else None, len(real), len(mp))))
            if len(chk.cov["samples"]) < 3 and len(frames) > 6:
                chk.sample({"encode": G.describe(a), "frames(decode order: disp,shown,hse,alt)[:12]": [(f.disp, int(f.shown), int(f.hse), int(f.alt)) for f in frames[:12]],
                            "real packets(pts,flags,priv)[:6]": [(p["pts"], p["flags"], p["priv"]) for p in r["PKT"][:6]], "model": ml[:160]})
    # ---- 4. coverage
    chk.cov["evaluations"] = n_eval + unit["ops"] + mg["ops"]
    chk.cov["minigop_unit_streams"] = mg["ops"]
    chk.cov["minigop_unit_pictures"] = mg["pictures"]
    chk.cov["minigop_unit_histogram"] = mg["hist"]
    if "sample" in mg:
        chk.sample(mg["sample"])
    chk.cov["e2e_encodes"] = n_eval
    chk.cov["phase_s"] = {"proofs+unit": round(t_unit, 1), "encodes": round(t_enc - t_unit, 1), "model+compare": round(time.time() - chk.t0 - t_enc, 1)}
    chk.cov["e2e_rejected_by_verify_settings"] = rejected
    chk.cov["e2e_packets"] = n_pkts
    chk.cov["e2e_frames_reconstructed"] = n_frames
    chk.cov["unit_streams"] = unit["ops"]
    chk.cov["unit_frames"] = unit["frames"]
    chk.cov["distinct_nontrivial"] = len(distinct) + unit["distinct_nontrivial"]
    chk.cov["rule"] = ("distinct_nontrivial = distinct (levels, N, show/has_show_existing/alt-ref pattern in decode order) of REAL encodes whose "
                       "packet list was checked by the C03 oracle and compared with the model, plus distinct valid GOP streams run through the "
                       "real packetization functions at unit level")
    chk.cov["e2e_histogram"] = hist
    if oracle_fail:
        chk.cov["e2e_oracle_failures"] = [(G.describe(a), cls, text[:200]) for kind, a, r, cls, text in oracle_fail[:25]]
    chk.cov["unit_histogram"] = unit["hist"]
    chk.cov["final_blocking_get_packet_ms_max"] = max(finalwait) if finalwait else None
    chk.cov["disagreements_checked"] = len(mline_of) + unit["ops"] + mg["ops"]
    for s in unit["samples"][:2]:
        chk.sample(s)
    chk.assumptions += [
        "pts strictly increasing in submission order and differences among simultaneously pending frames below 2^31 (otherwise findings F15/F16)",
        "rate_control_mode = 0 (CQP); one encoder instance; the application drains packets (poll patterns 0/1/2)",
        "the sweep stays inside the region in which the pinned encoder is live (see randomise()); the deadlock / crash families F17 (6 layers), F18 (overlays), "
        "F19 (recon + blocking final get_packet: with recon on the harness drains with non-blocking calls), F20 (1 logical processor + TPL) and F21 (TPL + CRA, >= 5 layers) are probed with fixed inputs"]

    # ---- 5. verdict
    def rt(a, r, what):
        return ("%s\nencode: %s\nreplay: bin/check C03 --replay <this file>\nsubmitted (pts, p_app_private)[:12]: %s\n"
                "delivered (pts, dts, flags, p_app_private)[:12]: %s\n" %
                (what, G.describe(a), r["IN"][:12], [(p["pts"], p["dts"], p["flags"], p["priv"]) for p in r["PKT"][:12]]))

    if known[K_PRIV]:
        a, r, text = known[K_PRIV][0]
        chk.violation(rt(a, r, "p_app_private of the submitted picture is not returned with its packet (copy_input_buffer does not copy it, "
                               "collect_frames_info overwrites it with out_meta_data = NULL)\n%s\nencodes affected in this run: %d" % (text, len(known[K_PRIV]))),
                      tag="priv", key=K_PRIV)
    if known[K_TRUNC]:
        a, r, text = known[K_TRUNC][0]
        chk.violation(rt(a, r, "pts_descend returns (int)(b->pts - a->pts): with pts differences >= 2^31 among pending frames the undisplayed "
                               "stack is mis-sorted and show-existing packets carry another picture's pts\n%s" % text), tag="trunc", key=K_TRUNC)
    if trunc_unit and trunc_unit[3]:
        chk.violation("unit level, real packetization functions: %s\ninput: %s\nC    : %s\nmodel: %s\n" %
                      (trunc_unit[3], trunc_unit[0][:400], trunc_unit[1][:400], trunc_unit[2][:400]), tag="trunc", key=K_TRUNC)
    if known[K_NONMONO]:
        a, r, text = known[K_NONMONO][0]
        chk.violation(rt(a, r, "packets of pictures shown through show_existing_frame take their pts from a stack sorted by pts: when pts is not "
                               "increasing in submission order they carry another picture's pts\n%s" % text), tag="nonmono", key=K_NONMONO)
    if known[K_POOL]:
        a, r, text = known[K_POOL][0]
        chk.violation(rt(a, r, "hierarchical_levels = 5 (6 layers): the encoder deadlocks on its own buffer pools (logical_processors <= 2, TPL on with one logical "
                               "processor, or look_ahead_distance = 0 with a long intra period): the final blocking get_packet never returns\n%s\nencodes affected in this run: %d: %s" %
                         (text, len(known[K_POOL]), [G.describe(x[0]) for x in known[K_POOL][1:4]])), tag="pool", key=K_POOL)
    if known[K_OVL]:
        a, r, text = known[K_OVL][0]
        chk.violation(rt(a, r, "enable_overlays = 1: the encoder crashes (hierarchical_levels = 0, N >= 2: SIGSEGV in picture_decision_kernel) or "
                               "deadlocks (several levels / N / TPL combinations)\n%s\nencodes affected in this run: %d: %s" %
                         (text, len(known[K_OVL]), [G.describe(x[0]) for x in known[K_OVL][1:4]])), tag="overlay", key=K_OVL)
    if known[K_TPLIDR]:
        a, r, text = known[K_TPLIDR][0]
        chk.violation(rt(a, r, "logical_processors = 1 with enable_tpl_la = 1 and an IDR period in (minigop/2, minigop]: the encoder deadlocks before the first packet\n%s" % text),
                      tag="tplidr", key=K_TPLIDR)
    if known[K_TPLCRA]:
        a, r, text = known[K_TPLCRA][0]
        chk.violation(rt(a, r, "enable_tpl_la = 1 with CRA refresh, >= 5 layers and an intra period beyond one mini-GOP that is not aligned to it: SIGSEGV in "
                               "tpl_get_open_loop_me (source_based_operations_kernel)\n%s\nprobes crashing in this run: %d" % (text[:200], len(known[K_TPLCRA]))),
                      tag="tplcra", key=K_TPLCRA)
    if known[K_RECON]:
        a, r, text = known[K_RECON][0]
        chk.violation(rt(a, r, "recon_enabled = 1: the blocking get_packet after EOS (the pattern of SvtAv1EncApp) never returns: recon_output "
                               "blocks in svt_get_empty_object on the full recon fifo, which the application can only drain after get_packet returns\n%s" % text),
                      tag="reconblock", key=K_RECON)
    if unit["oracle_failures"]:
        i, text = unit["oracle_failures"][0]
        chk.violation("C03 violated by the REAL packetization functions at unit level\n%s\ninput line (harness/packetize.c): %s\nfailing streams: %d\n" %
                      (text, unit["input_lines"][i][:3000], len(unit["oracle_failures"])), tag="unit")
    if mg["oracle_failures"]:
        line, text = mg["oracle_failures"][0]
        chk.violation("C03 (flush) violated by the REAL pre-assignment-buffer code at unit level\n%s\ninput line (generated minigop harness): %s\nfailing streams: %d\n" %
                      (text, line, len(mg["oracle_failures"])), tag="mgunit")
    if oracle_fail:
        kind, a, r, cls, text = oracle_fail[0]
        chk.violation(rt(a, r, "C03 violated by the real encoder (%s)\n%s\nall failures of this encode: %s\nfailing encodes in this run: %d" %
                         (cls, text, [t for k2, a2, r2, c2, t in oracle_fail if a2 is a][:6], len(set(id(x[1]) for x in oracle_fail)))))
    if not oracle_fail and not unit["oracle_failures"] and not mg["oracle_failures"]:
        if not pr.ok:
            chk.violation("proof obligations do not check:\n%s\nforbidden tokens: %s\nno real encode violates the property (%d encodes)\n" %
                          ("\n".join("%s: %s" % x for x in pr.failed.items()), pr.forbidden, n_eval), tag="proof", found_input=False)
        if unit_err or model_err:
            chk.violation("harness / model could not be run: %s\n" % (unit_err or model_err), tag="model", found_input=False)
        if unit["disagreements"]:
            i, cl, ml = unit["disagreements"][0]
            chk.violation("Lean model and the real packetization functions disagree (unit level); the C output satisfies the C03 oracle\n"
                          "input: %s\nC    : %s\nmodel: %s\ndisagreeing streams: %d\n" % (unit["input_lines"][i][:2000], cl, ml, len(unit["disagreements"])),
                          tag="corr", found_input=False)
        if mg["disagreements"]:
            line, cl, ml = mg["disagreements"][0]
            chk.violation("Lean MiniGop model and the real pre-assignment-buffer code disagree (unit level); the C output satisfies the flush oracle\n"
                          "input: %s\nC    : %s\nmodel: %s\ndisagreeing streams: %d\n" % (line, cl, ml, len(mg["disagreements"])), tag="corr", found_input=False)
        if unit["valid_rejected_by_validGop"]:
            chk.violation("validGop rejects generated valid streams: %s\n" % unit["valid_rejected_by_validGop"][:3], tag="corr", found_input=False)
        if corr_fail:
            a, text = corr_fail[0]
            chk.violation("model and real encoder disagree on the packet list / GOP shape; the real output satisfies the C03 oracle\nencode: %s\n%s\n"
                          "disagreements: %d\n%s\n" % (G.describe(a), text, len(corr_fail), "\n".join(t for _, t in corr_fail[:10])),
                          tag="corr", found_input=False)
        if n_eval == 0:
            chk.violation("no usable encode\n", tag="enc", found_input=False)


def replay(chk, path):
    only = None
    for line in open(path):
        if line.startswith("encode: "):
            a = G.parse_describe(line[len("encode: "):])
            kind = "grid"
            fixed = [(k, p) for k, p in probes(chk) if all(a.get(x) == v for x, v in p.items() if x.startswith("cfg.") or x in ("n", "w", "final_block"))
                     and all(x in p for x in a if x.startswith("cfg."))]
            if a.get("pts_mode") in (2, 3):
                kind = "nonmono"
            elif a.get("pts_step", 0) >= (1 << 26):
                kind = "trunc"
            elif a.get("n") == 0:
                kind = "empty"
            elif fixed:
                kind = fixed[0][0]
            only = (kind, a)
            break
    run(chk, only=only)
