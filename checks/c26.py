"""C26 — reported per-frame distortion statistics (stat_report) are exact.

(1) Lean proofs (SvtVerif.Props.C26) about the model of psnr_calculations (EbEncDecProcess.c l.967): the reported 32-bit value is
    the sum of squared differences over the visible window mod 2^32, for all sizes / origins / strides / padding contents; the
    64-bit accumulator never wraps; the source chosen is the pre-filter picture, the reconstruction the one recon_output emits.
(2) Correspondence: the REAL text of psnr_calculations (extracted by clang source range, harness/sse.c, fake control sets built
    with the real headers, AddressSanitizer on, every buffer allocated exactly as large as the visible window requires) against
    `svtmodel sse` on the same seeded inputs (random sizes incl. non multiples of 8, origins, strides, padding bytes, extreme
    contents, 8-bit and unpacked 10-bit, reference / non-reference, temporally filtered or not, 4096x2160 extremes that exceed
    2^32) and against an independent python evaluation of the specification (sum over the window of the INTENDED buffers).
(3) The property's own oracle on the REAL encoder: stat_report=1 encodes through harness/enc_e2e.c (real encoder + real decoder
    in process); for every packet the luma/cb/cr SSE fields must equal the SSE (mod 2^32) between the SUBMITTED picture of the
    packet's pts and the picture the real decoder outputs for that packet.  The SSE is computed in C by the harness and
    recomputed by the Lean model (`svtmodel sse`, SSE8 lines) from hex dumps of both pictures (all frames of small clips, a
    seeded subset of larger ones); C value == Lean value is asserted wherever both exist.
"""
import os
import re
import sys
import time
from . import common as C

sys.path.insert(0, os.path.join(C.VERIF, "xlate"))
sys.path.insert(0, os.path.join(C.VERIF, "harness"))
LEVEL = "proof"
MODULE = "SvtVerif.Props.C26"
M32 = 1 << 32
EOS, SHOW_EXT, HAS_TD, IS_ALT_REF = 1, 2, 4, 8
PIC_TYPES = {0: "INTER", 1: "ALT_REF/P", 2: "INTRA_ONLY", 3: "KEY", 4: "NON_REF", 5: "FW_KEY", 6: "SHOW_EXISTING", 7: "SWITCH"}


# ----------------------------------------------------------------------------- unit part: inputs
def hexs(vals, digits=2):
    if vals is None:
        return "-"
    if digits == 2:
        return bytes(vals).hex() if vals else "-"
    return "".join("%04x" % v for v in vals) if vals else "-"


class Plane:
    """One allocation: `data` (list of ints) with the visible window at element offset org, row pitch stride."""

    def __init__(self, data, org, stride, cw, ch):
        self.data, self.org, self.stride, self.cw, self.ch = data, org, stride, cw, ch

    def at(self, x, y):
        return self.data[self.org + y * self.stride + x]


def rand_vals(r, n, maxv):
    out = []
    while len(out) < n:
        z = r.next()
        if maxv <= 255:
            out.extend((z >> (8 * k)) & 0xff for k in range(8))
        else:
            out.extend(((z >> (16 * k)) & 0xffff) % (maxv + 1) for k in range(4))
    return out[:n]


def make_plane(r, org, stride, cw, ch, maxv, mode, like=None):
    """Allocation exactly as large as the visible window requires (+ nothing): any read outside it is an ASan error.
    mode: 'rand' | 'lo' | 'hi' (window constant, the rest random) | 'same' (window copied from `like`, rest random)."""
    n = org + (ch - 1) * stride + cw if (cw > 0 and ch > 0) else max(org, 1)
    n = max(n, 1)
    data = rand_vals(r, n, maxv)
    p = Plane(data, org, stride, cw, ch)
    if mode in ("lo", "hi", "same"):
        for y in range(ch):
            for x in range(cw):
                p.data[org + y * stride + x] = 0 if mode == "lo" else maxv if mode == "hi" else like.at(x, y)
    return p


def gen_psnr_case(r, force=None):
    """-> (line, expected (luma, cb, cr) from the specification, descr dict)"""
    force = force or {}
    is16 = force.get("is16", 1 if r.chance(3, 10) else 0)
    is_ref = r.below(2)
    tf_on = r.below(2)
    vis_w = force.get("vis_w", r.choice([r.range(1, 40), r.range(8, 72), 8 * r.range(1, 9), 2 * r.range(1, 30), 0]))
    vis_h = force.get("vis_h", r.choice([r.range(1, 24), r.range(2, 40), 8 * r.range(1, 5), 2 * r.range(1, 16), 0]))
    pad_r = r.choice([0, 0, (8 - vis_w % 8) % 8, r.range(0, 7)])
    pad_b = r.choice([0, 0, (8 - vis_h % 8) % 8, r.range(0, 7)])
    width, height = vis_w + pad_r, vis_h + pad_b
    ssx = ssy = 1
    if r.chance(1, 8):
        ssx, ssy = r.choice([(0, 0), (1, 0), (0, 1)])
    cw, ch = vis_w >> ssx, vis_h >> ssy
    even = 2 if is16 else 1
    in_ox, in_oy = r.range(0, 12), r.range(0, 9)
    rec_ox, rec_oy = even * r.range(0, 12 // even), even * r.range(0, 10 // even)
    in_sy = in_ox + width + r.choice([0, 0, 1, r.range(0, 20)])
    rec_sy = rec_ox + width + r.choice([0, 0, 3, r.range(0, 24)])
    in_scb = in_ox // 2 + (width >> ssx) + r.choice([0, 1, r.range(0, 11)])
    in_scr = in_ox // 2 + (width >> ssx) + r.choice([0, 2, r.range(0, 11)])
    rec_scb = rec_ox // 2 + (width >> ssx) + r.choice([0, 1, r.range(0, 13)])
    rec_scr = rec_ox // 2 + (width >> ssx) + r.choice([0, 5, r.range(0, 13)])
    in_sby = in_ox + width + r.choice([0, 2, r.range(0, 9)]) if is16 else 0
    in_sbcb = in_ox // 2 + (width >> ssx) + r.choice([0, 3, r.range(0, 9)]) if is16 else 0
    in_sbcr = in_ox // 2 + (width >> ssx) + r.choice([0, 1, r.range(0, 9)]) if is16 else 0
    mode = force.get("mode", r.choice(["rand", "rand", "rand", "extreme", "equal", "extreme2"]))
    # element offsets as the C code computes them
    in_org = [in_ox + in_oy * in_sy, in_ox // 2 + in_oy // 2 * in_scb, in_ox // 2 + in_oy // 2 * in_scr]
    inc_org = [in_ox + in_oy * in_sby, in_ox // 2 + in_oy // 2 * in_sbcb, in_ox // 2 + in_oy // 2 * in_sbcr]
    if is16:
        rec_org = [((rec_ox << 1) + (rec_oy << 1) * rec_sy) // 2, ((rec_ox << 1) // 2 + (rec_oy << 1) // 2 * rec_scb) // 2,
                   ((rec_ox << 1) // 2 + (rec_oy << 1) // 2 * rec_scr) // 2]
    else:
        rec_org = [rec_ox + rec_oy * rec_sy, rec_ox // 2 + rec_oy // 2 * rec_scb, rec_ox // 2 + rec_oy // 2 * rec_scr]
    in_st, inc_st, rec_st = [in_sy, in_scb, in_scr], [in_sby, in_sbcb, in_sbcr], [rec_sy, rec_scb, rec_scr]
    dims = [(vis_w, vis_h), (cw, ch), (cw, ch)]
    recmax = 1023 if is16 and not r.chance(1, 6) else (65535 if is16 else 255)
    smode = {"rand": "rand", "extreme": "hi", "extreme2": "lo", "equal": "rand"}[mode]
    rmode = {"rand": "rand", "extreme": "lo", "extreme2": "hi", "equal": "same"}[mode]
    # the picture that MUST be read (intended) and the decoys that must not
    src = [make_plane(r, in_org[p], in_st[p], dims[p][0], dims[p][1], 255, smode) for p in range(3)]
    inc = [make_plane(r, inc_org[p], inc_st[p], dims[p][0], dims[p][1], 255, smode) for p in range(3)] if is16 else [None] * 3

    def s10(p, x, y):
        return 4 * src[p].at(x, y) + inc[p].at(x, y) // 64 % 4 if is16 else src[p].at(x, y)

    class Like:
        def __init__(self, p):
            self.p = p

        def at(self, x, y):
            return s10(self.p, x, y)
    rec = [make_plane(r, rec_org[p], rec_st[p], dims[p][0], dims[p][1], recmax, rmode, like=Like(p)) for p in range(3)]
    dsrc = [make_plane(r, in_org[p], in_st[p], dims[p][0], dims[p][1], 255, "rand") for p in range(3)]
    dinc = [make_plane(r, inc_org[p], inc_st[p], dims[p][0], dims[p][1], 255, "rand") for p in range(3)] if is16 else [None] * 3
    drec = [make_plane(r, rec_org[p], rec_st[p], dims[p][0], dims[p][1], recmax, "rand") for p in range(3)]
    null_decoys = r.chance(1, 4)
    blobs = {}
    none3 = [None] * 3
    if tf_on:
        in_b, inc_b, sv_b, svi_b = dsrc, dinc, src, inc
    else:
        in_b, inc_b, sv_b, svi_b = src, inc, (none3 if null_decoys else dsrc), (none3 if null_decoys else dinc)
    if is_ref:
        ref_b, rcn_b = rec, (none3 if null_decoys else drec)
    else:
        ref_b, rcn_b = (none3 if null_decoys else drec), rec
    rd = 4 if is16 else 2

    def h(planes, digits=2):
        return [hexs(p.data if p is not None else None, digits) for p in planes]
    blob_list = h(in_b) + h(inc_b) + h(sv_b) + h(svi_b) + h(ref_b, rd) + h(rcn_b, rd)
    ints = [is16, is_ref, tf_on, width, height, pad_r, pad_b, ssx, ssy, in_ox, in_oy, in_sy, in_scb, in_scr, in_sby, in_sbcb, in_sbcr,
            rec_ox, rec_oy, rec_sy, rec_scb, rec_scr]
    line = "PSNR " + " ".join(str(v) for v in ints) + " " + " ".join(blob_list)
    exp = []
    for p in range(3):
        t = 0
        for y in range(dims[p][1]):
            for x in range(dims[p][0]):
                d = s10(p, x, y) - rec[p].at(x, y)
                t += d * d
        exp.append(t)
    descr = {"is16": is16, "is_ref": is_ref, "tf_on": tf_on, "vis": "%dx%d" % (vis_w, vis_h), "pad": (pad_r, pad_b), "ss": (ssx, ssy),
             "mode": mode, "null_decoys": null_decoys, "true_sse": exp}
    return line, tuple(t % M32 for t in exp), descr


def gen_big_cases(chk):
    """GEN lines (buffers generated on both sides from a seed; no hex). -> [(line, expected or None, descr)]"""
    r = chk.rng
    out = []

    def gen(seed, is16, is_ref, tf_on, w, h, pad_r, pad_b, fills, ox=68, oy=68, extra=8):
        width, height = w + pad_r, h + pad_b
        st = ox + width + ox + extra
        stc = ox // 2 + width // 2 + ox // 2 + extra // 2
        ints = [is16, is_ref, tf_on, width, height, pad_r, pad_b, 1, 1, ox, oy, st, stc, stc, st if is16 else 0, stc if is16 else 0,
                stc if is16 else 0, ox + 92, oy + 92, st + 184 + 24, stc + 92 + 12, stc + 92 + 12]
        line = "GEN %d " % seed + " ".join(str(v) for v in ints) + " " + " ".join(str(f) for f in fills)
        f_src = fills[1] if tf_on else fills[0]
        f_rec = fills[2] if is_ref else fills[3]
        exp = None
        if f_src in (1, 2) and f_rec in (1, 2):
            smax = 1023 if is16 else 255
            rmax = 1023 if is16 else 255
            d = (smax if f_src == 2 else 0) - (rmax if f_rec == 2 else 0)
            exp = tuple((n * d * d) % M32 for n in (w * h, (w >> 1) * (h >> 1), (w >> 1) * (h >> 1)))
        out.append((line, exp, {"gen": "%dx%d" % (w, h), "is16": is16, "fills(in,save,ref,recon)": fills, "is_ref": is_ref, "tf_on": tf_on,
                                "true_luma_sse": (w * h * d * d) if exp else None}))
    # the largest supported picture, maximal differences: true luma SSE = 4096*2160*255^2 = 575 299 584 000 > 2^32
    gen(r.next(), 0, 1, 0, 4096, 2160, 0, 0, (2, 0, 1, 0))
    gen(r.next(), 0, 0, 1, 1918, 1078, 2, 2, (0, 1, 0, 2))
    gen(r.next(), 0, r.below(2), r.below(2), 2 * r.range(100, 400), 2 * r.range(60, 300), r.range(0, 7), r.range(0, 7), (0, 0, 0, 0))
    gen(r.next(), 1, 1, 1, 1280, 720, 0, 0, (0, 2, 1, 0))          # 10-bit extremes: 1280*720*1023^2 > 2^32
    if chk.tier != "quick":
        gen(r.next(), 1, 0, 0, 4096, 2160, 0, 0, (2, 0, 0, 1))
        for _ in range(6):
            gen(r.next(), r.below(2), r.below(2), r.below(2), 2 * r.range(32, 960), 2 * r.range(32, 540), r.range(0, 7), r.range(0, 7),
                tuple(r.choice([0, 0, 1, 2]) for _ in range(4)))
    return out


def build_unit_harness():
    import sse_extract
    inc_dir = sse_extract.write_inc(C.gen_src_dir())
    return C.compile_harness("sse", [os.path.join(C.VERIF, "harness", "sse.c")], extra=["-I" + inc_dir, "-fsanitize=address", "-fno-omit-frame-pointer"])


def run_lines(exe, lines, timeout=1800):
    import subprocess
    p = subprocess.run([exe], input=("\n".join(lines) + "\n").encode(), stdout=subprocess.PIPE, stderr=subprocess.PIPE, timeout=timeout,
                       env=dict(os.environ, ASAN_OPTIONS="detect_leaks=0:abort_on_error=0"))
    return p.returncode, p.stdout.decode("utf-8", "replace").split("\n"), p.stderr.decode("utf-8", "replace")


# ----------------------------------------------------------------------------- e2e part
def e2e_cases(chk):
    """The encode matrix. Always: stat_report=1, 8-bit, film grain off, superres off, width >= 128 or logical_processors=1 (F2)."""
    r = chk.rng
    cs = [
        # preset 8, default 5-layer structure (hierarchical_levels 4): TF'd key frame + TF'd base-layer ALT-REF at pts 16, show-existing
        dict(w=128, h=64, n=20, content=4, **{"cfg.enc_mode": 8}),
        # sizes that are not multiples of 8 (max_input_pad_right/bottom > 0)
        dict(w=132, h=70, n=18, content=0, **{"cfg.enc_mode": 8, "cfg.hierarchical_levels": 3}),
        dict(w=72, h=88, n=17, content=4, **{"cfg.enc_mode": 8, "cfg.hierarchical_levels": 2, "cfg.logical_processors": 1}),
        # preset 4, 4 layers: layer-1 pictures are temporally filtered too
        dict(w=136, h=72, n=19, content=4, **{"cfg.enc_mode": 4, "cfg.hierarchical_levels": 3}),
        # temporal filtering off / explicit levels
        dict(w=128, h=96, n=18, content=0, **{"cfg.enc_mode": 8, "cfg.tf_level": 0}),
        dict(w=200, h=120, n=18, content=0, **{"cfg.enc_mode": 8, "cfg.tf_level": 1, "cfg.altref_nframes": 7, "cfg.altref_strength": 6}),
        # flat structure / low delay like: every picture a reference
        dict(w=128, h=64, n=17, content=2, **{"cfg.enc_mode": 8, "cfg.hierarchical_levels": 0}),
        dict(w=130, h=66, n=17, content=4, **{"cfg.enc_mode": 8, "cfg.hierarchical_levels": 1, "cfg.intra_period_length": 7}),
        # overlays: the ALT-REF is not shown, the overlay picture carries the pts
        dict(w=128, h=72, n=20, content=0, **{"cfg.enc_mode": 8, "cfg.enable_overlays": 1, "cfg.tf_level": 1}),
        # extreme contents
        dict(w=128, h=64, n=17, content=3, **{"cfg.enc_mode": 8, "cfg.qp": 63}),
        # caller layout: every plane with its own stride (cb_stride != cr_stride), random bytes in the stride padding
        dict(w=130, h=66, n=6, content=4, stride_extra=8, cr_extra=32, padfill=-1, **{"cfg.enc_mode": 8}),
        # recon_enabled = 0 (the library default: nobody asks for the reconstruction) ...
        dict(w=128, h=64, n=20, content=4, recon=0, **{"cfg.enc_mode": 8}),                                   # restoration off at this preset
        dict(w=136, h=72, n=17, content=4, recon=0, **{"cfg.enc_mode": 4, "cfg.hierarchical_levels": 3}),      # restoration on
        dict(w=128, h=64, n=17, content=0, recon=0, **{"cfg.enc_mode": 8, "cfg.hierarchical_levels": 0}),      # every picture a reference
    ]
    extra = 1 if chk.tier == "quick" else 36
    sizes = [(128, 64), (132, 70), (136, 72), (200, 120), (130, 98), (192, 128), (160, 90), (72, 88), (70, 86), (96, 80), (64, 64), (256, 144), (322, 182)]
    for _ in range(extra):
        w, h = r.choice(sizes)
        a = dict(w=w, h=h, n=r.range(17, 26), content=r.choice([0, 0, 2, 3, 4, 4, 5]))
        a["cfg.enc_mode"] = r.choice([8, 8, 8, 4, 5, 6, 7]) if chk.tier != "quick" else r.choice([8, 8, 6, 7])
        a["cfg.hierarchical_levels"] = r.range(0, 4)
        if w < 128:
            a["cfg.logical_processors"] = 1
        if r.chance(1, 2):
            a["cfg.tf_level"] = r.choice([-1, 0, 1, 2, 3])
            if r.chance(1, 2):
                a["cfg.altref_nframes"] = r.range(0, 10)
        if r.chance(1, 5):
            a["cfg.enable_overlays"] = 1
            a["cfg.tf_level"] = 1
            if a["cfg.hierarchical_levels"] == 0:        # overlays + flat structure segfaults in this version (side finding, C11)
                a["cfg.hierarchical_levels"] = r.range(1, 4)
        if r.chance(1, 3):
            a["cfg.intra_period_length"] = r.range(2, 20)
            a["cfg.intra_refresh_type"] = r.choice([1, 2])
        if r.chance(1, 3):
            a["cfg.qp"] = r.range(5, 63)
        if r.chance(1, 6):
            a["stride_extra"] = 2 * r.range(1, 20)
            a["padfill"] = -1
        if r.chance(1, 5):
            a["cr_extra"] = 2 * r.range(1, 24)      # cb_stride != cr_stride (the statistics are measured against the library's private copy)
            a["padfill"] = -1
        if r.chance(1, 6):
            a["pts_base"] = r.range(1, 1000)
            a["pts_step"] = r.range(1, 5)
        if r.chance(1, 3):
            a["recon"] = 0
            if r.chance(1, 3):
                a["cfg.enable_restoration_filtering"] = r.choice([0, 1])
            if r.chance(1, 4):
                a["cfg.cdef_level"] = 0
        cs.append(a)
    for i, a in enumerate(cs):
        small = a["w"] * a["h"] * a["n"] <= 128 * 72 * 20
        a.setdefault("recon", 1)
        a.update(sse=1, dumpsse=1 if small else (3 if chk.tier == "quick" else 2), decode=1, seed=chk.seed * 1000 + i, watchdog=600)
        a["cfg.stat_report"] = 1
    # the switch itself: without stat_report the fields are zero
    z = dict(w=128, h=64, n=6, content=4, sse=1, dumpsse=0, recon=0, decode=1, seed=chk.seed * 1000 + 999, watchdog=600)
    z["cfg.stat_report"] = 0
    cs.append(z)
    return cs


CDEF_TERMS = ["pcs_ptr->parent_pcs_ptr->is_used_as_reference_flag", "scs_ptr->seq_header.enable_restoration != 0",
              "scs_ptr->static_config.recon_enabled"]


def cdef_condition():
    """The condition under which cdef_kernel applies the filter to the frame (EbCdefProcess.c l.527-529), read from the current source:
    -> (sorted disjuncts or None, variant) with variant 'as-modelled' (Sse.cdefFrameApplied false ...), 'with-fix' (... true ...) or 'unknown'."""
    try:
        src = open(os.path.join(C.REPO, "Source/Lib/Encoder/Codec/EbCdefProcess.c")).read()
    except OSError:
        return None, "unknown"
    m = re.search(r"if \(((?:[^(){}]|\([^(){}]*\))*?)\)\s*\{\s*if \(scs_ptr->static_config\.is_16bit_pipeline \|\| is_16bit\)\s*"
                  r"av1_cdef_frame16bit\(0, scs_ptr, pcs_ptr\);\s*else\s*svt_av1_cdef_frame\(0, scs_ptr, pcs_ptr\);", src)
    if not m:
        return None, "unknown"
    terms = sorted(" ".join(t.split()) for t in m.group(1).split("||"))
    if terms == sorted(CDEF_TERMS):
        return terms, "as-modelled"
    if terms == sorted(CDEF_TERMS + ["scs_ptr->static_config.stat_report"]):
        return terms, "with-fix"
    return terms, "unknown"


def describe(args):
    return " ".join("%s=%s" % (k, v) for k, v in args.items())


def parse_sse(raw):
    """-> (sse_by_pkt {pkt: dict}, dumps {ndec: {plane: (w, h, srchex, dechex)}}); sse_by_pkt[pkt]["recon"] = SSE against the encoder's recon"""
    sse, dumps, rec = {}, {}, {}
    for line in raw.split("\n"):
        if line.startswith("SSEREC "):
            ws = line.split()
            if len(ws) == 8:
                rec[int(ws[2])] = (int(ws[5]), int(ws[6]), int(ws[7]))
        elif line.startswith("SSE "):
            ws = line.split()
            if len(ws) == 8:
                sse[int(ws[2])] = {"ndec": int(ws[1]), "pkt": int(ws[2]), "pts": int(ws[3]), "f": int(ws[4]),
                                   "true": (int(ws[5]), int(ws[6]), int(ws[7]))}
        elif line.startswith("SRCHEX ") or line.startswith("DECHEX "):
            ws = line.split()
            if len(ws) == 6:
                d = dumps.setdefault(int(ws[1]), {}).setdefault(int(ws[2]), {})
                d["w"], d["h"] = int(ws[3]), int(ws[4])
                d["src" if ws[0] == "SRCHEX" else "dec"] = ws[5]
    for k, v in rec.items():
        if k in sse:
            sse[k]["recon"] = v
    return sse, dumps


def run(chk, only_args=None, only_unit=None):
    # ---- 1. proofs
    pr = chk.proofs(MODULE, trusted_extra=[
        "lean/SvtVerif/Model/Sse.lean: hand transcription of the loops of psnr_calculations (8-bit and unpacked 16-bit paths), validated by (2)",
        "harness/sse.c + harness/sse_extract.py: the function's source text (clang source range) compiled against the real headers, run on fake control sets",
        "harness/enc_e2e.c: real encoder + real decoder in process; regenerates the submitted picture of a pts with the generator that produced it",
        "the SVT decoder as the reference for 'the picture decoded from the packet' (no independent AV1 decoder in the sandbox)"])
    model_ok = pr.build_ok
    t_proof = time.time()
    # ---- 2. unit correspondence: real psnr_calculations text vs svtmodel sse vs python spec
    unit_corr, unit_oracle = [], []      # (line, c, lean) / (line, c, expected, descr)
    unit_hist = {"is16": 0, "is_ref": 0, "tf_on": 0, "non_mult8": 0, "pad": 0, "null_decoys": 0, "truncating": 0, "mode": {}}
    n_unit = 0
    unit_distinct = set()
    unit_err = None
    sampled_unit = 0
    if only_args is None:
        try:
            uexe = build_unit_harness()
            if only_unit:
                cases = [(only_unit, None, {"replayed": True})]
            else:
                n = 120 if chk.tier == "quick" else 2000
                cases = [gen_psnr_case(chk.rng) for _ in range(n)]
                cases += [gen_psnr_case(chk.rng, {"is16": 0, "vis_w": 72, "vis_h": 88, "mode": "extreme"}),
                          gen_psnr_case(chk.rng, {"is16": 1, "vis_w": 70, "vis_h": 46, "mode": "extreme"})]
                cases += gen_big_cases(chk)
            lines = [c[0] for c in cases]
            rc, cout, cerr = run_lines(uexe, lines)
            if rc != 0 or len([l for l in cout if l]) != len(lines):
                unit_err = "harness/sse exited with %s after %d of %d lines: %s" % (rc, len([l for l in cout if l]), len(lines), cerr[-1500:])
            mout = None
            if model_ok:
                try:
                    mout = C.run_model("sse", "\n".join(lines) + "\n").split("\n")
                except (RuntimeError, C.BuildError) as e:
                    unit_err = (unit_err or "") + " svtmodel sse failed: %s" % str(e)[-800:]
            for i, (line, exp, descr) in enumerate(cases):
                if i >= len(cout) or not cout[i]:
                    break
                n_unit += 1
                cres = cout[i].strip()
                if mout is not None and (i >= len(mout) or mout[i].strip() != cres):
                    unit_corr.append((line, cres, mout[i].strip() if i < len(mout) else None, descr))
                if exp is not None and cres != "%d %d %d" % exp:
                    unit_oracle.append((line, cres, "%d %d %d" % exp, descr))
                for k in ("is16", "is_ref", "tf_on", "null_decoys"):
                    unit_hist[k] += 1 if descr.get(k) else 0
                if "vis" in descr:
                    vw, vh = (int(v) for v in descr["vis"].split("x"))
                    unit_hist["non_mult8"] += 1 if (vw % 8 or vh % 8) else 0
                    unit_hist["pad"] += 1 if descr["pad"] != (0, 0) else 0
                    unit_hist["mode"][descr["mode"]] = unit_hist["mode"].get(descr["mode"], 0) + 1
                    unit_hist["truncating"] += 1 if any(t >= M32 for t in descr["true_sse"]) else 0
                    if vw and vh:
                        unit_distinct.add((descr["is16"], descr["is_ref"], descr["tf_on"], descr["vis"], descr["pad"], descr["ss"], descr["mode"]))
                else:
                    unit_hist["truncating"] += 1 if (descr.get("true_luma_sse") or 0) >= M32 else 0
                    unit_distinct.add(("gen", descr.get("gen"), descr.get("is16"), descr.get("fills(in,save,ref,recon)")))
                if (descr.get("vis", "0x0") not in ("0x0",) and not sampled_unit and any(descr.get("true_sse", [0]))) or \
                        ("gen" in descr and (descr.get("true_luma_sse") or 0) >= M32 and sampled_unit < 2):
                    sampled_unit += 1
                    chk.sample({"unit": {k: v for k, v in descr.items()}, "real_psnr_calculations": cres,
                                "lean": mout[i].strip() if mout is not None and i < len(mout) else None})
        except (C.BuildError, RuntimeError, OSError) as e:
            unit_err = str(e)[-2000:]
    chk.cov["unit_cases"] = n_unit
    chk.cov["unit_histogram"] = unit_hist

    # ---- 3. e2e: the property's oracle on the real encoder's packets
    cs = [only_args] if only_args else ([] if only_unit else e2e_cases(chk))
    t_unit = time.time()
    if cs:
        C.e2e_exe()          # build once, before the workers race for it
    results = C.run_parallel(lambda a: C.run_e2e(a, timeout=900), cs, workers=2)
    oracle_fail = []     # (args, pkt index, text)
    cross_fail = []      # (args, text)        C-harness SSE vs Lean recomputation
    enc_problems = []
    lean_lines, lean_meta = [], []
    hist = {"pic_type": {}, "show_existing_packets": 0, "ref_packets": 0, "non_ref_packets": 0, "sizes": {}, "enc_mode": {},
            "hierarchical_levels": {}, "tf_level": {}, "overlay_encodes": 0, "packets_nonzero_sse": 0, "alt_ref_flag_packets": 0}
    n_pkts = n_enc_ok = 0
    e2e_distinct = set()
    for a, r in zip(cs, results):
        tag = describe(a)
        stat = int(a.get("cfg.stat_report", 1))
        sse, dumps = parse_sse(r["raw"])
        if r["crashed"] or r["hung"] or r["SETPARAM"] != 0 or not r["PKT"] or r["ERR"]:
            enc_problems.append((tag, "rc=%s setparam=%s packets=%d err=%s stderr=%s" % (r["rc"], r["SETPARAM"], len(r["PKT"]), r["ERR"][:3], r["stderr"][-300:])))
            if r["SETPARAM"] not in (0, None) and not r["crashed"] and not r["hung"]:
                continue          # configuration not accepted by this version: not a C26 matter
            if not r["PKT"]:
                continue
        n_enc_ok += 1
        if len(r["PKT"]) != a["n"]:
            oracle_fail.append((a, -1, "%d packets for %d submitted pictures" % (len(r["PKT"]), a["n"])))
        seen_pts = set()
        for p in r["PKT"]:
            n_pkts += 1
            i = p["i"]
            got = (p["luma_sse"], p["cb_sse"], p["cr_sse"])
            s = sse.get(i)
            pt = PIC_TYPES.get(p["pic_type"], str(p["pic_type"]))
            if stat:
                hist["pic_type"][pt] = hist["pic_type"].get(pt, 0) + 1
                hist["show_existing_packets"] += 1 if p["flags"] & SHOW_EXT else 0
                hist["alt_ref_flag_packets"] += 1 if p["flags"] & IS_ALT_REF else 0
                hist["non_ref_packets" if p["pic_type"] == 4 else "ref_packets"] += 1
                hist["packets_nonzero_sse"] += 1 if any(got) else 0
            if s is None:
                oracle_fail.append((a, i, "the real decoder output no picture for packet %d (pts %d): nothing to compare the statistics with" % (i, p["pts"])))
                continue
            if s["pts"] != p["pts"] or p["pts"] in seen_pts:
                oracle_fail.append((a, i, "packet %d: pts bookkeeping broken (packet pts %d, harness pts %d, duplicate=%s)" % (i, p["pts"], s["pts"], p["pts"] in seen_pts)))
                continue
            seen_pts.add(p["pts"])
            want = tuple(t % M32 for t in s["true"]) if stat else (0, 0, 0)
            if got != want:
                names = ("luma_sse", "cb_sse", "cr_sse")
                bad = [k for k in range(3) if got[k] != want[k]]
                swapped = stat and got[1] == want[2] and got[2] == want[1] and got[1] != got[2]
                oracle_fail.append((a, i, "packet %d (pts %d, submitted picture #%d, pic_type %s, flags %d%s): %s\n"
                                          "  reported luma/cb/cr = %s\n  true SSE (submitted vs decoded, mod 2^32) = %s   (full 64-bit: %s)%s" %
                                    (i, p["pts"], s["f"], pt, p["flags"], ", show-existing" if p["flags"] & SHOW_EXT else "",
                                     ", ".join(names[k] for k in bad) + (" differ" if stat else " not zero although stat_report=0"),
                                     got, want, s["true"], "  [cb and cr swapped]" if swapped else ""),
                                    {"kind": "sse", "pic_type": p["pic_type"], "flags": p["flags"],
                                     "stats_match_encoder_recon": ("recon" in s and got == tuple(t % M32 for t in s["recon"])),
                                     "cmp": dict(r["CMP"]).get(s["ndec"])}))
            if stat:
                e2e_distinct.add((a["w"], a["h"], a.get("cfg.enc_mode"), a.get("cfg.hierarchical_levels"), a.get("cfg.tf_level"),
                                  a.get("cfg.enable_overlays"), p["pic_type"], bool(p["flags"] & SHOW_EXT)))
            # Lean recomputation from the dumped planes
            d = dumps.get(s["ndec"])
            if d and stat:
                for plane in range(3):
                    q = d.get(plane)
                    if q and "src" in q and "dec" in q:
                        lean_lines.append("SSE8 %d %d 0 %d 0 %d %s %s" % (q["w"], q["h"], q["w"], q["w"], q["src"], q["dec"]))
                        lean_meta.append((a, i, plane, s["true"][plane], got[plane]))
        if stat:
            hist["sizes"]["%dx%d" % (a["w"], a["h"])] = hist["sizes"].get("%dx%d" % (a["w"], a["h"]), 0) + 1
            for k, hk in (("cfg.enc_mode", "enc_mode"), ("cfg.hierarchical_levels", "hierarchical_levels"), ("cfg.tf_level", "tf_level")):
                v = str(a.get(k, "default"))
                hist[hk][v] = hist[hk].get(v, 0) + 1
            hist["overlay_encodes"] += 1 if a.get("cfg.enable_overlays") else 0
            cmp_bad = [c for c in r["CMP"] if c[1] != "MATCH"]
            if cmp_bad:
                chk.cov.setdefault("recon_vs_decode_mismatches(C01)", []).append((tag, cmp_bad[:3]))
    n_lean = 0
    lean_err = None
    if lean_lines and model_ok:
        try:
            mo = C.run_model("sse", "\n".join(lean_lines) + "\n").split("\n")
            for k, (a, i, plane, c_true, got) in enumerate(lean_meta):
                ws = mo[k].split() if k < len(mo) else []
                if len(ws) != 2:
                    cross_fail.append((a, "packet %d plane %d: svtmodel sse printed %r" % (i, plane, mo[k] if k < len(mo) else None)))
                    continue
                n_lean += 1
                u32, u64 = int(ws[0]), int(ws[1])
                if u64 != c_true or u32 != c_true % M32:
                    cross_fail.append((a, "packet %d plane %d: SSE computed by harness/enc_e2e.c = %d, by the Lean model on the same planes = %d (u32 %d)" % (i, plane, c_true, u64, u32)))
                elif u32 != got and not any(x[0] is a and x[1] == i for x in oracle_fail):   # cannot happen when the two lines above hold
                    oracle_fail.append((a, i, "packet %d plane %d: reported %d, Lean model on (submitted, decoded) planes gives %d" % (i, plane, got, u32)))
        except (RuntimeError, C.BuildError) as e:
            lean_err = str(e)[-1500:]

    t_e2e = time.time()
    # ---- 4. coverage
    cdef_terms, cdef_variant = cdef_condition()
    chk.cov["cdef_apply_condition"] = {"disjuncts": cdef_terms, "variant": cdef_variant,
                                       "lean": {"as-modelled": "Sse.cdefFrameApplied false (sse_cdef_gap_witness applies)",
                                                "with-fix": "Sse.cdefFrameApplied true (measured_recon_is_decoded_with_fix applies)"}.get(cdef_variant)}
    chk.cov["timing_s"] = {"proofs": round(t_proof - chk.t0, 1), "unit": round(t_unit - t_proof, 1), "e2e+lean": round(t_e2e - t_unit, 1)}
    chk.cov["encodes"] = len(cs)
    chk.cov["encodes_usable"] = n_enc_ok
    if enc_problems:
        chk.cov["encodes_with_problems"] = enc_problems[:10]
    chk.cov["packets_checked"] = n_pkts
    chk.cov["planes_recomputed_by_lean"] = n_lean
    chk.cov["evaluations"] = n_unit + n_pkts
    chk.cov["distinct_nontrivial"] = len(unit_distinct) + len(e2e_distinct)
    chk.cov["rule"] = ("unit: distinct (bit depth, is_reference, temporal_filtering_on, visible size, pad, subsampling, content mode) with a non-empty "
                       "window, each run through the real psnr_calculations text, the Lean model and the python spec (%d); e2e: distinct (size, preset, "
                       "hierarchical levels, tf_level, overlays, packet pic_type, show-existing) over all packets of stat_report=1 encodes, each "
                       "packet's three fields compared with the SSE between the submitted and the really decoded picture (%d)" %
                       (len(unit_distinct), len(e2e_distinct)))
    chk.cov["e2e_histogram"] = hist
    chk.cov["disagreements_checked"] = n_unit + n_lean
    for a, r in list(zip(cs, results))[:2]:
        sse, _ = parse_sse(r["raw"])
        for p in r["PKT"][:2]:
            chk.sample({"encode": describe(a), "packet": p["i"], "pts": p["pts"], "pic_type": p["pic_type"], "flags": p["flags"],
                        "reported": (p["luma_sse"], p["cb_sse"], p["cr_sse"]), "true_sse": sse.get(p["i"], {}).get("true")})
    chk.assumptions += [
        "8-bit 4:2:0 input, film grain off, super-resolution off (the property's quantifier); 10-bit only at unit level (unpacked path)",
        "'picture decoded from the packet' = output of the SVT decoder (C01/C08 tie it to the reconstruction / to other decoders)",
        "ten_bit_format = 1 path of psnr_calculations (l.1103-1319) not modelled",
        "SSIM fields not covered"]

    # ---- 5. verdict
    # (a) the statistics describe the encoder's reconstruction correctly, but the real decoder reconstructs a different picture from the
    #     packet (encoder/decoder mismatch, property C01); seen with enable_overlays=1 only -> known finding by that signature
    c01 = [x for x in oracle_fail if len(x) > 3 and x[3]["kind"] == "sse" and x[3]["stats_match_encoder_recon"] and x[3]["cmp"]
           and x[3]["cmp"].startswith("MISMATCH")]
    if c01:
        oracle_fail = [x for x in oracle_fail if not any(x is k for k in c01)]
        ov = [x for x in c01 if int(x[0].get("cfg.enable_overlays", 0)) == 1]
        other = [x for x in c01 if int(x[0].get("cfg.enable_overlays", 0)) != 1]
        for grp, key in ((ov, "C26-overlay-recon-decode-mismatch"), (other, None)):
            if grp:
                a, i, what = grp[0][:3]
                chk.violation("C26 violated on a real encode because the picture the real decoder reconstructs from the packet is NOT the encoder's "
                              "reconstruction (encoder/decoder mismatch, C01): the packet's statistics equal the SSE between the submitted picture and the "
                              "encoder's reconstruction, and differ from the SSE between the submitted and the decoded picture\n"
                              "encode: %s\n%s\n  recon vs decode: %s\npackets with this signature in this run: %d\n"
                              "replay: bin/check C26 --replay <this file>\n" % (describe(a), what, grp[0][3]["cmp"], len(grp)),
                              tag="c01", key=key)
        chk.cov["recon_decode_mismatch_packets"] = len(c01)
    # (b) known finding C26-cdef-skipped-nonref-no-recon: identified by its specific signature, anything else is a violation
    known_cdef = []
    by_enc = {}
    for x in oracle_fail:
        by_enc.setdefault(id(x[0]), []).append(x)
    for fails in by_enc.values():
        a = fails[0][0]
        sig = all(len(x) > 3 and x[3]["kind"] == "sse" and x[3]["pic_type"] == 4 and not (x[3]["flags"] & SHOW_EXT) for x in fails)
        if sig and int(a.get("recon", 1)) == 0 and int(a.get("cfg.stat_report", 1)) == 1:
            r0 = results[[id(c) for c in cs].index(id(a))]
            a1 = dict(a, recon=1)
            r1 = C.run_e2e(a1, timeout=900)
            sse1, _ = parse_sse(r1["raw"])
            # (not required to be byte-identical: the multi-threaded encoder is not run-to-run deterministic on some of these inputs, C04)
            same_stream = [(p["pts"], p["flags"], p["pic_type"]) for p in r0["PKT"]] == [(p["pts"], p["flags"], p["pic_type"]) for p in r1["PKT"]]
            clean1 = r1["PKT"] and all(p["i"] in sse1 and (p["luma_sse"], p["cb_sse"], p["cr_sse"]) == tuple(t % M32 for t in sse1[p["i"]]["true"])
                                       for p in r1["PKT"])
            if same_stream and clean1:
                known_cdef += fails
    if known_cdef:
        oracle_fail = [x for x in oracle_fail if not any(x is k for k in known_cdef)]
        a, i, what = known_cdef[0][:3]
        chk.violation("C26 violated by the real encoder (known finding): with recon_enabled=0 and loop restoration off, CDEF is signalled but not applied to "
                      "non-reference pictures before the statistics are taken (EbCdefProcess.c l.527-529 does not test stat_report); the reported SSE is "
                      "that of the unfiltered reconstruction, not of the decoded picture\n"
                      "signature matched: recon_enabled=0, every failing packet is a NON_REF packet, the same encode with recon_enabled=1 produces the "
                      "same packet structure (pts, flags, pic_type) and correct statistics\n"
                      "encode: %s\n%s\nfailing packets with this signature in this run: %d (in %d encodes)\nreplay: bin/check C26 --replay <this file>\n" %
                      (describe(a), what, len(known_cdef), len(set(id(x[0]) for x in known_cdef))),
                      tag="cdef", key="C26-cdef-skipped-nonref-no-recon")
        chk.cov["known_cdef_gap_packets"] = len(known_cdef)
    if oracle_fail:
        a, i, what = oracle_fail[0][:3]
        chk.violation("C26 violated by the real encoder: a packet's distortion statistics are not the SSE between the submitted and the decoded picture\n"
                      "encode: %s\n%s\nfailing packets in this run: %d\n%s\nreplay: bin/check C26 --replay <this file>\n" %
                      (describe(a), what, len(oracle_fail), "\n".join("  [%s] %s" % (describe(x[0]), x[2].split("\n")[0]) for x in oracle_fail[1:12])))
    if unit_oracle:
        line, cres, exp, descr = unit_oracle[0]
        chk.violation("C26 violated by the real psnr_calculations text: result differs from the sum of squared differences over the visible window "
                      "of the intended buffers (mod 2^32)\ncase: %s\nreal: %s\nspec: %s\nfailing cases in this run: %d\n"
                      "unit: %s\nreplay: bin/check C26 --replay <this file>\n" % (descr, cres, exp, len(unit_oracle), line), tag="unit")
    if not oracle_fail and not unit_oracle:     # (a reproduced known finding does not mask broken proofs / correspondence)
        if not pr.ok:
            chk.violation("proof obligations do not check:\n%s\nforbidden tokens: %s\nno input found on which the implementation violates the property "
                          "(%d unit cases, %d packets)\n" % ("\n".join("%s: %s" % kv for kv in pr.failed.items()), pr.forbidden, n_unit, n_pkts),
                          tag="proof", found_input=False)
        if unit_corr:
            line, cres, mres, descr = unit_corr[0]
            chk.violation("Lean model of psnr_calculations and the real function text disagree (model validation failed); the real results satisfy the spec\n"
                          "case: %s\nreal: %s\nlean: %s\ndisagreements: %d\nunit: %s\n" % (descr, cres, mres, len(unit_corr), line), tag="corr", found_input=False)
        if cross_fail:
            a, what = cross_fail[0]
            chk.violation("SSE computed by harness/enc_e2e.c and by the Lean model on the same planes disagree (harness validation failed)\n"
                          "encode: %s\n%s\ndisagreements: %d\n" % (describe(a), what, len(cross_fail)), tag="cross", found_input=False)
        if cdef_variant == "unknown":
            chk.violation("the condition under which cdef_kernel applies CDEF to the frame (EbCdefProcess.c, before svt_av1_cdef_frame) is neither the "
                          "modelled one nor the one of hooks/fix-c26-cdef-stat-report.patch: %s\nSse.cdefFrameApplied must be updated\n" % cdef_terms,
                          tag="model", found_input=False)
        if unit_err or lean_err:
            chk.violation("correspondence run incomplete: %s %s\n" % (unit_err or "", lean_err or ""), tag="harness", found_input=False)
        if cs and not n_enc_ok:
            chk.violation("no usable encode: %s\n" % enc_problems[:3], tag="enc", found_input=False)


def replay(chk, path):
    """Re-run the encode (`encode: k=v ...`) or the unit case (`unit: PSNR ...`) named in the replay file."""
    args = unit = None
    for line in open(path):
        if line.startswith("encode: ") and args is None:
            args = {}
            for tok in line[len("encode: "):].split():
                k, v = tok.split("=", 1)
                args[k] = int(v) if v.lstrip("-").isdigit() else v
        elif line.startswith("unit: ") and unit is None:
            unit = line[len("unit: "):].strip()
    if args is not None:
        run(chk, only_args=args)
    elif unit is not None:
        run(chk, only_unit=unit)
    else:
        run(chk)
