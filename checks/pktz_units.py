"""Unit-level correspondence for the packetization tail (used by checks/c22.py: queue part, and checks/c03.py).

    import pktz_units as U            (from . import pktz_units as U)
    r = U.run_reorder_unit(chk)       # C22 queue part: harness/reorder.c  vs `svtmodel reorder`
    r = U.run_packetize_unit(chk)     # C03: harness/packetize.c vs `svtmodel packetize` + the property's oracle on C output
    w = U.probe_pts_truncation(chk)   # lead: pts_descend truncates an int64 difference to int

Each `run_*` returns a dict:
    ops, disagreements [(line_index, c_line, model_line)], oracle_failures [(line_index, text)], samples, hist, input_lines
Nothing here decides the verdict; the caller applies the c22.py pattern (oracle failure on the REAL code's output ->
chk.violation(text); model/C disagreement with the oracle still satisfied -> chk.violation(text, found_input=False)).
Everything random derives from chk.rng.
"""
import os
import sys

from . import common as C

sys.path.insert(0, os.path.join(C.VERIF, "harness"))
DEPTH = 2048          # PACKETIZATION_REORDER_QUEUE_MAX_DEPTH (harnesses answer `bad-depth` if /repo changes it)


def _build(name):
    import pktz_extract
    inc = pktz_extract.write_inc(os.path.join(C.CACHE, "gen_src"))      # regenerated from /repo's current text
    return C.compile_harness(name, [os.path.join(C.VERIF, "harness", name + ".c")], extra=["-I" + inc])


# ------------------------------------------------------------------------------------------------ arrival orders
def windowed_perm(rng, n, W):
    """Random arrival order of 0..n-1 in which every arrival is < head + W (head = least not yet arrived)."""
    arrived = bytearray(n + W + 2)
    h, out = 0, []
    while len(out) < n:
        hi = min(n, h + W)
        while True:
            a = h if rng.chance(1, 4) else rng.range(h, hi - 1)
            if not arrived[a]:
                break
        arrived[a] = 1
        out.append(a)
        while h < n and arrived[h]:
            h += 1
    return out


def windowed_ok(arr, D):
    """Reorder.Windowed D arr, evaluated directly from its definition (least not-yet-arrived + D)."""
    seen, h = set(), 0
    for a in arr:
        if a >= h + D:
            return False
        seen.add(a)
        while h in seen:
            h += 1
    return True


# ------------------------------------------------------------------------------------------------ C22 queue part
def run_reorder_unit(chk, n=None):
    exe = _build("reorder")
    n = n or (10000 if chk.tier == "quick" else 60000)
    lines, kinds = [], []
    for W in (1, 2, 40, 300, DEPTH - 1, DEPTH, DEPTH):
        lines.append(windowed_perm(chk.rng, n, W))
        kinds.append("windowed W=%d" % W)
    # window violated: D or more ahead of the head
    bad = list(range(n)); bad.remove(DEPTH + 5); bad.insert(5, DEPTH + 5); lines.append(bad); kinds.append("violating: D+5 at head 5")
    bad = list(range(n)); bad.remove(DEPTH); bad.insert(0, DEPTH); lines.append(bad); kinds.append("violating: D first")
    bad = list(range(n)); bad.remove(DEPTH + 5); bad.remove(5); bad = [DEPTH + 5, 5] + bad; lines.append(bad); kinds.append("violating: D+5 then 5 (clobber)")
    text = "".join("%d %s\n" % (DEPTH, " ".join(map(str, l))) for l in lines)
    rc, cout = C.sh([exe], input=text.encode())
    cl = [l for l in cout.split("\n") if l and not l.startswith("#")]
    pn_mismatch = [l[2:] for l in cout.split("\n") if l.startswith("# pn-mismatch")]
    ml = C.run_model("reorder", text).strip().split("\n")
    res = {"ops": len(lines), "entries": n, "disagreements": [], "oracle_failures": [], "samples": [], "hist": {},
           "input_lines": text.split("\n")}
    if len(cl) != len(lines):
        raise RuntimeError("reorder harness produced %d lines for %d ops: %s" % (len(cl), len(lines), cout[-500:]))
    for i, l in enumerate(lines):
        res["hist"][kinds[i].split()[0]] = res["hist"].get(kinds[i].split()[0], 0) + 1
        if i >= len(ml) or cl[i] != ml[i]:
            res["disagreements"].append((i, cl[i][:200], (ml[i] if i < len(ml) else "")[:200]))
        c = cl[i].split()
        if windowed_ok(l, DEPTH):
            # the property's own oracle on the REAL code: in order, nothing overwritten, bookkeeping consistent
            want = ["0", str(n)] + [str(k) for k in range(n)]
            if c != want:
                first = next((k for k in range(min(len(c), len(want))) if c[k] != want[k]), -1)
                res["oracle_failures"].append((i, "%s: real queue code emitted a wrong order / clobbered (first differing field %d: %s)" % (kinds[i], first, c[first:first + 4])))
            if any(m.startswith("pn-mismatch op=%d " % i) for m in pn_mismatch):
                res["oracle_failures"].append((i, "%s: entry->picture_number bookkeeping disagrees with the stored decode_order" % kinds[i]))
    res["samples"].append({"kind": kinds[2], "arrivals[:12]": lines[2][:12], "c[:14]": cl[2].split()[:14]})
    res["samples"].append({"kind": kinds[-1], "arrivals[:6]": lines[-1][:6], "c[:8]": cl[-1].split()[:8]})
    return res


# ------------------------------------------------------------------------------------------------ C03 streams
class Fr(object):
    __slots__ = ("disp", "pts", "shown", "hse", "alt", "priv", "meta")

    def __init__(self, disp, shown, alt=0):
        self.disp, self.shown, self.alt, self.hse, self.pts, self.priv, self.meta = disp, shown, alt, 0, 0, 0, 0


def gen_valid_stream(rng, target_pictures, max_level=5, alt_prob=(1, 4), pts_base=0, pts_step=1):
    """Decode-order frame list shaped like SVT's dyadic hierarchical mini-GOPs (base layer decoded first and shown
    later through a show-existing frame, or coded as alt-ref + overlay).  Returns (frames, N, max_level_used)."""
    fs = [Fr(0, 1)]
    nxt = 1

    def code(lo, hi):  # pictures lo..hi-1, `hi` already decoded
        cnt = hi - lo
        if cnt <= 0:
            return
        if cnt == 1:
            fs.append(Fr(lo, 1))
            return
        mid = lo + cnt // 2
        fs.append(Fr(mid, 0))
        code(lo, mid)
        code(mid + 1, hi)

    while nxt < target_pictures:
        L = rng.range(0, max_level)
        size = 1 << L
        if L == 0:
            fs.append(Fr(nxt, 1))
        else:
            base = nxt + size - 1
            alt = 1 if rng.chance(*alt_prob) else 0
            fs.append(Fr(base, 0, alt))
            code(nxt, base)
            if alt:
                fs.append(Fr(base, 1))   # overlay
        nxt += size
    # has_show_existing = "the next picture to display is already decoded and waiting"
    c, pend = 0, set()
    for f in fs:
        if not f.shown:
            if not f.alt:
                pend.add(f.disp)
            continue
        c = f.disp + 1
        if c in pend:
            f.hse = 1
            pend.discard(c)
            c += 1
    for f in fs:
        f.pts = pts_base + pts_step * f.disp
        f.priv = 1000 + f.disp
    return fs, nxt


def gen_fuzz_stream(rng, n):
    """Arbitrary flags (mostly NOT a valid GOP): exercises pop-on-empty, >8 pushes, EOS on hidden frames, stuck tails."""
    pts = rng.shuffle(list(range(0, 7 * n, 7)))
    fs = []
    for k in range(n):
        f = Fr(k, 1 if rng.chance(3, 5) else 0, 1 if rng.chance(1, 10) else 0)
        f.hse = 1 if rng.chance(1, 3) else 0
        f.pts = pts[k] - 3 * n
        f.priv = rng.below(5)
        f.meta = rng.below(3)
        fs.append(f)
    return fs


def stream_line(fs, arrival, term):
    parts = ["%d %d %d" % (DEPTH, term, len(arrival))]
    for d in arrival:
        f = fs[d]
        parts.append("%d %d %d %d %d %d %d %d" % (d, f.disp, f.pts, f.shown, f.hse, f.alt, f.priv, f.meta))
    return " ".join(parts)


def parse_out(line):
    w = line.split()
    head, body = w[:6], w[6:]
    pk = [tuple(int(x) for x in body[i:i + 8]) for i in range(0, len(body), 8)]
    return head, pk


def c03_oracle(fs, N, pk, head):
    """C03's own statement evaluated on an output line (pts dts eos showExt hasTd alt priv frames per packet)."""
    want = sorted(set(f.pts for f in fs))
    if head[0] != "0":
        return "a queue slot was overwritten while occupied"
    if len(pk) != N:
        return "%d packets for %d submitted pictures" % (len(pk), N)
    if [p[0] for p in pk] != want:
        k = next(i for i in range(N) if pk[i][0] != want[i])
        return "packet %d carries pts %d, submitted picture %d has pts %d" % (k, pk[k][0], k, want[k])
    if any(p[1] != p[0] for p in pk):
        return "dts != pts"
    if [p[2] for p in pk] != [0] * (N - 1) + [1]:
        return "EOS flags are %s..." % ([p[2] for p in pk][-6:],)
    if head[1] != "0" or head[2] != "0":
        return "frames left in the queue (%s) / undisplayed stack (%s) after EOS" % (head[1], head[2])
    return None


def run_packetize_unit(chk):
    exe = _build("packetize")
    quick = chk.tier == "quick"
    streams = []      # (kind, fs, arrival, term, N or None)
    sizes = [1, 2, 3, 5, 17, 33, 64, 130, 700, 2500, 4200] if quick else [1, 2, 3, 5, 17, 33, 64, 65, 130, 700, 2500, 4200, 9000, 20000]
    for n in sizes:
        for rep in range(2 if quick else 4):
            fs, N = gen_valid_stream(chk.rng, n, max_level=chk.rng.range(0, 5), pts_base=chk.rng.range(-50, 10 ** 6),
                                     pts_step=chk.rng.choice([1, 1, 3, 1001, 90000]))
            W = chk.rng.choice([1, 3, 40, 300, DEPTH - 8])
            arrival = windowed_perm(chk.rng, len(fs), W)
            streams.append(("valid W=%d" % W, fs, arrival, len(fs) - 1, N))
    for rep in range(20 if quick else 200):
        n = chk.rng.range(1, 60)
        fs = gen_fuzz_stream(chk.rng, n)
        arrival = windowed_perm(chk.rng, n, chk.rng.choice([1, 4, 30]))
        streams.append(("fuzz", fs, arrival, chk.rng.range(-1, n - 1), None))
    # the two excluded points of validGop stated as theorems in Props/C03.lean, on the real functions
    f = Fr(0, 1); f.hse = 1
    streams.append(("excluded: terminating frame has show-existing, stack empty (EOS lost)", [f], [0], 0, None))
    fs = [Fr(k + 1, 0) for k in range(9)] + [Fr(0, 1)]
    fs[9].hse = 1
    for g in fs:
        g.pts = g.disp
    streams.append(("excluded: 9 pending frames (one dropped)", fs, list(range(10)), -1, None))
    text = "".join(stream_line(fs, arr, term) + "\n" for (_, fs, arr, term, _) in streams)
    rc, cout = C.sh([exe], input=text.encode())
    cl = cout.strip().split("\n")
    ml = C.run_model("packetize", text).strip().split("\n")
    if len(cl) != len(streams) or len(ml) != len(streams):
        raise RuntimeError("packetize harness/model line count %d/%d for %d streams: %s" % (len(cl), len(ml), len(streams), cout[-500:]))
    res = {"ops": len(streams), "disagreements": [], "oracle_failures": [], "samples": [], "hist": {}, "frames": 0,
           "input_lines": text.split("\n"), "valid_rejected_by_validGop": []}
    distinct = set()
    for i, (kind, fs, arr, term, N) in enumerate(streams):
        ch, cp = parse_out(cl[i])
        mh, mp = parse_out(ml[i])
        res["frames"] += len(fs)
        k0 = kind.split()[0]
        res["hist"][k0] = res["hist"].get(k0, 0) + 1
        if ch[:3] + ch[5:] != mh[:3] + mh[5:] or cp != mp:
            res["disagreements"].append((i, cl[i][:300], ml[i][:300]))
        if N is not None:
            distinct.add((len(fs), tuple((f.shown, f.hse, f.alt) for f in fs[:64])))
            if mh[3] != str(N):
                res["valid_rejected_by_validGop"].append((i, mh[3], N))
            bad = c03_oracle(fs, N, cp, ch)
            if bad:
                res["oracle_failures"].append((i, "%s, %d frames / %d pictures: real packetization code: %s" % (kind, len(fs), N, bad)))
    res["distinct_nontrivial"] = len(distinct)
    i = next(j for j, s in enumerate(streams) if len(s[1]) > 20)
    res["samples"].append({"kind": streams[i][0], "frames(disp,shown,hse,alt)[:10]": [(f.disp, f.shown, f.hse, f.alt) for f in streams[i][1][:10]],
                           "arrival[:10]": streams[i][2][:10], "c packets(pts,dts,eos,showExt,hasTd,alt,priv,frames)[:4]": parse_out(cl[i])[1][:4]})
    res["samples"].append({"kind": streams[-1][0], "c line": cl[-1][:200]})
    res["samples"].append({"kind": streams[-2][0], "c line": cl[-2][:200]})
    return res


def probe_pts_truncation(chk, step=1 << 30, level=3):
    """`pts_descend` (EbPacketizationProcess.c:331-337) returns (int)(b->pts - a->pts).  One 2^level mini-GOP with pts = k*step:
    the pending frames' pts differ by >= 2^31, the real qsort mis-orders the undisplayed stack and show-existing packets carry
    the wrong pts.  Returns (input_line, c_line, model_line, oracle_text or None)."""
    exe = _build("packetize")

    class R(object):   # deterministic shape: key frame + one full mini-GOP
        def __init__(self): self.k = 0
        def range(self, a, b): return level
        def chance(self, a, b): return False
    fs, N = gen_valid_stream(R(), 1 + (1 << level), max_level=level, pts_base=0, pts_step=step)
    line = stream_line(fs, list(range(len(fs))), len(fs) - 1)
    rc, cout = C.sh([exe], input=(line + "\n").encode())
    mout = C.run_model("packetize", line + "\n")
    ch, cp = parse_out(cout.strip())
    return line, cout.strip(), mout.strip(), c03_oracle(fs, N, cp, ch)
