"""C07 part B — op-line generator for `svtmodel simdb` / harness/simd_ops_b.c (protocol: see the header of either file).

gen_ops(rng, tier) -> list of op lines.  Every kernel case is emitted for both variants (`c` and `avx2`) on the same
buffers, consecutively, so the check can compare Lean-c == real-c, Lean-avx2 == real-avx2 and real-c vs real-avx2.
"""
import struct

M32 = 0xFFFFFFFF

# boundary dword values (as unsigned 32-bit)
BD = [0, 1, 2, 0xFFFFFFFF, 0xFFFFFFFE, 0x7FFFFFFF, 0x80000000, 0x80000001, 0x7FFFFFFE,
      0x0000FFFF, 0x00010000, 0xFFFF0000, 0x00008000, 0xFFFF8000, 0x0000B504, 0x0000B505, 0xFFFF4AFC,
      0x000080E8, 0x55555555, 0xAAAAAAAA]


def hx_dwords(ds):
    return b"".join(struct.pack("<I", d & M32) for d in ds).hex()


def hx_i32(vals):
    return b"".join(struct.pack("<i", v) for v in vals).hex()


def rand_dword(rng):
    k = rng.below(6)
    if k == 0:
        return rng.choice(BD)
    if k == 1:
        return rng.below(1 << 32)
    if k == 2:
        return rng.below(1 << 16)
    if k == 3:
        return (-rng.below(1 << 16)) & M32
    if k == 4:
        return (1 << rng.below(32)) & M32
    return ((1 << rng.below(32)) - 1 + rng.below(3) - 1) & M32


def reg_dwords(rng, n):
    return [rand_dword(rng) for _ in range(n)]


BIN256 = ["mul_epi32", "add_epi64", "sub_epi64", "add_epi32"]
BIN128 = ["add_epi64_128", "unpacklo_epi64"]


def intrinsic_boundary_ops():
    """all lanes equal, every ordered pair of boundary values in (low dword, high dword) of each qword"""
    ops = []
    for a in BD:
        for b in BD:
            ra = hx_dwords([a, b] * 4)
            rb = hx_dwords([b, a] * 4)
            rc = hx_dwords([b, b] * 4)
            for nm in BIN256:
                ops.append(f"I {nm} {ra} {rb}")
                ops.append(f"I {nm} {ra} {rc}")
            ops.append(f"I add_epi64_128 {hx_dwords([a, b] * 2)} {hx_dwords([b, a] * 2)}")
        ops.append(f"I cvtepi32_epi64 {hx_dwords([a] * 4)}")
    return ops


def intrinsic_random_op(rng):
    k = rng.below(12)
    if k < 5:
        nm = rng.choice(BIN256)
        return f"I {nm} {hx_dwords(reg_dwords(rng, 8))} {hx_dwords(reg_dwords(rng, 8))}"
    if k == 5:
        nm = rng.choice(BIN128)
        return f"I {nm} {hx_dwords(reg_dwords(rng, 4))} {hx_dwords(reg_dwords(rng, 4))}"
    if k == 6:
        return f"I cvtepi32_epi64 {hx_dwords(reg_dwords(rng, 4))}"
    if k == 7:
        return f"I castsi256_si128 {hx_dwords(reg_dwords(rng, 8))}"
    if k == 8:
        return f"I extracti128_si256 {rng.below(2)} {hx_dwords(reg_dwords(rng, 8))}"
    if k == 9:
        imm = 0x4E if rng.chance(1, 4) else rng.below(256)
        return f"I shuffle_epi32 {imm} {hx_dwords(reg_dwords(rng, 4))}"
    if k == 10:
        n = rng.range(4, 12)
        return f"I loadu_si128 {rng.below(n - 3)} {hx_dwords(reg_dwords(rng, n))}"
    return f"I storeu_si128 {hx_dwords(reg_dwords(rng, 4))}"


# ---------------------------------------------------------------- kernels

SIZES_SQ = [(4, 4), (8, 8), (16, 16), (32, 32)]
SIZES_RECT = [(4, 8), (8, 4), (4, 16), (16, 4), (8, 16), (16, 8), (8, 32), (32, 8), (16, 32), (32, 16),
              (64, 16), (16, 64), (64, 32), (32, 64), (64, 64), (4, 1), (4, 2), (8, 1), (12, 3), (20, 5)]


def sgn(rng, v):
    return -v if rng.chance(1, 2) else v


def coeff_pattern(rng, w, h, kind):
    """returns list of w*h int32 coefficients (raster) for the named distribution"""
    n = w * h
    if kind == "zeros":
        return [0] * n
    if kind == "small":
        return [sgn(rng, rng.below(1 << 12)) for _ in range(n)]
    if kind == "transform":
        # few large low-frequency coefficients + many small ones, magnitude decaying with frequency
        peak = 1 << rng.range(8, 17)
        out = []
        for j in range(h):
            for i in range(w):
                f = i + j
                m = peak >> min(f, 20)
                out.append(sgn(rng, rng.below(m + 1) + (rng.below(8) if rng.chance(1, 3) else 0)))
        return out
    if kind == "large":
        lo = 1 << rng.range(15, 17)
        return [sgn(rng, rng.range(lo, 2 * lo)) for _ in range(n)]
    if kind == "const":
        v = sgn(rng, rng.choice([32767, 32768, 33000, 46340, 46341, 65535, 65536, 4095, 4096, 8191, 8192, 16383, 16384,
                                 5792, 5793, 11585, 11586, 23170, 23171]))
        return [v] * n
    if kind == "onelane":
        v = sgn(rng, rng.choice([32768, 46341, 65536, 100000, 1 << 20]))
        lane = rng.below(4)
        return [v if (i % 4) == lane else sgn(rng, rng.below(64)) for j in range(h) for i in range(w)]
    if kind == "extreme":
        return [rng.choice([-(1 << 31), (1 << 31) - 1, -1, 0, 1, 1 << 30, -(1 << 30), rng.below(1 << 32) - (1 << 31)])
                for _ in range(n)]
    raise ValueError(kind)


KINDS = ["zeros", "small", "transform", "large", "const", "onelane", "extreme"]


def recon_pattern(rng, coeff, kind):
    if kind == "zero":
        return [0] * len(coeff)
    if kind == "same":
        return list(coeff)
    if kind == "quant":
        q = rng.choice([4, 16, 64, 256, 1336, 1828, 5347, 7312, 21387, 29247])
        mode = rng.below(3)
        out = []
        for c in coeff:
            if mode == 0:      # c ± q
                r = c + sgn(rng, q)
            elif mode == 1:    # dead-zone quantiser: round towards zero to a multiple of q
                r = (abs(c) // q) * q
                r = -r if c < 0 else r
            else:              # round to nearest multiple
                r = ((abs(c) + q // 2) // q) * q
                r = -r if c < 0 else r
            out.append(max(-(1 << 31), min((1 << 31) - 1, r)))
        return out
    if kind == "rand":
        return [max(-(1 << 31), min((1 << 31) - 1, c + sgn(rng, rng.below(1 << rng.range(1, 18))))) for c in coeff]
    if kind == "extreme":
        return [rng.choice([-(1 << 31), (1 << 31) - 1, -1, 0, 1, rng.below(1 << 32) - (1 << 31)]) for _ in coeff]
    raise ValueError(kind)


RKINDS = ["zero", "same", "quant", "rand", "extreme"]


def strided(rng, vals, w, h, stride):
    """lay a w*h raster out with the given stride; padding elements are random garbage (must be ignored by the kernels)"""
    out = []
    for j in range(h):
        out.extend(vals[j * w:(j + 1) * w])
        if j != h - 1:
            out.extend(rng.below(1 << 32) - (1 << 31) for _ in range(stride - w))
    return out


def kernel_case(rng, w, h, ckind, rkind, big_stride):
    coeff = coeff_pattern(rng, w, h, ckind)
    recon = recon_pattern(rng, coeff, rkind)
    cs = w + (4 * rng.range(1, 4) if big_stride else 0)
    rs = w + (rng.range(1, 9) if big_stride and rng.chance(1, 2) else 0)
    cb = hx_i32(strided(rng, coeff, w, h, cs))
    rb = hx_i32(strided(rng, recon, w, h, rs))
    ops = [f"K fd32 c {w} {h} {cs} {rs} {cb} {rb}", f"K fd32 avx2 {w} {h} {cs} {rs} {cb} {rb}"]
    if rng.chance(1, 2):
        ops += [f"K fdz32 c {w} {h} {cs} {cb}", f"K fdz32 avx2 {w} {h} {cs} {cb}"]
    return ops


def fixed_kernel_ops():
    """the confirmed divergence (4x4, coeff 33000, recon 0) and the minimal one (4x2, one lane 46341)"""
    ops = []
    c = hx_i32([33000] * 16)
    r = hx_i32([0] * 16)
    ops += [f"K fd32 c 4 4 4 4 {c} {r}", f"K fd32 avx2 4 4 4 4 {c} {r}"]
    c = hx_i32([46341, 0, 0, 0, 46341, 0, 0, 0])
    r = hx_i32([0] * 8)
    ops += [f"K fd32 c 4 2 4 4 {c} {r}", f"K fd32 avx2 4 2 4 4 {c} {r}"]
    c = hx_i32([0x7FFFFFFF, 0, 0, 0])
    r = hx_i32([-2, 0, 0, 0])
    ops += [f"K fd32 c 4 1 4 4 {c} {r}", f"K fd32 avx2 4 1 4 4 {c} {r}"]
    return ops


def gen_ops(rng, tier):
    thorough = tier == "thorough"
    ops = []
    ops += intrinsic_boundary_ops()                     # 20*20*9 + 20 = 3620 ... trimmed for quick below
    if not thorough:
        # quick: keep every 4th boundary op (deterministic), ~900
        ops = ops[::4]
    n_rand_i = 30000 if thorough else 800
    for _ in range(n_rand_i):
        ops.append(intrinsic_random_op(rng))
    ops += fixed_kernel_ops()
    # systematic kernel grid: every size x coefficient kind x recon kind
    sizes = SIZES_SQ + SIZES_RECT
    reps = 6 if thorough else 1
    for _ in range(reps):
        for (w, h) in sizes:
            if not thorough and w * h > 1024:
                continue
            for ck in KINDS:
                for rk in RKINDS:
                    if not thorough and w * h >= 512 and not rng.chance(1, 3):
                        continue
                    ops += kernel_case(rng, w, h, ck, rk, rng.chance(1, 3))
    # random extra cases, biased to small blocks
    n_rand_k = 2500 if thorough else 150
    for _ in range(n_rand_k):
        w, h = rng.choice(SIZES_SQ[:3] + SIZES_RECT[:6] + SIZES_RECT[-5:])
        ops += kernel_case(rng, w, h, rng.choice(KINDS), rng.choice(RKINDS), rng.chance(1, 3))
    return ops


if __name__ == "__main__":
    import os
    import sys
    sys.path.insert(0, os.path.dirname(os.path.abspath(__file__)))
    try:
        from common import Rng
    except Exception:  # standalone use outside /verif
        sys.path.insert(0, "/verif/checks")
        from common import Rng
    tier = sys.argv[1] if len(sys.argv) > 1 else "quick"
    seed = int(sys.argv[2]) if len(sys.argv) > 2 else 1
    for l in gen_ops(Rng(seed), tier):
        print(l)
