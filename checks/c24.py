"""C24 — wavefront EncDec segments: init arrays, SB loop, assign protocol (proof + correspondence)."""
import hashlib
import os
import re
import subprocess
import sys
from concurrent.futures import ThreadPoolExecutor
from . import common as C

sys.path.insert(0, os.path.join(C.VERIF, "xlate"))
LEVEL = "proof"
MODULE = "SvtVerif.Props.C24"
PROC_C = "Source/Lib/Encoder/Codec/EbEncDecProcess.c"
# Regression grids for the repaired defect F2 (fix: "enc_dec_segments_init ... one superblock wide"): a picture / tile group one SB
# wide with >= 2 effective segment rows never completed.  (W, H, C, R, MC, MR); the first is the 64x256 picture (64x64 SBs) that hung
# the real encoder with default threads.  They are ordinary cases of the oracle now: if one of them (or any other grid) reaches
# quiescence with unfinished segments the check reports a VIOLATION with that grid as the replay.
W1_REGRESSION = [(1, 4, 1, 4, 1, 4), (1, 2, 1, 2, 1, 2), (1, 17, 1, 17, 1, 17), (1, 34, 6, 37, 6, 37), (1, 9, 3, 5, 4, 5)]
MAXC, MAXR = 60, 37          # ENCDEC_SEGMENTS_MAX_COL_COUNT / ENCDEC_SEGMENTS_MAX_ROW_COUNT (EbEncDecSegments.h)


def norm_ws(s):
    return re.sub(r"\s+", " ", s).strip()


def loop_fragments():
    """The SB-loop fragments transcribed in harness/seginit.c (between SBLOOP-x-BEGIN/END markers)."""
    src = open(os.path.join(C.VERIF, "harness", "seginit.c")).read()
    return [(m.group(1), norm_ws(m.group(2))) for m in
            re.finditer(r"/\*SBLOOP-(\w)-BEGIN\*/(.*?)/\*SBLOOP-\1-END\*/", src, re.S)]


def fragments_missing():
    real = norm_ws(open(os.path.join(C.REPO, PROC_C)).read())
    frags = loop_fragments()
    miss = [k for k, f in frags if f not in real]
    if len(frags) != 3:
        miss.append("markers(%d)" % len(frags))
    # the three fragments must also occur in order, inside mode_decision_kernel
    pos = [real.find(f) for _, f in frags]
    if not miss and not (real.find("void *mode_decision_kernel") < pos[0] < pos[1] < pos[2]):
        miss.append("order")
    return miss


def header_maxima():
    h = open(os.path.join(C.REPO, "Source/Lib/Encoder/Codec/EbEncDecSegments.h")).read()
    mc = re.search(r"#define\s+ENCDEC_SEGMENTS_MAX_COL_COUNT\s+(\d+)", h)
    mr = re.search(r"#define\s+ENCDEC_SEGMENTS_MAX_ROW_COUNT\s+(\d+)", h)
    return (int(mc.group(1)) if mc else MAXC, int(mr.group(1)) if mr else MAXR)


def build_harness():
    import extract
    text = extract.function_text(PROC_C, "assign_enc_dec_segments")
    gdir = os.path.join(C.CACHE, "gen_src", "c24")
    os.makedirs(gdir, exist_ok=True)
    hp = os.path.join(gdir, "c24_assign_extracted.h")
    if not os.path.exists(hp) or open(hp).read() != text + "\n":
        open(hp, "w").write(text + "\n")
    sha = hashlib.sha256(text.encode()).hexdigest()[:12]
    srcs = [os.path.join(C.VERIF, "harness", "seginit.c"),
            os.path.join(C.REPO, "Source/Lib/Encoder/Codec/EbEncDecSegments.c"),
            os.path.join(C.REPO, "Source/Lib/Common/Codec/EbThreads.c"),
            os.path.join(C.REPO, "Source/Lib/Common/Codec/EbMalloc.c"),
            os.path.join(C.REPO, "Source/Lib/Common/Codec/EbLog.c")]
    return C.compile_harness("c24_seginit", srcs, extra=["-I" + gdir, "-DASSIGN_SHA=\"%s\"" % sha])


def out_count(line):
    """number of output lines one op line produces (harness: init -> init+oracle, sched -> ops+run+oracle; model: 1)"""
    return 1


def harness_out_count(line):
    return 3 if line.startswith("sched") else 2


def par_run(cmd, lines, nproc, count=out_count, block=32):
    """Run `cmd` over `lines` on `nproc` processes (blocks of ops dealt round-robin so that the large grids are
    spread evenly); returns the output lines in the order of `lines`."""
    if not lines:
        return []
    nproc = max(1, min(nproc, len(lines) // 200 + 1))
    chunks = [[] for _ in range(nproc)]
    for b in range(0, len(lines), block):
        chunks[(b // block) % nproc].extend(lines[b:b + block])

    def one(ch):
        if not ch:
            return []
        p = subprocess.run(cmd, input="".join(ch).encode(), stdout=subprocess.PIPE, stderr=subprocess.PIPE, timeout=7200)
        if p.returncode != 0:
            raise RuntimeError("%s failed rc=%d: %s" % (cmd[0], p.returncode, p.stderr.decode()[-1500:]))
        return [l for l in p.stdout.decode().split("\n") if l]
    with ThreadPoolExecutor(max_workers=nproc) as ex:
        outs = list(ex.map(one, chunks))
    for ch, o in zip(chunks, outs):
        if sum(count(l) for l in ch) != len(o):
            raise RuntimeError("%s: unexpected number of output lines (%d for %d ops)" % (cmd[0], len(o), len(ch)))
    pos = [0] * nproc
    res = []
    for b in range(0, len(lines), block):
        k = (b // block) % nproc
        n = sum(count(l) for l in lines[b:b + block])
        res.extend(outs[k][pos[k]:pos[k] + n])
        pos[k] += n
    return res


def kv(fields):
    return dict(x.split("=", 1) for x in fields if "=" in x)


def gen_ops(chk):
    """Seeded op list. Each grid is (W,H,C,R,MC,MR); MC >= C always (ctor allocates for its col count)."""
    rng = chk.rng
    mc_hdr, mr_hdr = header_maxima()
    grids = list(W1_REGRESSION)
    if chk.tier == "quick":
        for W in range(1, 66):
            for H in range(1, 35):
                cr = [(W, H), (max(1, W // 2), max(1, H // 2)), (1, 1)]
                cr.append((rng.range(1, mc_hdr), rng.range(1, mr_hdr)))
                cr.append((rng.range(1, W + 1), rng.range(1, H + 1)))
                if rng.chance(1, 2):
                    cr.append((rng.choice([1, 2, W, mc_hdr]), rng.choice([2, H, H + 1, mr_hdr])))
                for (c, r) in cr:
                    mc, mr = c, r
                    m = rng.below(8)
                    if m == 0:
                        mr = rng.range(1, r)           # ctor had fewer rows than requested: third clamp
                    elif m == 1:
                        mc, mr = c + rng.below(4), r + rng.below(4)
                    grids.append((W, H, c, r, mc, mr))
        nsched_every = 1
    else:
        # every (C,R) up to the header maxima (+1 past the clamp) for a seeded third of the (W,H) plane;
        # VERIF_SEED rotates which third, so seeds 1,2,3 together cover all W<=65, H<=34 exhaustively
        # (VERIF_C24_FULL=1: the whole plane in one run, about 15 min)
        phase = chk.seed % 3
        for W in range(1, 66):
            for H in range(1, 35):
                if (W + H) % 3 != phase and W > 2 and not os.environ.get("VERIF_C24_FULL"):
                    continue
                for c in range(1, min(W, mc_hdr) + 2):
                    for r in range(1, min(H, mr_hdr) + 2):
                        grids.append((W, H, c, r, c, r))
        # larger grids (up to 16384x8704 in 64x64 SBs = 256x136) and the ctor-smaller-than-request clamp
        for _ in range(3000):
            W, H = rng.range(1, 255), rng.range(1, 136)
            c, r = rng.range(1, mc_hdr), rng.range(1, mr_hdr)
            mr = r if rng.chance(3, 4) else rng.range(1, r)
            grids.append((W, H, c, r, c + rng.below(3), mr))
        for W in (1, 2, 3):
            for H in range(1, 137):
                grids.append((W, H, rng.range(1, 4), rng.range(1, mr_hdr), 4, mr_hdr))
        nsched_every = 6
    ops = []
    for i, g in enumerate(grids):
        ops.append("init %d %d %d %d %d %d 0\n" % g)
        if i % nsched_every == 0 or g[0] <= 2:
            n = rng.choice([1, 1, 2, 2, 3, 4, 5, 8, 16, 33])
            ops.append("sched %d %d %d %d %d %d %d %d %d 0\n" % (g + (n, rng.next() & 0xFFFFFFFF, rng.below(7))))
            if i < len(W1_REGRESSION):
                # the regression grids additionally under every scheduler mode with 1 and with many workers
                for mode in range(7):
                    for n in (1, 4):
                        ops.append("sched %d %d %d %d %d %d %d %d %d 0\n" % (g + (n, rng.next() & 0xFFFFFFFF, mode)))
    return ops


def evaluate(chk, ops, model_ok=True):
    """Run harness (+ model) on ops; returns dict of results. Oracle verdicts come from the harness's
    `oracle` lines, which are computed from the REAL code's outputs only."""
    import gc
    gc.disable()     # millions of short strings: the cyclic collector only costs time here
    exe = build_harness()
    nproc = max(2, min(8, C.NCPU // 2))
    hout = par_run([exe], ops, nproc, harness_out_count)
    # split harness output
    canon, oracle_init, oracle_sched, model_in = [], [], [], []
    it = iter(hout)
    for l in hout:
        if l.startswith("oracle init"):
            oracle_init.append(l)
        elif l.startswith("oracle sched"):
            oracle_sched.append(l)
        elif l.startswith("ops "):
            head, rest = l.split(" :", 1)
            model_in.append("replay %s 0 :%s\n" % (" ".join(head.split()[1:7]), rest))
        elif l.startswith("init "):
            canon.append(l)
            model_in.append("init %s 0\n" % " ".join(l.split()[1:7]))
            model_in.append("wf %s\n" % " ".join(l.split()[1:7]))
        elif l.startswith("run "):
            canon.append(l)
        else:
            raise RuntimeError("unexpected harness line: %r" % l[:200])
    res = {"hout": hout, "canon": canon, "oracle_init": oracle_init, "oracle_sched": oracle_sched,
           "disagree": [], "wf_bad": [], "model_lines": 0}
    if model_ok:
        mexe = C.ensure_driver()
        mout = par_run([mexe, "seg"], model_in, nproc)
        wf = [l for l in mout if l.startswith("wf ")]
        mcanon = [l for l in mout if not l.startswith("wf ")]
        res["model_lines"] = len(mcanon)
        if len(mcanon) != len(canon):
            res["disagree"].append(("<line count>", str(len(canon)), str(len(mcanon))))
        for a, b in zip(canon, mcanon):
            if a != b:
                res["disagree"].append((" ".join(a.split()[:7]), a, b))
        for l in wf:
            f = l.split()
            d = kv(f[8:])
            if d["safe"] != "true" or d["live"] != "true":
                res["wf_bad"].append(l)
    return res


INIT_ZERO = ["uncovered", "multi", "wrongseg", "outside", "raster_bad", "runaway", "holes", "strays"]


def run(chk, ops=None):
    # 1. proofs
    pr = chk.proofs(MODULE, trusted_extra=[
        "Model/Segments.lean is a hand transcription of enc_dec_segments_init, the SB loop header and assign_enc_dec_segments "
        "(C integer widths explicit); validated every run by harness/seginit.c, which runs the real EbEncDecSegments.c and the "
        "extracted text of assign_enc_dec_segments under a seeded coroutine scheduler and must print byte-identical lines",
        "atomicity: each mutex-protected block of assign_enc_dec_segments is one step; pthread mutexes assumed to give mutual exclusion; "
        "svt_get_empty_object on the feedback fifo assumed not to block",
        "workers are anonymous in the model (a CONTINUE call is keyed by the segment it finishes); any number of workers"])
    # 2. source-text ties
    missing = fragments_missing()
    # 3. correspondence + oracle on the real code
    if ops is None:
        ops = gen_ops(chk)
    res = evaluate(chk, ops, model_ok=pr.build_ok)
    real_fail = []
    hist_rows, hist_n, hist_mode = {}, {}, {}
    distinct = set()
    depmax = 0
    for l in res["oracle_init"]:
        f = l.split()
        d = kv(f[9:])
        depmax = max(depmax, int(d["depmax"]))
        if any(d[k] != "0" for k in INIT_ZERO) or d["alloc_ok"] != "1" or int(d["depmax"]) > 2:
            real_fail.append(("init", "init %s 0" % " ".join(f[2:8]), l))
    w1_multi_req, w1_done = 0, 0
    for l in res["oracle_sched"]:
        f = l.split()
        W, H, Cc, R, MC, MR, N, seed, mode = [int(x) for x in f[2:11]]
        d = kv(f[12:])
        rows = int(d["rows"])
        op = "sched %s 0" % " ".join(f[2:11])
        hist_rows[rows] = hist_rows.get(rows, 0) + 1
        hist_n[N] = hist_n.get(N, 0) + 1
        hist_mode[mode] = hist_mode.get(mode, 0) + 1
        if rows > 1 and W > 1:
            distinct.add((W, H, min(Cc, W), rows))
        if W == 1 and min(R, H, MR) >= 2:
            w1_multi_req += 1
            distinct.add((W, H, 1, min(R, H, MR)))
        if d["order_viol"] != "0" or d["double_start"] != "0":
            real_fail.append(("order", op, l))
        # no exempted grid: quiescent, every valid segment finished, every SB processed exactly once by a finished segment
        incomplete = (d["unfinished"] != "0" or d["quiescent"] != "1" or d["sbs_done"] != d["sbs_total"] or
                      d["sb_unproc"] != "0" or d["sb_bad_owner"] != "0")
        if incomplete:
            real_fail.append(("hang", op, l))
        elif W == 1 and min(R, H, MR) >= 2:
            w1_done += 1
    chk.cov["evaluations"] = len(ops)
    chk.cov["init_ops"] = len(res["oracle_init"])
    chk.cov["sched_ops"] = len(res["oracle_sched"])
    chk.cov["model_lines_compared"] = res["model_lines"]
    chk.cov["distinct_nontrivial"] = len(distinct)
    chk.cov["rule"] = ("distinct grids (W, H, min(C,W), segment rows) that were driven through the real assign_enc_dec_segments under an "
                       "adversarial schedule and have either W >= 2 and >= 2 effective segment rows, or W == 1 and >= 2 requested segment "
                       "rows (the grids that hung before the fix); every op line is also an init comparison of all arrays + the SB loop "
                       "of every segment")
    chk.cov["segment_rows_histogram"] = {str(k): v for k, v in sorted(hist_rows.items())}
    chk.cov["workers_histogram"] = {str(k): v for k, v in sorted(hist_n.items())}
    chk.cov["scheduler_mode_histogram"] = {str(k): v for k, v in sorted(hist_mode.items())}
    chk.cov["dependency_count_max_seen"] = depmax
    chk.cov["w1_multi_row_request_runs"] = w1_multi_req
    chk.cov["w1_multi_row_request_runs_completed"] = w1_done
    chk.cov["completion"] = ("every sched op must end quiescent with all segments finished and every SB processed exactly once, "
                             "including W == 1 with >= 2 requested segment rows (hung before the fix of finding F2)")
    chk.cov["loop_header_fragments_verbatim"] = not missing
    if res["canon"]:
        chk.sample({"harness": res["canon"][len(res["canon"]) // 2][:300]})
        chk.sample({"harness": res["canon"][-1][:300]})
    if res["oracle_sched"]:
        chk.sample({"oracle": res["oracle_sched"][len(res["oracle_sched"]) // 3]})
    chk.assumptions += ["W, H, C, R >= 1 and C <= the constructor's column count (as in EbEncHandle.c / EbPictureControlSet.c)",
                        "each mutex-protected block is atomic; no blocking in svt_get_empty_object for feedback tasks",
                        "size hypotheses InitOK: W, H <= 4096 SBs, W*H < 65536 SBs, segment count < 65536 (no other hypothesis: "
                        "the completion theorems hold for every grid, including pictures one SB wide)"]
    if real_fail:
        kind, op, l = real_fail[0]
        what = {"init": "enc_dec_segments_init / SB loop: a superblock is not processed exactly once by its segment (or arrays inconsistent)",
                "order": "a segment was handed out before a segment holding a left/upper/upper-left/upper-right neighbour SB finished, or twice",
                "hang": "segment scheduling reached quiescence with unfinished segments / unprocessed superblocks "
                        "(the picture never completes: the real encoder hangs)"}[kind]
        f = op.split()
        note = ""
        if kind == "hang" and f[1] == "1":
            note = ("grid: picture / tile group 1 SB wide x %s SBs high (e.g. a 64x%d picture with 64x64 SBs), %s segment rows requested: "
                    "regression of the fix for finding F2 (enc_dec_segments_init must use one segment row when pic_width_sb == 1)\n"
                    % (f[2], 64 * int(f[2]), f[4]))
        chk.violation("%s\n%s\n%s\n%sfailing ops in this run: %d\nreplay: bin/check C24 --replay <this file>\n" %
                      (what, op, l, note, len(real_fail)))
        return
    if not pr.ok:
        chk.violation("proof obligations no longer check:\n%s\nforbidden tokens: %s\n"
                      "no input found on which the implementation violates the property (%d ops tried)\n" %
                      ("\n".join("%s: %s" % x for x in pr.failed.items()), pr.forbidden, len(ops)),
                      tag="proof", found_input=False)
    elif missing:
        chk.violation("the SB-loop header transcribed in harness/seginit.c no longer occurs verbatim in %s (fragments %s); "
                      "the model of the loop is no longer tied to the source\nno failing input found (%d ops tried)\n" %
                      (PROC_C, missing, len(ops)), tag="corr", found_input=False)
    elif res["disagree"]:
        key, a, b = res["disagree"][0]
        chk.violation("Lean model and real code disagree, but the real outputs satisfy the property oracle\n%s\nC   : %s\nLean: %s\n"
                      "disagreeing lines: %d\n" % (key, a[:2000], b[:2000], len(res["disagree"])), tag="corr", found_input=False)
    elif res["wf_bad"]:
        chk.violation("structural check wfCheck (hypotheses WF / Live of the scheduling theorems) does not hold of initSeg "
                      "(safe and live must be true for every grid)\n%s\n" % res["wf_bad"][0],
                      tag="corr", found_input=False)


def replay(chk, path):
    ops = []
    for line in open(path):
        m = re.match(r"\s*(?:input:\s*)?((?:init|sched)\s[\d\s]+)$", line)
        if m:
            ops.append(m.group(1).strip() + "\n")
    run(chk, ops or None)
