"""Shared machinery of C01 (encoder reconstruction == decode of its own bitstream) and C08 (decoder output is consistent).

  * the encode matrix (fixed feature cases + seeded random cases from the accepted configuration domain + ONE dedicated,
    explicitly labelled case per recorded finding; the random part never switches a feature on that is recorded as broken)
  * a small on-disk cache of real runs keyed by (tree hash, harness hash, arguments) under .cache/e2e, so that C01 and C08
    run back to back share the real encodes
  * the Lean side: packets -> `svtmodel obu` (header parser) -> frame list -> `svtmodel dpb` (AV1 7.20/7.21 state machine)
  * the decoder-configuration differential through harness/dec_run.c (one decoder instance per process)
"""
import hashlib
import json
import os
import shutil
import subprocess
from . import common as C

WATCHDOG = 900            # seconds inside the harness (typical encode: 0.5-5 s; the machine may be heavily loaded)
WALL = 1000               # python-side wall clock limit per process
WORKERS = 4

K_OVERLAY_MISMATCH = "overlay-recon-decode-mismatch"
K_OVERLAY_FLAT = "overlay-flat-gop-segv"
K_SUPERRES = "superres-recon-decode-mismatch"
K_SUPERRES_TPL = "superres-tpl-segv"
K_PIPE16 = "16bit-pipeline-8bit-recon-mismatch"
K_RC_IP1 = "rc-intra-period-1-hang"
K_SEG_LOWQP = "segmentation-low-qp-recon-decode-mismatch"
K_CRA_LOWPRESET = "cra-low-preset-crash"
K_FG_LOWLP = "film-grain-low-lp-recon-decode-mismatch"
K_FLAKY_HANG = "intermittent-encoder-hang"
K_LOWLP_IP = "low-lp-short-intra-period-hang"
SEG_LOWQP_MAX = 12      # observed: qp <= 9 mismatches, qp >= 11 agrees (64x64, two contents); 12 leaves a margin
# family -> the kind of failure that is recorded for it ("mismatch": decoded picture != encoder reconstruction, "crash")
FAMILY_KIND = {K_OVERLAY_MISMATCH: ("mismatch",), K_OVERLAY_FLAT: ("crash",), K_SUPERRES: ("mismatch",), K_SUPERRES_TPL: ("crash",),
               K_PIPE16: ("mismatch",), K_RC_IP1: ("hang",), K_SEG_LOWQP: ("mismatch",), K_CRA_LOWPRESET: ("crash", "hang"),
               K_FG_LOWLP: ("mismatch",), K_LOWLP_IP: ("hang",)}


# ----------------------------------------------------------------------------- matrix
def overlays_effective(a):
    """enable_overlays survives set_svt_config only for 8-bit CQP with temporal filtering (EbEncHandle.c:2122-2126)."""
    return (int(a.get("cfg.enable_overlays", 0)) == 1 and int(a.get("cfg.tf_level", -1)) != 0
            and int(a.get("cfg.altref_nframes", 13)) > 1 and int(a.get("cfg.rate_control_mode", 0)) == 0
            and int(a.get("bd", 8)) == 8)


def known_family(a):
    """The recorded-defect family a configuration belongs to, decided by configuration FEATURE only (never by seed, size or
    content), or None.  The random part of the matrix only produces configurations for which this is None."""
    if overlays_effective(a):
        return K_OVERLAY_FLAT if int(a.get("cfg.hierarchical_levels", 4)) == 0 else K_OVERLAY_MISMATCH
    if int(a.get("cfg.superres_mode", 0)) != 0:
        return K_SUPERRES_TPL if int(a.get("cfg.enable_tpl_la", 1)) != 0 else K_SUPERRES
    if int(a.get("cfg.is_16bit_pipeline", 0)) != 0 and int(a.get("bd", 8)) == 8:
        return K_PIPE16
    if int(a.get("cfg.rate_control_mode", 0)) != 0 and int(a.get("cfg.intra_period_length", -2)) == 1:
        return K_RC_IP1
    if (int(a.get("cfg.intra_refresh_type", 2)) == 1 and int(a.get("cfg.intra_period_length", -2)) >= 1
            and int(a.get("cfg.enc_mode", 8)) <= 5):
        return K_CRA_LOWPRESET
    if int(a.get("cfg.film_grain_denoise_strength", 0)) > 0 and 1 <= int(a.get("cfg.logical_processors", 4)) <= 3:
        return K_FG_LOWLP
    if 1 <= int(a.get("cfg.logical_processors", 4)) <= 3 and int(a.get("cfg.intra_period_length", -2)) >= 1:
        return K_LOWLP_IP
    if (int(a.get("cfg.enable_adaptive_quantization", 2)) == 1 and int(a.get("cfg.rate_control_mode", 0)) == 0
            and int(a.get("cfg.qp", 50)) <= SEG_LOWQP_MAX):
        return K_SEG_LOWQP
    return None


def _c(label, w, h, n, bd=8, content=4, **cfg):
    a = dict(w=w, h=h, n=n, bd=bd, content=content)
    for k, v in cfg.items():
        a["cfg." + k] = v
    return {"label": label, "args": a}


def fixed_cases(tier):
    cs = [
        _c("64-wide square, preset 8, default 5-layer structure (multi-core, one-SB-wide picture)", 64, 64, 9, enc_mode=8),
        _c("64-wide portrait, 3 SB rows", 64, 192, 6, enc_mode=8, hierarchical_levels=2),
        _c("portrait, size not a multiple of 8", 72, 88, 10, enc_mode=8, hierarchical_levels=2),
        _c("size not a multiple of 8 in both directions, preset 6", 132, 70, 9, content=0, enc_mode=6, hierarchical_levels=3),
        _c("preset 4, 5 layers, 18 frames (ALT-REF + show-existing)", 192, 128, 18, enc_mode=4, hierarchical_levels=4),
        _c("preset 4, TPL off (128x128 superblocks)", 192, 128, 7, enc_mode=4, hierarchical_levels=2, enable_tpl_la=0),
        _c("10-bit, intra period 4", 128, 64, 12, bd=10, content=2, enc_mode=8, hierarchical_levels=3,
           intra_period_length=4),
        _c("10-bit noise, preset 5", 136, 72, 6, bd=10, content=0, enc_mode=5, hierarchical_levels=2),
        _c("2x2 tiles", 192, 128, 6, content=0, enc_mode=8, tile_columns=1, tile_rows=1),
        _c("4 tile rows, portrait", 128, 256, 5, enc_mode=8, hierarchical_levels=2, tile_rows=2),
        # uniform tile spacing with FEWER tiles than 2^log2 (5 SB columns, log2 = 2 -> 3 tile columns): tile ids are not 0..2^n-1
        # (seeded change C01-1: context_update_tile_id written as 2^n - 1)
        _c("3 tile columns (log2 2)", 320, 128, 6, content=4, enc_mode=8, hierarchical_levels=2, tile_columns=2),
        _c("3x3 tiles (log2 2x2)", 320, 320, 4, content=4, enc_mode=8, hierarchical_levels=1, tile_columns=2, tile_rows=2),
        _c("screen content", 128, 96, 6, content=5, enc_mode=8, screen_content_mode=1),
        _c("film grain, 8-bit", 128, 64, 9, content=0, enc_mode=6, hierarchical_levels=3, film_grain_denoise_strength=10),
        _c("film grain, 10-bit", 96, 80, 6, bd=10, content=0, enc_mode=8, hierarchical_levels=2, film_grain_denoise_strength=30),
        _c("flat prediction structure", 64, 64, 6, content=2, enc_mode=8, hierarchical_levels=0),
        _c("2 layers, IDR every 3", 96, 80, 10, enc_mode=8, hierarchical_levels=1, intra_period_length=3, intra_refresh_type=2),
        _c("all intra (intra period 0)", 96, 64, 4, enc_mode=8, intra_period_length=0),
        _c("VBR", 128, 64, 20, enc_mode=8, rate_control_mode=1, target_bit_rate=150000),
        _c("constrained VBR (look-ahead = intra period)", 128, 96, 18, enc_mode=8, rate_control_mode=2, target_bit_rate=300000,
           intra_period_length=15, look_ahead_distance=15),
        _c("10-bit, preset 7, 4 layers (16-bit pipeline)", 136, 72, 7, bd=10, enc_mode=7, hierarchical_levels=3),
        _c("extreme checkerboard, qp 63", 128, 64, 6, content=3, enc_mode=8, qp=63),
        _c("all-max samples, qp 5", 64, 96, 4, content=6, enc_mode=8, qp=5, hierarchical_levels=1),
        _c("segmentation (adaptive quantization 1)", 192, 128, 6, enc_mode=8, enable_adaptive_quantization=1, qp=40),
        _c("single frame", 80, 120, 1, content=0, enc_mode=8),
        _c("preset 2, small", 64, 64, 4, enc_mode=2, hierarchical_levels=2),
        _c("restoration on + CDEF off at preset 8", 128, 72, 6, content=0, enc_mode=8, enable_restoration_filtering=1, cdef_level=0,
           hierarchical_levels=2),
        _c("deblocking off, preset 7", 100, 84, 6, enc_mode=7, disable_dlf_flag=1, hierarchical_levels=1),
    ]
    if tier != "quick":
        cs += [
            _c("6 layers, 40 frames", 128, 64, 40, enc_mode=8, hierarchical_levels=5),
            _c("preset 3", 128, 128, 10, enc_mode=3, hierarchical_levels=3),
            _c("720p, preset 8", 1280, 720, 4, enc_mode=8, hierarchical_levels=2),
            _c("720p 10-bit, 2x4 tiles, preset 8", 1280, 720, 3, bd=10, enc_mode=8, hierarchical_levels=1, tile_columns=2, tile_rows=1),
            _c("480p preset 6 with film grain", 640, 480, 6, content=0, enc_mode=6, hierarchical_levels=2, film_grain_denoise_strength=20),
            _c("preset 2, 192x128, 9 frames", 192, 128, 9, enc_mode=2, hierarchical_levels=3),
            _c("all-min samples 10-bit", 64, 64, 5, bd=10, content=7, enc_mode=8),
            _c("VBR 10-bit", 160, 96, 25, bd=10, enc_mode=8, rate_control_mode=1, target_bit_rate=400000),
        ]
    return cs


def known_cases():
    """ONE dedicated case per recorded finding; every argument (incl. the content seed) is fixed, nothing derives from
    VERIF_SEED.  Plus two superres inputs on which encoder and decoder happen to agree (decoder superres path coverage)."""
    def k(label, fam, w, h, n, bd=8, content=4, seed=5, **cfg):
        c = _c(label, w, h, n, bd=bd, content=content, **cfg)
        c["args"]["seed"] = seed
        c["known"] = fam
        assert known_family(c["args"]) == fam, (label, known_family(c["args"]))
        return c
    sr = dict(superres_mode=1, superres_denom=12, superres_kf_denom=10, enc_mode=8, enable_tpl_la=0)
    return [
        k("KNOWN FINDING case: overlays on", K_OVERLAY_MISMATCH, 72, 88, 21, content=0, seed=1016, enc_mode=5, hierarchical_levels=1,
          logical_processors=1, tf_level=1, altref_nframes=5, enable_overlays=1),
        k("KNOWN FINDING case: overlays on + flat prediction structure", K_OVERLAY_FLAT, 128, 64, 18, content=0, seed=1, enc_mode=8,
          hierarchical_levels=0, enable_overlays=1),
        k("KNOWN FINDING case: superres on (fixed denominators, 10-bit)", K_SUPERRES, 64, 64, 6, bd=10, hierarchical_levels=0,
          enable_restoration_filtering=1, **sr),
        k("KNOWN FINDING case: superres on + TPL on", K_SUPERRES_TPL, 128, 128, 8, superres_mode=1, superres_denom=12, superres_kf_denom=10,
          enc_mode=8, enable_restoration_filtering=1, intra_period_length=3),
        k("KNOWN FINDING case: rate control on + intra period 1 (short watchdog: the encoder never finishes)", K_RC_IP1, 64, 64, 8, enc_mode=8,
          hierarchical_levels=0, intra_period_length=1, intra_refresh_type=1, rate_control_mode=1, target_bit_rate=150000),
        k("KNOWN FINDING case: segmentation (adaptive quantization 1) with a low quantizer", K_SEG_LOWQP, 64, 64, 3, seed=3027, enc_mode=8,
          hierarchical_levels=0, qp=7, enable_adaptive_quantization=1),
        k("KNOWN FINDING case: CRA intra refresh (intra_refresh_type 1) at preset <= 5", K_CRA_LOWPRESET, 128, 64, 12, bd=10, seed=38032, enc_mode=4,
          hierarchical_levels=3, intra_period_length=4, intra_refresh_type=1),
        k("KNOWN FINDING case: film grain with logical_processors <= 3", K_FG_LOWLP, 70, 86, 20, content=2, seed=48026, enc_mode=5,
          hierarchical_levels=1, film_grain_denoise_strength=40, qp=50, logical_processors=1),
        k("KNOWN FINDING case: logical_processors 2 with intra period 3 (short watchdog: the encoder never finishes)", K_LOWLP_IP, 160, 96, 14,
          content=5, seed=1126, enc_mode=8, hierarchical_levels=2, intra_period_length=3, intra_refresh_type=2, logical_processors=2),
        k("KNOWN FINDING case: 8-bit input through the 16-bit encoder pipeline", K_PIPE16, 136, 72, 1, enc_mode=8, hierarchical_levels=0,
          is_16bit_pipeline=1),
        k("KNOWN FINDING case (C08): superres, size not a multiple of 8 (decoder 8-bit and 16-bit pipelines disagree)", K_SUPERRES, 130, 98, 2,
          content=0, seed=1032, hierarchical_levels=3, superres_mode=1, superres_denom=13, superres_kf_denom=11, enc_mode=8, enable_tpl_la=0,
          enable_restoration_filtering=1),
        k("superres family, input on which both sides agree (restoration at preset default)", K_SUPERRES, 128, 128, 6, hierarchical_levels=0, **sr),
        k("superres family + film grain, input on which both sides agree", K_SUPERRES, 128, 128, 3, content=0, hierarchical_levels=0,
          enable_restoration_filtering=1, film_grain_denoise_strength=8, **sr),
    ]


SIZES_SMALL = [(64, 64), (128, 64), (192, 128), (72, 88), (96, 80), (128, 128), (160, 96), (136, 72), (80, 120), (128, 96),
               (66, 66), (64, 128), (200, 120), (130, 98), (70, 86), (256, 144), (64, 200)]
SIZES_BIG = [(322, 182), (352, 288), (426, 240), (640, 360), (360, 640), (854, 480)]


def random_cases(rng, count, tier):
    cs = []
    for _ in range(count):
        big = tier != "quick" and rng.chance(1, 6)
        w, h = rng.choice(SIZES_BIG if big else SIZES_SMALL)
        n = rng.range(1, 8) if big else rng.choice([rng.range(1, 12), rng.range(1, 12), rng.range(12, 24), rng.range(17, 40 if tier != "quick" else 26)])
        a = dict(w=w, h=h, n=n, bd=rng.choice([8, 8, 10]), content=rng.choice([0, 0, 1, 2, 3, 4, 4, 4, 5, 6, 7]))
        feats = []
        if tier == "quick" or big:
            a["cfg.enc_mode"] = rng.choice([8, 8, 8, 7, 6, 5])
        else:
            a["cfg.enc_mode"] = rng.choice([8, 8, 8, 7, 6, 5, 4, 4, 3, 2])
        if a["cfg.enc_mode"] <= 3 and w * h * n > 128 * 128 * 10:
            a["n"] = n = max(1, (128 * 128 * 10) // (w * h))
        a["cfg.hierarchical_levels"] = rng.choice([0, 1, 2, 3, 4, 4, 5 if tier != "quick" else 3])
        if rng.chance(1, 3):
            a["cfg.intra_period_length"] = rng.choice([0, 1, 2, 3, 5, 7, 8, 15, 16])
            a["cfg.intra_refresh_type"] = rng.choice([1, 2])
            feats.append("intra-period")
        if rng.chance(1, 4) and (w >= 128 or h >= 128):
            a["cfg.tile_columns"] = rng.range(0, 1 if w < 256 else 2) if w >= 128 else 0
            a["cfg.tile_rows"] = rng.range(0, 1 if h < 256 else 2) if h >= 128 else 0
            feats.append("tiles")
        # superres is never switched on here: every superres configuration belongs to a recorded family (known_family)
        if rng.chance(1, 6):
            a["cfg.enable_tpl_la"] = 0
            feats.append("tpl-off")
        if rng.chance(1, 6):
            a["cfg.screen_content_mode"] = rng.choice([1, 2])
            feats.append("screen-content")
        if rng.chance(1, 6):
            a["cfg.film_grain_denoise_strength"] = rng.range(1, 50)
            feats.append("film-grain")
        if rng.chance(1, 3):
            a["cfg.qp"] = rng.choice([rng.range(1, 63), rng.range(1, 63), 1, 63])
            feats.append("qp")
        if rng.chance(1, 6):
            a["cfg.enable_adaptive_quantization"] = rng.choice([0, 1, 2])
            feats.append("aq")
        if rng.chance(1, 6):
            rc = rng.choice([1, 1, 2])
            a["cfg.rate_control_mode"] = rc
            a["cfg.target_bit_rate"] = rng.choice([50000, 150000, 500000, 2000000])
            if rc == 2:
                ip = rng.choice([7, 15, 16, 31])
                a["cfg.intra_period_length"] = ip
                a["cfg.look_ahead_distance"] = ip
                a["cfg.intra_refresh_type"] = 2
            elif int(a.get("cfg.intra_period_length", -2)) == 1:
                a["cfg.intra_period_length"] = 2        # rate control + intra period 1 is a recorded family (the encoder never finishes)
            feats.append("rate-control-%d" % rc)
        # is_16bit_pipeline=1 with 8-bit input is a recorded family; with 10-bit input the pipeline is 16-bit anyway
        if rng.chance(1, 4):
            k, v = rng.choice([("enable_restoration_filtering", 0), ("enable_restoration_filtering", 1), ("cdef_level", 0), ("cdef_level", 4),
                               ("disable_dlf_flag", 1), ("enable_warped_motion", 0), ("enable_global_motion", 0), ("obmc_level", 0),
                               ("palette_level", 0), ("intrabc_mode", 1), ("enable_mfmv", 1), ("compound_level", 0), ("mrp_level", 0),
                               ("filter_intra_level", 0), ("tf_level", 0), ("tf_level", 1), ("enable_hbd_mode_decision", 0),
                               ("unrestricted_motion_vector", 0)])
            a["cfg." + k] = v
            if k == "intrabc_mode":
                a["cfg.screen_content_mode"] = 1          # verify_settings: intra BC only with screen_content_mode = 1
            feats.append(k)
        if rng.chance(1, 5):
            a["cfg.logical_processors"] = rng.choice([1, 2, 3, 8])
        if known_family(a) == K_CRA_LOWPRESET:
            a["cfg.intra_refresh_type"] = 2          # CRA refresh at presets <= 5 is a recorded family (crash / hang)
        if known_family(a) in (K_FG_LOWLP, K_LOWLP_IP):
            del a["cfg.logical_processors"]          # film grain / a set intra period with logical_processors <= 3 are recorded families
        if int(a.get("cfg.enable_adaptive_quantization", 2)) == 1:
            # segmentation with a low quantizer is a recorded family: keep CQP qp >= 20, and no rate control (it may choose any quantizer)
            if int(a.get("cfg.rate_control_mode", 0)) != 0:
                a["cfg.enable_adaptive_quantization"] = 2
            elif int(a.get("cfg.qp", 50)) < 20:
                a["cfg.qp"] = 20 + int(a["cfg.qp"])
        assert known_family(a) is None
        cs.append({"label": "random: " + (",".join(feats) or "plain"), "args": a})
    return cs


def matrix(tier, seed, n_random=None):
    """The shared C01/C08 matrix: same list for both properties for a given VERIF_SEED (so the cache is shared)."""
    rng = C.Rng(seed ^ 0xC01C08)
    if n_random is None:
        n_random = 8 if tier == "quick" else 110
    cs = fixed_cases(tier) + random_cases(rng, n_random, tier)
    for i, c in enumerate(cs):
        c["args"]["seed"] = seed * 1000 + i
        c["known"] = None
        assert known_family(c["args"]) is None, c
    cs += known_cases()
    for c in cs:
        # final_nb=1: non-blocking final drain; the documented blocking final svt_av1_enc_get_packet can deadlock against the recon
        # pool when recon_enabled=1 (recorded under C27 / C03 F19, timing dependent) - not this property's subject
        c["args"].update(hex=1, recon=1, decode=1, dec_threads=1, dec16=0, watchdog=WATCHDOG, final_nb=1)
        if c.get("known") in (K_RC_IP1, K_LOWLP_IP):
            c["args"]["watchdog"] = 90        # this input is recorded as never finishing (typical time of a finishing 64x64x8 preset-8 encode: < 2 s)
    return cs


def describe(args):
    return " ".join("%s=%s" % (k, v) for k, v in args.items())


# ----------------------------------------------------------------------------- real runs (cached)
class Runner:
    def __init__(self):
        self.repo_hash = C.repo_hash()
        self.e2e = C.e2e_exe()
        self.dec = C.compile_harness("dec_run", [os.path.join(C.VERIF, "harness", "dec_run.c")], libs=["libSvtAv1Dec.a"])
        root = os.path.join(C.CACHE, "e2e")
        self.dir = os.path.join(root, self.repo_hash)
        os.makedirs(self.dir, exist_ok=True)
        for e in os.listdir(root):                       # results of other trees are never reused; drop them (disk)
            if e != self.repo_hash:
                shutil.rmtree(os.path.join(root, e), ignore_errors=True)
        self.hits = self.misses = 0

    def _key(self, exe, argv, stdin_digest=""):
        h = hashlib.sha256()
        h.update((os.path.basename(exe) + "\0" + "\0".join(argv) + "\0" + stdin_digest).encode())
        return os.path.join(self.dir, h.hexdigest()[:24] + ".json")

    def _run(self, exe, argv, stdin=None):
        """-> (rc, stdout, stderr, cached).  Only complete, normal runs (rc 0 and an END line) are cached."""
        path = self._key(exe, argv, hashlib.sha256(stdin).hexdigest() if stdin is not None else "")
        if os.environ.get("VERIF_NO_E2E_CACHE") != "1" and os.path.exists(path):
            try:
                d = json.load(open(path))
                self.hits += 1
                return d["rc"], d["out"], d["err"], True
            except (ValueError, KeyError, OSError):
                pass
        e = dict(os.environ)
        try:
            p = subprocess.run([exe] + argv, input=stdin, stdout=subprocess.PIPE, stderr=subprocess.PIPE, timeout=WALL, env=e)
            out, err, rc = p.stdout.decode("utf-8", "replace"), p.stderr.decode("utf-8", "replace")[-3000:], p.returncode
        except subprocess.TimeoutExpired as ex:
            out, err, rc = (ex.stdout or b"").decode("utf-8", "replace"), "[harness wall-clock timeout]", 124
        self.misses += 1
        if rc == 0 and "\nEND " in "\n" + out:
            tmp = "%s.tmp%d" % (path, os.getpid())
            try:
                with open(tmp, "w") as fh:
                    json.dump({"rc": rc, "out": out, "err": err, "argv": argv}, fh)
                os.rename(tmp, path)
            except OSError:
                pass
        return rc, out, err, False

    def encode(self, args):
        argv = ["%s=%s" % (k, v) for k, v in args.items()]
        rc, out, err, cached = self._run(self.e2e, argv)
        r = C.parse_e2e(out)
        r["rc"], r["stderr"], r["argv"], r["cached"] = rc, err, " ".join(argv), cached
        r["crashed"] = rc not in (0, 3, 124)
        r["hung"] = rc in (3, 124) or r["TIMEOUT"]
        r["DECPKT"] = dec_lines(out)
        return r

    def decode(self, args, r, threads, dec16, fg_skip=0):
        """Decode the packets of encode result r with the real decoder alone in a given configuration."""
        text = "".join("PKT %d %s\n" % (i, r["HEX"][i]) for i in sorted(r["HEX"])).encode()
        argv = ["w=%d" % args["w"], "h=%d" % args["h"], "bd=%d" % args["bd"], "threads=%d" % threads, "dec16=%d" % dec16,
                "fg_skip=%d" % fg_skip, "watchdog=%d" % WATCHDOG]
        rc, out, err, cached = self._run(self.dec, argv, stdin=text)
        d = {"rc": rc, "stderr": err, "cached": cached, "DEC": dec_lines(out), "ERR": [l[4:] for l in out.split("\n") if l.startswith("ERR ")],
             "END": next((l for l in out.split("\n") if l.startswith("END ")), None), "argv": " ".join(argv),
             "crashed": rc not in (0, 3, 124), "hung": rc in (3, 124) or "TIMEOUT" in out.split("\n")}
        return d


def dec_lines(out):
    """DEC k crc w h bd pkt=i -> [(k, crc, pkt)]"""
    res = []
    for line in out.split("\n"):
        ws = line.split()
        if len(ws) >= 7 and ws[0] == "DEC" and ws[6].startswith("pkt="):
            try:
                res.append((int(ws[1]), ws[2], int(ws[6][4:])))
            except ValueError:
                pass
    return res


def run_matrix(chk, cases, variants, attribute_crash=False):
    """Run every case: real encode + in-process decode, then the stand-alone decoder in each configuration of `variants`
    (list of (threads, dec16, fg_skip) or a function case -> list).
    attribute_crash: when the combined encode+decode process dies or hangs, run the encode again WITHOUT the in-process decode; if
    that finishes, the stream is decoded by the stand-alone decoder (1 thread, 8-bit pipeline) and c['dec_alone'] is set, so that a
    decoder crash on an encoder-produced stream is attributed to the decoder (C08)."""
    rn = Runner()

    def one(c):
        r = rn.encode(c["args"])
        c["r"] = r
        c["dec"] = {}
        ok = (not r["crashed"] and not r["hung"] and r["SETPARAM"] == 0 and r["PKT"] and len(r["HEX"]) == len(r["PKT"]))
        c["usable"] = bool(ok)
        if r["hung"] and not r["crashed"] and (c.get("known") or known_family(c["args"])) is None:
            # a configuration outside every recorded family that does not finish: run it once more (never cached); if the second run
            # finishes the hang is timing dependent (liveness: properties C04/C11) and the second run is the one that is checked
            r2 = rn.encode(c["args"])
            if not r2["hung"]:
                c["intermittent_hang"] = True
                c["r"] = r = r2
                ok = (not r["crashed"] and r["SETPARAM"] == 0 and r["PKT"] and len(r["HEX"]) == len(r["PKT"]))
                c["usable"] = bool(ok)
        if attribute_crash and (r["crashed"] or r["hung"]):
            a2 = dict(c["args"])
            a2["decode"] = 0
            r2 = rn.encode(a2)
            if not r2["crashed"] and not r2["hung"] and r2["SETPARAM"] == 0 and r2["PKT"] and len(r2["HEX"]) == len(r2["PKT"]):
                c["dec_alone"] = rn.decode(c["args"], r2, 1, 0, 0)
        if ok:
            for v in (variants(c) if callable(variants) else variants):
                c["dec"][v] = rn.decode(c["args"], r, *v)
        return c
    C.run_parallel(one, cases, workers=WORKERS)
    chk.cov["real_runs_from_cache"] = rn.hits
    chk.cov["real_runs_executed"] = rn.misses
    return rn


# ----------------------------------------------------------------------------- Lean side
def kv(line):
    d = {}
    for tok in line.split():
        if "=" in tok:
            k, v = tok.split("=", 1)
            d[k] = v
    return d


def lean_frames(cases):
    """Packets of every usable case -> `svtmodel obu` -> per case: list of (pkt index, frame-header dict) in bitstream order,
    plus the sequence header dicts.  Sets c['frames'], c['seq'], c['obu_err']."""
    us = [c for c in cases if c.get("usable")]
    if not us:
        return
    lines = []
    for c in us:
        lines.append("RESET")
        for i in sorted(c["r"]["HEX"]):
            lines.append("PKT %d %s" % (i, c["r"]["HEX"][i]))
    out = C.run_model("obu", "\n".join(lines) + "\n")
    si = -1
    cur = None
    for line in out.split("\n"):
        if line == "reset":
            si += 1
            cur = us[si]
            cur["frames"], cur["seq"], cur["obu_err"], cur["pktlines"] = [], [], [], []
        elif cur is None:
            continue
        elif line.startswith("pkt="):
            d = kv(line)
            cur["pktlines"].append(d)
            if d.get("ok") != "1":
                cur["obu_err"].append("packet %s: %s" % (d.get("pkt"), d.get("err")))
        elif line.startswith("FRM "):
            d = kv(line)
            cur["frames"].append((int(d["pkt"]), d))
        elif line.startswith("SEQ "):
            cur["seq"].append(kv(line))


def dpb_op(f):
    refs = (f.get("ref_idx") or "").split(",")
    refs = [x if x.isdigit() else "0" for x in refs]
    refs = (refs + ["0"] * 7)[:7]
    se = f.get("show_existing", "0")
    return "F %s %s %s %s %s %s %s" % (f.get("frame_type", "0") if se != "1" else "0", f.get("show_frame", "0"), f.get("showable", "0"), se,
                                       f.get("existing_idx", "0") if se == "1" else "0", f.get("refresh", "0") if se != "1" else "0",
                                       " ".join(refs))


def lean_dpb(cases):
    """Frame lists -> `svtmodel dpb` (Dpb.decStep with S := index of the frame header in the stream).
    Sets c['dpb'] = list of {'out': int|None, 'slots': [8 ints], 'reads': [ints]|None} per frame header."""
    us = [c for c in cases if c.get("usable") and c.get("frames") is not None]
    if not us:
        return
    lines = []
    for c in us:
        lines.append("RESET")
        for _, f in c["frames"]:
            lines.append(dpb_op(f))
    out = [l for l in C.run_model("dpb", "\n".join(lines) + "\n").split("\n") if l]
    pos = 0
    for c in us:
        assert out[pos] == "ok", out[pos]
        pos += 1
        c["dpb"] = []
        for _ in c["frames"]:
            ws = out[pos].split()
            pos += 1
            if ws[0] == "bad-op" or len(ws) != 16:
                c["dpb"].append(None)
                continue
            c["dpb"].append({"out": None if ws[0] == "-" else int(ws[0]), "slots": [int(x) for x in ws[1:9]],
                             "reads": None if ws[9] == "-" else [int(x) for x in ws[9:16]]})


def protocol_oracle(c):
    """Frame-level oracle on one usable case, using the Lean header parser + Lean DPB machine on the REAL packets and the REAL
    decoder's output list.  -> (problems, facts)   problems: list of strings (each a violation of the frame-level protocol)."""
    bad = []
    r = c["r"]
    frames, dpb = c["frames"], c["dpb"]
    facts = {"frames": len(frames), "outputs": 0, "show_existing": 0, "hidden": 0, "key": 0, "intra_only": 0, "reads_checked": 0,
             "orderhint_checked": 0, "slots_refreshed": 0}
    if c["obu_err"]:
        bad.append("Lean OBU/header parser rejects a packet: %s" % c["obu_err"][0])
        return bad, facts
    if any(d is None for d in dpb):
        bad.append("a frame header could not be fed to the DPB machine (bad-op)")
        return bad, facts
    seq = c["seq"][0] if c["seq"] else {}
    ohbits = int(seq.get("order_hint_bits", "0") or 0) if seq.get("order_hint") == "1" else 0
    pts_base, pts_step = int(c["args"].get("pts_base", 0)), int(c["args"].get("pts_step", 1))
    pkt_pts = {p["i"]: p["pts"] for p in r["PKT"]}
    outs = []                      # (frame index output, packet index of the header that caused the output)
    shown_before = {}
    prev_slots = [-1] * 8
    for j, ((pk, f), d) in enumerate(zip(frames, dpb)):
        se = f.get("show_existing") == "1"
        if se:
            facts["show_existing"] += 1
            src = prev_slots[int(f.get("existing_idx", "0"))]
            if src < 0:
                bad.append("packet %d: show_existing_frame of slot %s which was never written" % (pk, f.get("existing_idx")))
            elif frames[src][1].get("showable") != "1":
                bad.append("packet %d: show_existing_frame of slot %s holding frame #%d whose showable_frame = 0" % (pk, f.get("existing_idx"), src))
        else:
            ft = f.get("frame_type")
            facts["key"] += ft == "0"
            facts["intra_only"] += ft == "2"
            facts["hidden"] += f.get("show_frame") != "1"
            if d["reads"] is not None:
                facts["reads_checked"] += 7
                for k, x in enumerate(d["reads"]):
                    if x < 0:
                        bad.append("packet %d: inter frame #%d reads ref_frame_idx[%d] = slot %s which was never written" %
                                   (pk, j, k, (f.get("ref_idx") or "").split(",")[k]))
            facts["slots_refreshed"] += sum(1 for a_, b_ in zip(prev_slots, d["slots"]) if a_ != b_)
        if d["out"] is not None:
            outs.append((d["out"], pk))
            if d["out"] in shown_before:
                bad.append("packet %d: frame #%d is output a second time (first in packet %d)" % (pk, d["out"], shown_before[d["out"]]))
            shown_before[d["out"]] = pk
        prev_slots = d["slots"]
    facts["outputs"] = len(outs)
    # the real decoder's output list: same count, same packets, in the same order
    real = r["DECPKT"]
    if [pk for _, pk in outs] != [pk for _, _, pk in real]:
        bad.append("output order: the Lean DPB machine outputs pictures in packets %s, the real decoder in packets %s" %
                   ([pk for _, pk in outs][:40], [pk for _, _, pk in real][:40]))
    # display-position bookkeeping: the k-th output is display position k; it must be the frame whose order_hint is k and the packet's pts
    for k, (j, pk) in enumerate(outs):
        pts = pkt_pts.get(pk)
        if pts is None or pts != pts_base + k * pts_step:
            bad.append("output %d comes from packet %d whose pts is %s (expected %d)" % (k, pk, pts, pts_base + k * pts_step))
        if ohbits:
            oh = int(frames[j][1].get("order_hint", "0"))
            facts["orderhint_checked"] += 1
            if oh != k % (1 << ohbits):
                bad.append("output %d (packet %d) is frame #%d with order_hint %d, expected %d" % (k, pk, j, oh, k % (1 << ohbits)))
    if len(outs) != int(c["args"]["n"]):
        bad.append("%d pictures are output by the stream, %d were submitted" % (len(outs), int(c["args"]["n"])))
    return bad, facts


# ----------------------------------------------------------------------------- classification shared by C01 / C08
def encode_failure(c):
    """Failure of the encode + single-thread decode of one case, as (kind, text) or None.
    kind: 'crash' | 'hang' | 'error' | 'mismatch' | 'count'."""
    r = c["r"]
    n = int(c["args"]["n"])
    if r["crashed"]:
        return "crash", "process died with rc=%s (signal %s) %s" % (r["rc"], -r["rc"] if r["rc"] < 0 else "-", "; ".join(r["ERR"][:3]))
    if r["hung"]:
        return "hang", "no result within the watchdog (%d s)" % WATCHDOG
    if r["SETPARAM"] != 0:
        return None                         # rejected configuration: not in the accepted domain, nothing to check
    if r["ERR"]:
        return "error", "; ".join(r["ERR"][:4])
    mism = [(k, v) for k, v in r["CMP"] if v != "MATCH"]
    if mism:
        return "mismatch", "decoded picture != encoder reconstruction at display positions %s (first: position %d %s)" % (
            [k for k, _ in mism][:20], mism[0][0], mism[0][1])
    end = kv(r["END"] or "")
    if (len(r["PKT"]), len(r["RECON"]), len(r["DECPKT"]), len(r["CMP"])) != (n, n, n, n):
        return "count", "%d pictures submitted: %d packets, %d reconstructions, %d decoded pictures, %d compared (END %s)" % (
            n, len(r["PKT"]), len(r["RECON"]), len(r["DECPKT"]), len(r["CMP"]), end)
    return None


def stream_signature(c):
    """A coarse signature of what a real stream exercises (from the Lean-parsed headers): used to count distinct cases."""
    seq = c["seq"][0] if c.get("seq") else {}
    fr = [f for _, f in c.get("frames") or []]
    coded = [f for f in fr if f.get("show_existing") != "1"]

    def any_(k, pred):
        return int(any(pred(f.get(k)) for f in coded))
    return (seq.get("sb128"), seq.get("bitdepth"), seq.get("film_grain"), seq.get("superres"), seq.get("restoration"), seq.get("cdef"),
            tuple(sorted(set(f.get("frame_type") for f in coded))), int(any(f.get("show_existing") == "1" for f in fr)),
            int(any(f.get("show_frame") == "0" for f in coded)),
            max([int(f.get("tile_cols", "1")) * int(f.get("tile_rows", "1")) for f in coded] or [0]),
            any_("film_grain", lambda v: v == "1"), any_("seg_enabled", lambda v: v == "1"), any_("allow_sct", lambda v: v == "1"),
            any_("allow_intrabc", lambda v: v == "1"), any_("skip_mode", lambda v: v == "1"), any_("use_superres", lambda v: v == "1"),
            any_("lr_y", lambda v: v not in (None, "0")), any_("delta_q_present", lambda v: v == "1"), any_("reduced_tx", lambda v: v == "1"),
            any_("coded_lossless", lambda v: v == "1"), any_("gm", lambda v: v not in (None, "0,0,0,0,0,0,0")))


def histograms(cases):
    h = {"enc_mode": {}, "bit_depth": {}, "size": {}, "frames": {}, "hierarchical_levels": {}, "content": {}, "features": {}}

    def inc(d, k):
        d[str(k)] = d.get(str(k), 0) + 1
    for c in cases:
        a = c["args"]
        inc(h["enc_mode"], a.get("cfg.enc_mode", 8))
        inc(h["bit_depth"], a["bd"])
        inc(h["size"], "%dx%d" % (a["w"], a["h"]))
        inc(h["frames"], "1" if a["n"] == 1 else "2-8" if a["n"] <= 8 else "9-20" if a["n"] <= 20 else "21-40")
        inc(h["hierarchical_levels"], a.get("cfg.hierarchical_levels", 4))
        inc(h["content"], a["content"])
        for k in a:
            if k.startswith("cfg.") and k not in ("cfg.enc_mode", "cfg.hierarchical_levels"):
                inc(h["features"], k[4:])
    return h


def parse_replay(path):
    """-> case dict from the `encode: k=v ...` line of a replay file."""
    for line in open(path):
        if line.startswith("encode: "):
            args = {}
            for tok in line[len("encode: "):].split():
                k, v = tok.split("=", 1)
                args[k] = int(v) if v.lstrip("-").isdigit() else v
            return {"label": "replay", "args": args, "known": known_family(args)}
    return None


def uses_loop_restoration(c):
    """Some coded frame of the stream signals a loop-restoration type other than NONE (Lean-parsed frame headers)."""
    return any(f.get("show_existing") != "1" and (f.get("lr_y", "0"), f.get("lr_u", "0"), f.get("lr_v", "0")) != ("0", "0", "0")
               for _, f in c.get("frames") or [])
