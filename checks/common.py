"""Shared machinery for all property checks (see DESIGN.md section 2).

Every check is `bin/check <Cxx> --tier quick|thorough`.  This module provides:
  * repo hashing + out-of-tree cached builds of /repo's *current working tree*
  * Lean: lake build of a property module, forbidden-token grep, `#print axioms` audit
  * the svtmodel driver (compiled lean_exe)
  * evidence writer, known-findings matcher, VIOLATION reporting
  * splitmix64 PRNG (all random choices derive from VERIF_SEED)
"""
import fcntl
import hashlib
import json
import os
import re
import shutil
import subprocess
import sys
import time

VERIF = os.path.dirname(os.path.dirname(os.path.abspath(__file__)))
REPO = os.environ.get("VERIF_REPO", "/repo")
os.environ.setdefault("SVT_REPO", REPO)      # older extractors read SVT_REPO
os.environ.setdefault("VERIF_REPO", REPO)
LEAN = os.path.join(VERIF, "lean")
CACHE = os.path.join(VERIF, ".cache")
EVID = os.path.join(VERIF, "evidence")
REPLAY = os.path.join(VERIF, "replays")
GUARD = "SVT_AV1_VERIF"
ALLOWED_AXIOMS = {"propext", "Classical.choice", "Quot.sound"}
NCPU = os.cpu_count() or 4

FORBIDDEN = re.compile(
    r"\bsorry\b|\badmit\b|^\s*axiom\s|native_decide|bv_decide|implemented_by|\bunsafe\s|maxHeartbeats\s+0\b",
    re.M)



def _drop_realtime_capability():
    """The encoder library switches the calling thread to SCHED_FIFO priority 99 (enc_switch_to_real_time, EbEncHandle.c) and
    every worker inherits it; as root that succeeds and the harness processes starve everything else on the machine (shells,
    watchdogs, other checks).  Removing CAP_SYS_NICE from the capability bounding set of this process makes the
    pthread_setschedparam call in every child fail with EPERM (the library ignores the result).  Scheduling class is not part
    of any property."""
    try:
        import ctypes
        ctypes.CDLL(None, use_errno=True).prctl(24, 23, 0, 0, 0)     # PR_CAPBSET_DROP, CAP_SYS_NICE
    except Exception:
        pass


_drop_realtime_capability()


def log(*a):
    print(*a, file=sys.stderr, flush=True)


def sh(cmd, cwd=None, timeout=None, env=None, check=False, input=None):
    """Run, return (rc, stdout+stderr text)."""
    e = dict(os.environ)
    if env:
        e.update(env)
    try:
        p = subprocess.run(cmd, cwd=cwd, shell=isinstance(cmd, str), stdout=subprocess.PIPE,
                           stderr=subprocess.STDOUT, timeout=timeout, env=e, input=input)
        out = p.stdout.decode("utf-8", "replace") if isinstance(p.stdout, bytes) else p.stdout
        rc = p.returncode
    except subprocess.TimeoutExpired as ex:
        out = (ex.stdout or b"").decode("utf-8", "replace") + "\n[TIMEOUT]"
        rc = 124
    if check and rc != 0:
        raise RuntimeError("command failed (%s): %s\n%s" % (rc, cmd, out[-4000:]))
    return rc, out


# ----------------------------------------------------------------------------- PRNG
class Rng:
    """splitmix64; the single source of randomness of a check run."""

    def __init__(self, seed):
        self.s = seed & 0xFFFFFFFFFFFFFFFF

    def next(self):
        self.s = (self.s + 0x9E3779B97F4A7C15) & 0xFFFFFFFFFFFFFFFF
        z = self.s
        z = ((z ^ (z >> 30)) * 0xBF58476D1CE4E5B9) & 0xFFFFFFFFFFFFFFFF
        z = ((z ^ (z >> 27)) * 0x94D049BB133111EB) & 0xFFFFFFFFFFFFFFFF
        return z ^ (z >> 31)

    def below(self, n):
        return self.next() % n if n > 0 else 0

    def range(self, lo, hi):  # inclusive
        return lo + self.below(hi - lo + 1)

    def choice(self, xs):
        return xs[self.below(len(xs))]

    def chance(self, num, den):
        return self.below(den) < num

    def shuffle(self, xs):
        xs = list(xs)
        for i in range(len(xs) - 1, 0, -1):
            j = self.below(i + 1)
            xs[i], xs[j] = xs[j], xs[i]
        return xs


def seed_from_env():
    try:
        return int(os.environ.get("VERIF_SEED", "1"))
    except ValueError:
        return 1


# ----------------------------------------------------------------------------- repo hash / builds
def repo_hash(paths=None):
    """Hash of /repo's working tree (tracked content incl. uncommitted edits + untracked sources)."""
    h = hashlib.sha256()
    rc, out = sh(["git", "-C", REPO, "ls-files", "-s"] + (["--"] + paths if paths else []))
    h.update(out.encode())
    rc, out = sh(["git", "-C", REPO, "diff", "HEAD", "--"] + (paths or ["Source", "CMakeLists.txt", "third_party", "test"]))
    h.update(out.encode())
    rc, out = sh(["git", "-C", REPO, "ls-files", "--others", "--exclude-standard", "--", "Source"])
    for f in sorted(out.split()):
        try:
            with open(os.path.join(REPO, f), "rb") as fh:
                h.update(f.encode() + b"\0" + fh.read())
        except OSError:
            pass
    return h.hexdigest()[:16]


class FileLock:
    def __init__(self, name):
        os.makedirs(CACHE, exist_ok=True)
        self.path = os.path.join(CACHE, name + ".lock")

    def __enter__(self):
        self.f = open(self.path, "w")
        fcntl.flock(self.f, fcntl.LOCK_EX)
        return self

    def __exit__(self, *a):
        fcntl.flock(self.f, fcntl.LOCK_UN)
        self.f.close()


FLAVOURS = {
    # name: (cmake build type, extra C flags, extra cmake args)
    "rel": ("Release", "-D%s -Wno-error" % GUARD, []),
    "asan": ("Debug", "-D%s -Wno-error -O1 -g -fsanitize=address,undefined -fno-sanitize-recover=undefined -fno-omit-frame-pointer" % GUARD,
             ["-DCMAKE_EXE_LINKER_FLAGS=-fsanitize=address,undefined"]),
}


def ensure_lib(flavour="rel"):
    """Build static enc+dec libs from /repo's current tree with hooks on; return build dir.

    <dir>/out/libSvtAv1Enc.a, <dir>/out/libSvtAv1Dec.a
    """
    hsh = repo_hash()
    root = os.path.join(CACHE, "build")
    d = os.path.join(root, "%s-%s" % (flavour, hsh))
    with FileLock("build-" + flavour):
        if os.path.exists(os.path.join(d, "OK")):
            return d
        os.makedirs(root, exist_ok=True)
        # drop older builds of this flavour (disk is limited)
        for e in os.listdir(root):
            if e.startswith(flavour + "-") and e != os.path.basename(d):
                shutil.rmtree(os.path.join(root, e), ignore_errors=True)
        shutil.rmtree(d, ignore_errors=True)
        os.makedirs(d)
        btype, cflags, extra = FLAVOURS[flavour]
        t0 = time.time()
        cmd = ["cmake", "-G", "Ninja", "-S", REPO, "-B", d, "-DCMAKE_BUILD_TYPE=" + btype,
               "-DBUILD_SHARED_LIBS=OFF", "-DBUILD_TESTING=OFF", "-DBUILD_APPS=OFF",
               "-DCMAKE_OUTPUT_DIRECTORY=" + os.path.join(d, "out"),
               "-DCMAKE_C_FLAGS=" + cflags, "-DCMAKE_CXX_FLAGS=" + cflags] + extra
        rc, out = sh(cmd)
        if rc != 0:
            raise BuildError("cmake configure failed:\n" + out[-3000:])
        rc, out = sh(["cmake", "--build", d, "-j", str(NCPU)])
        if rc != 0:
            raise BuildError("library build failed:\n" + out[-6000:])
        open(os.path.join(d, "OK"), "w").write("%.1f" % (time.time() - t0))
        log("[build] %s built in %.0fs" % (flavour, time.time() - t0))
    return d


class BuildError(Exception):
    pass


INC_DIRS = ["Source/API", "Source/Lib/Common/Codec", "Source/Lib/Common/C_DEFAULT",
            "Source/Lib/Common/ASM_SSE2", "Source/Lib/Common/ASM_SSSE3", "Source/Lib/Common/ASM_SSE4_1",
            "Source/Lib/Common/ASM_AVX2", "Source/Lib/Common/ASM_AVX512",
            "Source/Lib/Encoder/Codec", "Source/Lib/Encoder/C_DEFAULT", "Source/Lib/Encoder/Globals",
            "Source/Lib/Encoder/ASM_SSE2", "Source/Lib/Encoder/ASM_SSSE3", "Source/Lib/Encoder/ASM_SSE4_1",
            "Source/Lib/Encoder/ASM_AVX2", "Source/Lib/Encoder/ASM_AVX512",
            "Source/Lib/Decoder/Codec", "third_party/fastfeat", "third_party/cpuinfo/include"]


def inc_flags():
    return ["-I" + os.path.join(REPO, d) for d in INC_DIRS if os.path.isdir(os.path.join(REPO, d))]


def compile_harness(name, sources, libs=(), flavour=None, extra=(), cxx=False, out_dir=None):
    """Compile a harness from /verif/harness against /repo headers (and optionally the built libs).

    Keyed on repo hash + harness source hash, so it rebuilds whenever /repo changes.
    """
    sources = list(sources)
    weak = os.path.join(VERIF, "harness", "verif_weak.c")
    if not libs and os.path.exists(weak) and not cxx:
        sources.append(weak)        # stand-ins for the fail-the-k-th hook symbols (see the file's header)
    h = hashlib.sha256()
    h.update(repo_hash().encode())
    for s in sources:
        h.update(open(s, "rb").read())
    h.update(repr((libs, flavour, extra)).encode())
    key = h.hexdigest()[:16]
    d = out_dir or os.path.join(CACHE, "harness")
    os.makedirs(d, exist_ok=True)
    exe = os.path.join(d, "%s-%s" % (name, key))
    if os.path.exists(exe):
        return exe
    for e in os.listdir(d):
        if e.startswith(name + "-") and ".tmp" not in e:
            try:
                os.unlink(os.path.join(d, e))
            except OSError:
                pass
    cc = "g++" if cxx else "gcc"
    tmp_exe = "%s.tmp%d" % (exe, os.getpid())     # concurrent callers: compile to a private name, then rename atomically
    cmd = [cc, "-O1", "-g", "-D" + GUARD, "-w"] + list(extra) + inc_flags() + list(sources) + ["-o", tmp_exe]
    if libs:
        bd = ensure_lib(flavour or "rel")
        for l in libs:
            cmd.append(os.path.join(bd, "out", l))
        if (flavour or "rel") == "asan":
            cmd += ["-fsanitize=address,undefined"]
    cmd += ["-lpthread", "-lm"]
    with FileLock("harness-" + name):
        if os.path.exists(exe):
            return exe
        rc, out = sh(cmd)
        if rc != 0:
            raise BuildError("harness %s failed to compile:\n%s" % (name, out[-6000:]))
        os.rename(tmp_exe, exe)
    return exe


# ----------------------------------------------------------------------------- Lean
def strip_lean_comments(src):
    # remove /- ... -/ (nested not handled beyond one level of practical use) and -- ...
    out = []
    i, n, depth = 0, len(src), 0
    while i < n:
        if src.startswith("/-", i):
            depth += 1
            i += 2
        elif depth and src.startswith("-/", i):
            depth -= 1
            i += 2
        elif depth:
            if src[i] == "\n":
                out.append("\n")
            i += 1
        elif src.startswith("--", i):
            while i < n and src[i] != "\n":
                i += 1
        else:
            out.append(src[i])
            i += 1
    return "".join(out)


def lean_module_files(module):
    """All project-local .lean files transitively imported by `module` (e.g. SvtVerif.Props.C22)."""
    seen, todo = [], [module]
    while todo:
        m = todo.pop()
        p = os.path.join(LEAN, m.replace(".", "/") + ".lean")
        if not os.path.exists(p) or p in seen:
            continue
        seen.append(p)
        for line in open(p):
            mm = re.match(r"\s*(?:public\s+)?import\s+([\w.]+)", line)
            if mm and (mm.group(1).startswith("SvtVerif") or mm.group(1).startswith("Driver")):
                todo.append(mm.group(1))
    return seen


def lean_forbidden(module):
    hits = []
    for f in lean_module_files(module):
        src = strip_lean_comments(open(f).read())
        for m in FORBIDDEN.finditer(src):
            line = src.count("\n", 0, m.start()) + 1
            hits.append("%s:%d: %s" % (os.path.relpath(f, VERIF), line, m.group(0).strip()))
    return hits


def lean_build(targets):
    """lake build <targets>; returns (ok, output)."""
    if isinstance(targets, str):
        targets = [targets]
    with FileLock("lake"):
        rc, out = sh(["lake", "build"] + targets, cwd=LEAN, timeout=3600)
    return rc == 0, out


def lean_theorems(module):
    """Names of the theorems stated in a Props module (these are the proof obligations)."""
    p = os.path.join(LEAN, module.replace(".", "/") + ".lean")
    src = strip_lean_comments(open(p).read())
    ns = []
    names = []
    for line in src.split("\n"):
        m = re.match(r"\s*namespace\s+([\w.]+)", line)
        if m:
            ns.append(m.group(1))
            continue
        m = re.match(r"\s*end\s+([\w.]+)\s*$", line)
        if m and ns and ns[-1] == m.group(1):
            ns.pop()
            continue
        m = re.match(r"\s*(?:@\[[^\]]*\]\s*)?(?:private\s+|protected\s+)?theorem\s+([\w.']+)", line)
        if m:
            names.append(".".join(ns + [m.group(1)]))
    return names


def lean_axioms(module, theorems):
    """Run `#print axioms` for each theorem; returns {thm: set(axioms)} (None if unknown)."""
    os.makedirs(os.path.join(CACHE, "audit"), exist_ok=True)
    f = os.path.join(CACHE, "audit", module.replace(".", "_") + ".lean")
    with open(f, "w") as fh:
        fh.write("import %s\n" % module)
        for t in theorems:
            fh.write("#print axioms %s\n" % t)
    with FileLock("lake"):
        rc, out = sh(["lake", "env", "lean", f], cwd=LEAN, timeout=1800)
    res = {t: None for t in theorems}
    # output: "'name' depends on axioms: [a, b]" or "'name' does not depend on any axioms"
    for m in re.finditer(r"'([^']+)' depends on axioms: \[([^\]]*)\]", out.replace("\n ", " ").replace("\n", " ")):
        res[m.group(1)] = set(x.strip() for x in m.group(2).split(",") if x.strip())
    for m in re.finditer(r"'([^']+)' does not depend on any axioms", out):
        res[m.group(1)] = set()
    return res, out


def lean_failed_theorems(module, build_out):
    """Map lake error lines to the enclosing theorem names (best effort)."""
    failed = {}
    for m in re.finditer(r"error: ([^\s:]+\.lean):(\d+):(\d+): (.*)", build_out):
        path, line = m.group(1), int(m.group(2))
        full = path if os.path.isabs(path) else os.path.join(LEAN, path)
        name = "?"
        try:
            lines = open(full).read().split("\n")
            for i in range(min(line, len(lines)) - 1, -1, -1):
                mm = re.match(r"\s*(?:@\[[^\]]*\]\s*)?(?:private\s+|protected\s+)?(theorem|lemma|def|example|instance)\s*([\w.']*)", lines[i])
                if mm:
                    name = mm.group(2) or mm.group(1)
                    break
        except OSError:
            pass
        failed.setdefault("%s:%s" % (os.path.basename(path), name), m.group(4)[:300])
    return failed


def ensure_driver():
    """Build the compiled model driver; returns path to exe."""
    ok, out = lean_build("svtmodel")
    exe = os.path.join(LEAN, ".lake", "build", "bin", "svtmodel")
    if not ok or not os.path.exists(exe):
        raise BuildError("svtmodel driver failed to build:\n" + out[-5000:])
    return exe


def run_model(sub, text, timeout=3600):
    exe = ensure_driver()
    p = subprocess.run([exe, sub], input=text.encode(), stdout=subprocess.PIPE, stderr=subprocess.PIPE, timeout=timeout)
    if p.returncode != 0:
        raise RuntimeError("svtmodel %s failed rc=%d: %s" % (sub, p.returncode, p.stderr.decode()[-2000:]))
    return p.stdout.decode()


class ProofResult:
    def __init__(self):
        self.module = None
        self.theorems = []
        self.discharged = []
        self.failed = {}      # name -> reason
        self.build_ok = False
        self.build_out = ""
        self.axioms = {}
        self.forbidden = []

    @property
    def ok(self):
        return self.build_ok and not self.failed and not self.forbidden and len(self.discharged) == len(self.theorems) and self.theorems


def check_proofs(module, leanchecker=False):
    """Obligations = theorems named in the Props module.  Build, grep, axiom-audit."""
    r = ProofResult()
    r.module = module
    r.theorems = lean_theorems(module)
    ok, out = lean_build(module)
    r.build_ok, r.build_out = ok, out
    r.forbidden = lean_forbidden(module)
    if not ok:
        r.failed = lean_failed_theorems(module, out) or {"build": out[-1500:]}
        return r
    ax, aout = lean_axioms(module, r.theorems)
    r.axioms = {k: sorted(v) if v is not None else None for k, v in ax.items()}
    for t in r.theorems:
        a = ax.get(t)
        if a is None:
            r.failed[t] = "axiom audit produced no result: " + aout[-300:]
        elif not a <= ALLOWED_AXIOMS:
            r.failed[t] = "depends on non-allowed axioms: %s" % sorted(a - ALLOWED_AXIOMS)
        else:
            r.discharged.append(t)
    if leanchecker and not r.failed:
        with FileLock("lake"):
            rc, o = sh(["lake", "env", "leanchecker", module], cwd=LEAN, timeout=3600)
        if rc != 0:
            r.failed["leanchecker"] = o[-800:]
    return r


TRUSTED_BASE = [
    "Lean 4.33.0 kernel (lake build; thorough tier also leanchecker)",
    "axioms allowed: propext, Classical.choice, Quot.sound (audited by #print axioms on every run); no native_decide / bv_decide / sorry / own axioms",
]


# ----------------------------------------------------------------------------- findings / evidence / verdict
def known_findings(pid):
    p = os.path.join(VERIF, "known_findings.txt")
    res = []
    if os.path.exists(p):
        for line in open(p):
            line = line.strip()
            if line.startswith("finding:") and ("property=%s " % pid) in line + " ":
                m = re.search(r"key=(\S+)", line)
                res.append({"key": m.group(1) if m else None, "text": line[len("finding:"):].strip()})
    return res


class Check:
    """One run of one property's check."""

    def __init__(self, pid, tier, level):
        self.pid, self.tier, self.level = pid, tier, level
        self.seed = seed_from_env()
        self.rng = Rng(self.seed ^ (int(hashlib.sha256(pid.encode()).hexdigest()[:8], 16)))
        self.t0 = time.time()
        self.cov = {"samples": []}
        self.assumptions = []
        self.violations = []   # (replay_path, suffix)
        self.known = known_findings(pid)
        self.known_hit = []
        os.makedirs(EVID, exist_ok=True)
        os.makedirs(REPLAY, exist_ok=True)

    # -- proof part
    def proofs(self, module, trusted_extra=()):
        r = check_proofs(module, leanchecker=(self.tier == "thorough"))
        self.cov["obligations"] = self.cov.get("obligations", 0) + max(len(r.theorems), 1)
        self.cov["discharged"] = self.cov.get("discharged", 0) + len(r.discharged)
        self.cov["checker_cmd"] = "cd lean && lake build %s && lake env lean <#print axioms for every theorem>" % module + (" && lake env leanchecker %s" % module if self.tier == "thorough" else "")
        tb = self.cov.setdefault("trusted_base", list(TRUSTED_BASE))
        for x in trusted_extra:
            if x not in tb:
                tb.append(x)
        self.cov.setdefault("theorems", []).extend(r.theorems)
        self.cov.setdefault("axioms", {}).update({k: v for k, v in r.axioms.items()})
        if r.forbidden:
            self.cov["forbidden_tokens"] = r.forbidden
        self.proof_result = r
        return r

    def sample(self, s, cap=8):
        if len(self.cov["samples"]) < cap:
            self.cov["samples"].append(s)

    def count(self, key, n=1):
        self.cov[key] = self.cov.get(key, 0) + n

    def replay_path(self, tag="replay"):
        return os.path.join(REPLAY, "%s_%s_%s_%d.txt" % (self.pid, self.tier, tag, self.seed))

    def violation(self, replay_text, tag="replay", found_input=True, key=None):
        """Record a violation unless it is a listed known finding (matched by key)."""
        if key is not None:
            for k in self.known:
                if k["key"] == key:
                    if key not in [x["key"] for x in self.known_hit]:
                        self.known_hit.append(k)
                    return False
        p = self.replay_path(tag if not self.violations else "%s%d" % (tag, len(self.violations)))
        with open(p, "w") as fh:
            fh.write(replay_text if replay_text.endswith("\n") else replay_text + "\n")
        self.violations.append((p, "" if found_input else " no-failing-input-found"))
        return True

    def finish(self):
        wall = time.time() - self.t0
        ev = {"property_id": self.pid, "tier": self.tier, "seed": self.seed, "level": self.level,
              "coverage": self.cov, "assumptions": self.assumptions, "wall_s": round(wall, 2),
              "violations": len(self.violations)}
        if self.known_hit:
            ev["coverage"]["known_findings_reproduced"] = [k["text"] for k in self.known_hit]
        with open(os.path.join(EVID, self.pid + ".json"), "w") as fh:
            json.dump(ev, fh, indent=1, sort_keys=True, default=str)
            fh.write("\n")
        for k in self.known_hit:
            t = k["text"]
            print("KNOWN-FINDING: %s" % (t if t.startswith("property=") else "property=%s %s" % (self.pid, t)))
        for p, suffix in self.violations:
            print("VIOLATION property=%s replay=%s%s" % (self.pid, p, suffix))
        print("[%s %s] %s in %.1fs  (obligations %s/%s, evaluations %s)" % (
            self.pid, self.tier, "FAIL" if self.violations else "ok", wall,
            self.cov.get("discharged", "-"), self.cov.get("obligations", "-"), self.cov.get("evaluations", "-")))
        sys.stdout.flush()
        return 1 if self.violations else 0


# ----------------------------------------------------------------------------- real-encoder harness
def gen_src_dir():
    d = os.path.join(CACHE, "gen_src")
    os.makedirs(d, exist_ok=True)
    return d


def e2e_exe(flavour="rel"):
    """Compile harness/enc_e2e.c against the current tree's static libraries."""
    sys.path.insert(0, os.path.join(VERIF, "xlate"))
    import cfgfields
    hdr = os.path.join(gen_src_dir(), "cfg_fields.h")
    txt = cfgfields.xmacro_header()
    if not os.path.exists(hdr) or open(hdr).read() != txt:
        open(hdr, "w").write(txt)
    return compile_harness("enc_e2e_" + flavour, [os.path.join(VERIF, "harness", "enc_e2e.c")],
                           libs=["libSvtAv1Enc.a", "libSvtAv1Dec.a"], flavour=flavour,
                           extra=["-I" + gen_src_dir()])


def parse_e2e(out):
    """Canonical lines -> dict of lists."""
    r = {"PKT": [], "RECON": [], "DEC": [], "CMP": [], "ERR": [], "HEX": {}, "HDR": None, "END": None, "SETPARAM": None,
         "CFG": {}, "TIMEOUT": False, "HDRHEX": None, "raw": out}
    for line in out.split("\n"):
        ws = line.split()
        if not ws:
            continue
        k = ws[0]
        try:
            _parse_e2e_line(r, k, ws)
        except (IndexError, ValueError):
            pass     # a library log line that happens to start with one of our keywords
    return r


def _parse_e2e_line(r, k, ws):
    if True:
        if k == "PKT":
            r["PKT"].append({"i": int(ws[1]), "pts": int(ws[2]), "dts": int(ws[3]), "flags": int(ws[4]), "pic_type": int(ws[5]),
                             "qp": int(ws[6]), "size": int(ws[7]), "crc": ws[8], "luma_sse": int(ws[9]), "cb_sse": int(ws[10]),
                             "cr_sse": int(ws[11]), "priv": int(ws[12])})
        elif k == "RECON":
            r["RECON"].append({"i": int(ws[1]), "pts": int(ws[2]), "size": int(ws[3]), "crc": ws[4], "flags": int(ws[5])})
        elif k == "DEC":
            r["DEC"].append({"i": int(ws[1]), "crc": ws[2], "w": int(ws[3]), "h": int(ws[4])})
        elif k == "CMP":
            r["CMP"].append((int(ws[1]), " ".join(ws[2:])))
        elif k == "ERR":
            r["ERR"].append(" ".join(ws[1:]))
        elif k == "HEX":
            r["HEX"][int(ws[1])] = ws[2] if len(ws) > 2 else ""
        elif k == "HDR":
            r["HDR"] = (int(ws[1]), ws[2])
        elif k == "HDRHEX":
            r["HDRHEX"] = ws[1] if len(ws) > 1 else ""
        elif k == "END":
            r["END"] = " ".join(ws[1:])
        elif k == "SETPARAM":
            r["SETPARAM"] = int(ws[1], 16)
        elif k == "CFG":
            r["CFG"][ws[1]] = int(ws[2])
        elif k == "TIMEOUT":
            r["TIMEOUT"] = True


_RETRY_LOCK = None


def run_e2e(args, flavour="rel", timeout=600, env=None, retry_hung=True):
    """args: dict key->value (cfg.<field> allowed).  Returns parsed result (+ rc, crashed).

    A run that hits its watchdog is repeated ONCE, alone (serialised across this process's threads) and with four times the
    watchdog, before it is reported as hung: on a loaded machine a watchdog hit is not evidence of a hang (DESIGN R6).  A real
    hang hangs again and is reported; `r["retried"]` says the first attempt timed out."""
    global _RETRY_LOCK
    r = _run_e2e_once(args, flavour, timeout, env)
    if r["hung"] and retry_hung:
        import threading
        if _RETRY_LOCK is None:
            _RETRY_LOCK = threading.Lock()
        a2 = dict(args)
        try:
            a2["watchdog"] = int(a2.get("watchdog", 120)) * 4
        except (TypeError, ValueError):
            pass
        with _RETRY_LOCK:
            r2 = _run_e2e_once(a2, flavour, timeout * 4, env)
        r2["retried"] = True
        r2["first_attempt_argv"] = r["argv"]
        return r2
    return r


def _run_e2e_once(args, flavour, timeout, env):
    # default: non-blocking final drain.  The documented blocking final svt_av1_enc_get_packet can deadlock against the recon pool
    # when recon_enabled=1 (genuine library defect, recorded under C27 / C03 F19); only the checks that study it ask for final_nb=0.
    args = dict(args)
    args.setdefault("final_nb", 1)
    exe = e2e_exe(flavour)
    argv = [exe] + ["%s=%s" % (k, v) for k, v in args.items()]
    e = dict(os.environ)
    e["ASAN_OPTIONS"] = "detect_leaks=0:abort_on_error=0:halt_on_error=1"
    if env:
        e.update(env)
    try:
        p = subprocess.run(argv, stdout=subprocess.PIPE, stderr=subprocess.PIPE, timeout=timeout, env=e)
        out, err, rc = p.stdout.decode("utf-8", "replace"), p.stderr.decode("utf-8", "replace"), p.returncode
    except subprocess.TimeoutExpired as ex:
        out = (ex.stdout or b"").decode("utf-8", "replace")
        err, rc = "[harness wall-clock timeout]", 124
    r = parse_e2e(out)
    r["rc"], r["stderr"], r["argv"] = rc, err[-3000:], " ".join(argv[1:])
    r["crashed"] = rc not in (0, 3, 124)
    r["hung"] = rc in (3, 124) or r["TIMEOUT"]
    return r


def e2e_signature(r):
    """What must be identical between two runs that the properties call 'same output'."""
    return (tuple((p["pts"], p["flags"], p["size"], p["crc"]) for p in r["PKT"]),
            tuple(sorted((x["pts"], x["crc"]) for x in r["RECON"])))


def run_parallel(fn, items, workers=None):
    from concurrent.futures import ThreadPoolExecutor
    with ThreadPoolExecutor(max_workers=workers or max(1, NCPU // 4)) as ex:
        return list(ex.map(fn, items))
