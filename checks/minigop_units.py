"""Unit-level correspondence for the pre-assignment buffer of picture_decision_kernel (C03, Model/MiniGop.lean).

    from . import minigop_units as M
    r = M.run_minigop_unit(chk)      # generated C program with the REAL code pieces (harness/minigop_extract.py) vs `svtmodel packetize` (MG lines, Driver/MiniGop.lean)

Returns a dict: ops, disagreements [(input, c_line, model_line)], oracle_failures [(input, text)], hist, sample.
The oracle is C03's flush statement on the C output: for a stream whose last picture carries the EOS flag every picture was handed to
send_picture_out exactly once, the buffer is empty and prev_delayed_intra is NULL.  Nothing here decides the verdict.
"""
import os
import sys

from . import common as C

sys.path.insert(0, os.path.join(C.VERIF, "harness"))


def gen_lines(chk):
    r = chk.rng
    quick = chk.tier == "quick"
    lines, meta = [], []
    for rep in range(400 if quick else 6000):
        L = r.range(0, 5)
        m = 1 << L
        low = 1 if r.chance(1, 8) else 0
        P = r.choice([-1, 0, 1, 2, 3, 5, 7, 8, m - 1, m, 2 * m - 1, 31, 64])
        period = r.choice([m, m, m, 1, 2 * m])
        n = r.choice([1, 2, 3, m - 1, m, m + 1, 2 * m, 2 * m + 1, 3 * m + 2, r.range(1, 130)])
        n = max(1, n)
        mode = r.below(4)          # 0/1: periodic intra as the encoder produces; 2: random flags; 3: no EOS / EOS early (fuzz)
        use_cra = r.chance(1, 2)
        fl = []
        for k in range(n):
            if mode in (0, 1):
                intra = (k == 0) or (P >= 0 and k % (P + 1) == 0)
                idr = 1 if (k == 0 or (intra and not use_cra)) else 0
                cra = 1 if (intra and not idr) else 0
            else:
                idr = 1 if (k == 0 or r.chance(1, 9)) else 0
                cra = 1 if r.chance(1, 9) else 0
            eos = 1 if k == n - 1 else 0
            if mode == 3:
                eos = 1 if r.chance(1, 12) else 0
            fl.append("%d %d %d" % (idr, cra, eos))
        valid = mode != 3
        lines.append("MG %d %d %d %d %d %s" % (L, low, P, period, n, " ".join(fl)))
        meta.append((valid, n, L, n % m))
    lines.append("MG 9 0 0 0 0")
    meta.append((False, 0, 0, 0))
    return lines, meta


def run_minigop_unit(chk):
    import minigop_extract
    path = minigop_extract.write_source(os.path.join(C.CACHE, "gen_src"))
    exe = C.compile_harness("minigop", [path])
    lines, meta = gen_lines(chk)
    text = "\n".join(lines) + "\n"
    rc, cout = C.sh([exe], input=text.encode())
    cl = [l for l in cout.split("\n") if l != ""]
    ml = [l for l in C.run_model("packetize", text).split("\n") if l != ""]
    res = {"ops": len(lines), "disagreements": [], "oracle_failures": [], "hist": {"levels": {}, "n_mod_minigop": {}, "delayed_left": 0, "valid": 0}, "pictures": 0}
    if len(cl) != len(lines) or len(ml) != len(lines):
        res["disagreements"].append(("<line count>", "C %d lines (rc=%s)" % (len(cl), rc), "model %d lines for %d ops" % (len(ml), len(lines))))
        return res
    for line, (valid, n, L, rem), c, m in zip(lines, meta, cl, ml):
        if c != m:
            res["disagreements"].append((line[:400], c[:300], m[:300]))
        res["pictures"] += n
        if c.endswith("D -1") is False and c.startswith("S "):
            res["hist"]["delayed_left"] += 1
        if valid:
            res["hist"]["valid"] += 1
            res["hist"]["levels"][str(L)] = res["hist"]["levels"].get(str(L), 0) + 1
            res["hist"]["n_mod_minigop"][str(rem)] = res["hist"]["n_mod_minigop"].get(str(rem), 0) + 1
            w = c.split()
            try:
                k = int(w[1])
                sent = sorted(int(x) for x in w[2:2 + k])
                rest = w[2 + k:]
                ok = sent == list(range(n)) and rest[:2] == ["B", "0"] and rest[-2:] == ["D", "-1"]
            except (ValueError, IndexError):
                ok = False
            if not ok:
                res["oracle_failures"].append((line[:400], "real pre-assignment code: not every picture sent exactly once / buffer or prev_delayed_intra not empty after EOS: %s" % c[:300]))
    res["sample"] = {"op": lines[3][:160], "c": cl[3][:160], "model": ml[3][:160]}
    return res
