"""C13 — the configuration filled in by svt_av1_enc_init_handle is complete and well defined.

(1) regenerate Gen/Config.lean from /repo (same translator as C12: `initParam` = svt_svt_enc_init_parameter, members the C function does
    not assign keep the caller's value in the model) and check Props/C13.lean (defaults_total, every_member_assigned, defaults_accepted,
    accepted_whatever_the_prior_memory, defaults_match_doc ...);
(2) correspondence: harness/defaults.c fills the caller's EbSvtAv1EncConfiguration with 0x00/0xFF/0x5A/0x01/other bytes, random bytes,
    the left-over of another configuration, calls the REAL svt_av1_enc_init_handle and dumps every member; compared line by line with
    `svtmodel config DUMP`;
(3) the property's own oracle on the REAL outputs: (a) every member, every array cell, the 2-pass buffer descriptor and every byte of
    pred_struct[] identical whatever the prior contents; (b) width/height set on top of the returned defaults -> the REAL
    svt_av1_enc_set_parameter accepts, for every fill; (c) real 3-frame encodes whose configuration memory was pre-filled differently
    produce byte-identical packets and reconstructions;
(4) documented defaults (Docs/svt-av1_encoder_user_guide.md, parsed at run time) vs the REAL defaults; mismatches are recorded findings.
"""
import os
import re
import subprocess
import time
from . import common as C
from . import configcommon as K

LEVEL = "proof"
MODULE = "SvtVerif.Props.C13"
REAL_ONLY = ("pred_struct_fill", "pred_struct_crc")
DOC = "Docs/svt-av1_encoder_user_guide.md"

# documented parameter (user guide, "Configuration file parameter" column) -> (member, factor doc unit -> member unit)
DOC_MEMBERS = [
    ("EncoderColorFormat", "encoder_color_format", 1), ("Profile", "profile", 1), ("FrameRate", "frame_rate", 1),
    ("FrameRateNumerator", "frame_rate_numerator", 1), ("FrameRateDenominator", "frame_rate_denominator", 1),
    ("EncoderBitDepth", "encoder_bit_depth", 1), ("Encoder16BitPipeline", "is_16bit_pipeline", 1),
    ("HierarchicalLevels", "hierarchical_levels", 1), ("PredStructure", "pred_structure", 1),
    ("HighDynamicRangeInput", "high_dynamic_range_input", 1), ("LogicalProcessorNumber", "logical_processors", 1),
    ("UnpinExecution", "unpin", 1), ("TargetSocket", "target_socket", 1), ("RateControlMode", "rate_control_mode", 1), ("QP", "qp", 1),
    ("TargetBitRate", "target_bit_rate", 1000), ("UseQpFile", "use_qp_file", 1), ("AdaptiveQuantization", "enable_adaptive_quantization", 1),
    ("UseFixedQIndexOffsets", "use_fixed_qindex_offsets", 1), ("KeyFrameQIndexOffset", "key_frame_qindex_offset", 1),
    ("KeyFrameChromaQIndexOffset", "key_frame_chroma_qindex_offset", 1), ("VBRBiasPct", "vbr_bias_pct", 1),
    ("MinSectionPct", "vbr_min_section_pct", 1), ("MaxSectionPct", "vbr_max_section_pct", 1), ("UnderShortPct", "under_shoot_pct", 1),
    ("OverShortPct", "over_shoot_pct", 1), ("RecodeLoop", "recode_loop", 1), ("IntraPeriod", "intra_period_length", 1),
    ("IntraRefreshType", "intra_refresh_type", 1), ("EncoderMode", "enc_mode", 1), ("CompressedTenBitFormat", "compressed_ten_bit_format", 1),
    ("TileRow", "tile_rows", 1), ("TileCol", "tile_columns", 1), ("LookAheadDistance", "look_ahead_distance", 1),
    ("LoopFilterDisable", "disable_dlf_flag", 1), ("EnableTPLModel", "enable_tpl_la", 1), ("CDEFLevel", "cdef_level", 1),
    ("RestorationFilter", "enable_restoration_filtering", 1), ("SelfGuidedFilterMode", "sg_filter_mode", 1),
    ("WienerFilterMode", "wn_filter_mode", 1), ("Mfmv", "enable_mfmv", 1), ("RedundantBlock", "enable_redundant_blk", 1),
    ("SpatialSSEfl", "spatial_sse_full_loop_level", 1), ("OverBoundryBlock", "over_bndry_blk", 1),
    ("NewNearestCombInjection", "new_nearest_comb_inject", 1), ("NsqTable", "nsq_table", 1), ("FrameEndCdfUpdate", "frame_end_cdf_update", 1),
    ("ChromaMode", "set_chroma_mode", 1), ("DisableCfl", "disable_cfl_flag", 1), ("LocalWarpedMotion", "enable_warped_motion", 1),
    ("GlobalMotion", "enable_global_motion", 1), ("PicBasedRateEst", "pic_based_rate_est", 1), ("IntraAngleDelta", "intra_angle_delta", 1),
    ("InterIntraCompound", "inter_intra_compound", 1), ("Paeth", "enable_paeth", 1), ("Smooth", "enable_smooth", 1),
    ("MultiReferencePictures", "mrp_level", 1), ("Obmc", "obmc_level", 1), ("RDOQ", "rdoq_level", 1), ("FilterIntra", "filter_intra_level", 1),
    ("IntraEdgeFilter", "enable_intra_edge_filter", 1), ("PredMe", "pred_me", 1), ("Bipred3x3", "bipred_3x3_inject", 1),
    ("CompoundLevel", "compound_level", 1), ("UseDefaultMeHme", "use_default_me_hme", 1), ("HME", "enable_hme_flag", 1),
    ("HMELevel0", "enable_hme_level0_flag", 1), ("ScreenContentMode", "screen_content_mode", 1), ("IntraBCMode", "intrabc_mode", 1),
    ("HighBitDepthModeDecision", "enable_hbd_mode_decision", 1), ("PaletteLevel", "palette_level", 1),
    ("UnrestrictedMotionVector", "unrestricted_motion_vector", 1), ("SpeedControlFlag", "speed_control_flag", 1),
    ("FilmGrain", "film_grain_denoise_strength", 1), ("AltRefLevel", "tf_level", 1), ("AltRefStrength", "altref_strength", 1),
    ("AltRefNframes", "altref_nframes", 1), ("EnableOverlays", "enable_overlays", 1), ("ChannelNumber", "active_channel_count", 1),
    ("StatReport", "stat_report", 1),
]


def defaults_exe():
    C.e2e_exe()   # writes the current cfg_fields.h (X-macro list of the struct members of the current header)
    return C.compile_harness("defaults", [os.path.join(C.VERIF, "harness", "defaults.c")], libs=["libSvtAv1Enc.a"],
                             extra=["-I" + C.gen_src_dir()])


def run_defaults(lines, timeout=900):
    exe = defaults_exe()
    try:
        p = subprocess.run([exe], input=("\n".join(lines) + "\n").encode(), stdout=subprocess.PIPE, stderr=subprocess.PIPE, timeout=timeout)
        return p.stdout.decode("utf-8", "replace"), p.returncode
    except subprocess.TimeoutExpired as ex:
        return (ex.stdout or b"").decode("utf-8", "replace"), 124


def split_dumps(out, n):
    """n DUMP answers -> list of [(name, value)] (None where the harness did not answer with a dump)."""
    res, cur = [], []
    for line in out.split("\n"):
        if line == "END":
            res.append(cur)
            cur = []
        elif line in ("bad-op", "BLOCKED") or line.startswith("init-handle-failed"):
            res.append(None)
            cur = []
        elif line:
            ws = line.split()
            if len(ws) == 2:
                cur.append((ws[0], ws[1]))
    while len(res) < n:
        res.append(None)
    return res


def doc_defaults():
    """-> {doc parameter: (line number, default cell text)} from the user guide tables."""
    res = {}
    p = os.path.join(C.REPO, DOC)
    if not os.path.exists(p):
        return res
    for i, l in enumerate(open(p, errors="replace"), 1):
        if l.startswith("| **") and "Configuration file parameter" not in l:
            c = [x.strip() for x in l.strip().strip("|").split("|")]
            if len(c) >= 5:
                res.setdefault(c[0].strip("*").strip(), (i, c[3]))
    return res


def fills_for(chk):
    r = chk.rng
    if chk.tier == "quick":
        bytes_ = [0x00, 0xFF, 0x5A, 0x01, 0x80, 0x7F, 0xAA] + [r.range(2, 254) for _ in range(3)]
        nr, nl = 8, 8
    else:
        bytes_ = list(range(256))
        nr, nl = 150, 150
    fl = [str(b) for b in dict.fromkeys(bytes_)]
    fl += ["R%d" % r.range(1, 10 ** 9) for _ in range(nr)]
    fl += ["L%d" % r.range(1, 10 ** 9) for _ in range(nl)]
    fl += ["V0", "V1", "V2", "V3"]
    return fl


def sizes_for(chk):
    r = chk.rng
    s = [(64, 64), (128, 64), (64, 128), (66, 66), (192, 128), (1920, 1080), (4096, 2160), (64, 2160), (4096, 64), (1280, 720), (4094, 2158)]
    for _ in range(6 if chk.tier == "quick" else 60):
        s.append((2 * r.range(32, 2048), 2 * r.range(32, 1080)))
    return s


# sizes the code rejects: they make sure the ACCEPT verdict is not constant
BAD_SIZES = [(62, 64), (64, 62), (65, 64), (64, 65), (4098, 64), (64, 2162), (0, 0)]


def fill_kind(f):
    return {"R": "random-bytes", "L": "left-over-scribbled", "V": "left-over-plausible"}.get(f[0], "memset")


def e2e_matrix(chk):
    """(label, args) x fills.  Random fills (`dirty=-2`) derive from `seed`, which also seeds noise content: the cases that vary the
    seed use seed-independent content (2: gradient/pan, 3: checker)."""
    base = [
        ("128x64 8-bit noise", dict(w=128, h=64, n=3, bd=8, content=0)),
        ("64x64 1-thread 10-bit gradient", dict(w=64, h=64, n=3, bd=10, content=2, **{"cfg.logical_processors": 1})),
        # rate control feeds encoded sizes back into later decisions: keep it single-threaded so that the comparison across fills is not a determinism test (C04/C05)
        ("192x128 checker VBR 1-thread", dict(w=192, h=128, n=3, bd=8, content=3, **{"cfg.rate_control_mode": 1, "cfg.target_bit_rate": 300000, "cfg.logical_processors": 1})),
    ]
    if chk.tier != "quick":
        base += [
            ("136x72 preset 4 gradient", dict(w=136, h=72, n=5, bd=8, content=2, **{"cfg.enc_mode": 4})),
            ("128x128 fixed offsets", dict(w=128, h=128, n=4, bd=8, content=2, **{"cfg.use_fixed_qindex_offsets": 1, "cfg.qp": 40})),
            ("256x64 CVBR checker 1-thread", dict(w=256, h=64, n=4, bd=8, content=3, **{"cfg.rate_control_mode": 2, "cfg.target_bit_rate": 500000, "cfg.logical_processors": 1})),
        ]
    byte_fills = [-1, 0, 255, 0x5A, 1] if chk.tier == "quick" else [-1, 0, 255, 0x5A, 1, 0x80, 0x7F, 0xAA, 2]
    nrand = 2 if chk.tier == "quick" else 6
    jobs = []
    for label, a in base:
        # prior caller memory vs output: compared at one worker per stage (the encoder is not run-to-run deterministic with
        # logical_processors >= 2 and TPL on: recorded finding C04-tpl-nondeterministic-lp2plus)
        a = dict(a)
        a.setdefault("cfg.logical_processors", 1)
        seed_free = a["content"] in (2, 3)
        for d in byte_fills:
            jobs.append((label, dict(a, dirty=d, seed=7, hex=1, recon=1, decode=0, watchdog=150)))
        if seed_free:
            for k in range(nrand):
                jobs.append((label, dict(a, dirty=-2, seed=chk.rng.range(1, 10 ** 9), hex=1, recon=1, decode=0, watchdog=150)))
    return jobs


def describe(a):
    return " ".join("%s=%s" % kv for kv in a.items())


def run(chk):
    phase, t_ph = {}, [time.time()]

    def mark(name):
        phase[name] = round(time.time() - t_ph[0], 1)
        t_ph[0] = time.time()
    g, terr = K.regenerate()
    pr = chk.proofs(MODULE, trusted_extra=K.TRUSTED + [
        "harness/defaults.c: real svt_av1_enc_init_handle on pre-filled caller memory, member-wise dump through the X-macro list generated from the current header",
        "harness/enc_e2e.c (dirty=<byte>|-2): real encodes on pre-filled configuration memory"]) if g else None
    model_ok = bool(g) and pr.build_ok
    mark("regenerate+proofs")

    # ---------------------------------------------------------------- member-wise dumps
    fills = fills_for(chk)
    out, rc = run_defaults(["DUMP %s" % f for f in fills] + ["PAD 0 255"])
    dumps = split_dumps(out, len(fills))
    pad = K.kv([l for l in out.split("\n") if l.startswith("differing_bytes=")][-1]) if "differing_bytes=" in out else {}
    harness_problem = [f for f, d in zip(fills, dumps) if d is None]
    # the dump must cover the struct: every declared member is either in the X-macro list or one of the two aggregate members
    import cfgfields
    declared = cfgfields.fields()
    aggregates = sorted(f["name"] for f in declared if f["struct"])
    coverage_gap = []
    if aggregates != ["pred_struct", "rc_twopass_stats_in"]:
        coverage_gap.append("aggregate members of EbSvtAv1EncConfiguration are %s; harness/defaults.c dumps only rc_twopass_stats_in and pred_struct" % aggregates)
    ref = next((d for d in dumps if d is not None), None)
    if ref is not None:
        dumped = set(re.sub(r"\[\d+\]$", "", n) for n, _ in ref)
        for f in declared:
            if not f["struct"] and f["name"] not in dumped:
                coverage_gap.append("member %s is not dumped" % f["name"])
    # (a) oracle on the REAL output: identical whatever the prior contents
    dep = []      # (member, fillA, valueA, fillB, valueB)
    ref_fill = None
    for f, d in zip(fills, dumps):
        if d is None:
            continue
        if ref_fill is None:
            ref_fill, ref = f, d
            continue
        if d != ref:
            da, db = dict(ref), dict(d)
            for n in list(da) + [k for k in db if k not in da]:
                if da.get(n) != db.get(n):
                    dep.append((n, ref_fill, da.get(n), f, db.get(n)))
    # correspondence with the generated model: byte fills against `initParam (fillByte b)`, every other fill against the model's
    # (fill-independent, by defaults_total) value
    corr = []
    n_member_cmp = 0
    if model_ok:
        byte_fills = [f for f in fills if f.isdigit()]
        mout = K.run_model(["DUMP %s" % f for f in byte_fills])
        mdumps = split_dumps("\n".join(mout), len(byte_fills))
        mby = dict(zip(byte_fills, mdumps))
        for f, d in zip(fills, dumps):
            if d is None:
                continue
            md = mby.get(f if f.isdigit() else "0")
            real = [(n, v) for n, v in d if n not in REAL_ONLY]
            n_member_cmp += len(real)
            # (the model lists members in declaration order, the X-macro dump lists scalars first: compare as maps)
            mm, rr = dict(md or []), dict(real)
            if md is None or mm != rr or len(md) != len(real):
                names = [n for n in list(rr) + [k for k in mm if k not in rr] if mm.get(n) != rr.get(n)]
                corr.append((f, [(n, mm.get(n), rr.get(n)) for n in names[:6]] or "duplicate or missing lines: model %d real %d" % (len(md or []), len(real))))
    mark("dumps")
    # ---------------------------------------------------------------- (b) defaults + width/height accepted by the real API
    sizes = sizes_for(chk)
    acc_fills = [f for f in fills if f in ("0", "255", "90", "1")] + [f for f in fills if f[0] in "RL"][: (4 if chk.tier == "quick" else 40)] + ["V0", "V1", "V2", "V3"]
    acc_lines = [(f, w, h, True) for f in acc_fills for (w, h) in sizes] + [(f, w, h, False) for f in ("0", "255") for (w, h) in BAD_SIZES]
    aout, arc = run_defaults(["ACCEPT %s %d %d" % (f, w, h) for f, w, h, _ in acc_lines])
    ares = [l for l in aout.split("\n") if l]
    not_accepted, not_rejected, acc_corr = [], [], []
    for i, (f, w, h, good) in enumerate(acc_lines):
        got = K.kv(ares[i]) if i < len(ares) else {}
        if good and got.get("accept") != "1":
            not_accepted.append((f, w, h, ares[i] if i < len(ares) else "no answer (rc=%s)" % arc))
        if not good and got.get("accept") != "0":
            not_rejected.append((f, w, h, ares[i] if i < len(ares) else "no answer"))
    if model_ok:
        mlines = ["CASE %s source_width=%d source_height=%d" % (f if f.isdigit() else "0", w, h) for f, w, h, _ in acc_lines]
        mo = K.run_model(mlines)
        for i, (f, w, h, good) in enumerate(acc_lines):
            m = K.kv(mo[i]) if i < len(mo) else {}
            got = K.kv(ares[i]) if i < len(ares) else {}
            if m.get("accept") != got.get("accept"):
                acc_corr.append((f, w, h, mo[i] if i < len(mo) else None, ares[i] if i < len(ares) else None))
    mark("set_parameter")
    # ---------------------------------------------------------------- (c) real encodes
    jobs = e2e_matrix(chk)
    results = C.run_parallel(lambda j: C.run_e2e(j[1], timeout=400), jobs, workers=4)
    e2e_bad = []       # (label, args, what)
    groups = {}
    for (label, a), r in zip(jobs, results):
        if r["crashed"] or r["hung"] or r["SETPARAM"] != 0 or r["ERR"] or len(r["PKT"]) != a["n"] or len(r["HEX"]) != len(r["PKT"]):
            e2e_bad.append((label, a, "rc=%s hung=%s set_parameter=%s packets=%d/%d errors=%s %s" % (
                r["rc"], r["hung"], r["SETPARAM"], len(r["PKT"]), a["n"], r["ERR"][:3], r["stderr"][-300:] if r["crashed"] else "")))
            continue
        sig = (tuple(r["HEX"][i] for i in sorted(r["HEX"])), tuple((p["pts"], p["flags"], p["qp"]) for p in r["PKT"]),
               tuple(sorted((x["pts"], x["crc"]) for x in r["RECON"])), r["HDRHEX"] if r["HDRHEX"] is not None else r["HDR"])
        groups.setdefault(label, []).append((a, sig))
    e2e_diff = []
    out_bytes = 0
    for label, lst in groups.items():
        a0, s0 = lst[0]
        out_bytes += sum(len(h) // 2 for h in s0[0]) * len(lst)
        for a, s in lst[1:]:
            if s != s0:
                which = next((i for i in range(len(s0[0])) if i >= len(s[0]) or s[0][i] != s0[0][i]), None)
                e2e_diff.append((label, a0, a, "first differing packet: %s; recon equal: %s" % (which, s[2] == s0[2])))
    mark("encodes")
    # ---------------------------------------------------------------- (4) documented defaults
    dd = doc_defaults()
    realdef = dict(ref) if ref is not None else {}
    doc_cmp, doc_skipped, doc_dev = 0, [], []
    for name, member, factor in DOC_MEMBERS:
        if name not in dd or member not in realdef:
            doc_skipped.append(name)
            continue
        line, cell = dd[name]
        if not re.fullmatch(r"-?\d+", cell):
            doc_skipped.append(name)
            continue
        doc_cmp += 1
        if int(cell) * factor != int(realdef[member]):
            doc_dev.append((name, member, line, int(cell) * factor, int(realdef[member])))
    # the Lean statements defaults_match_doc / doc_default_deviations are a transcription of the same column: keep them honest
    spec_stale = []
    try:
        lsrc = C.strip_lean_comments(open(os.path.join(C.LEAN, "SvtVerif/Props/C13.lean")).read())
        raw = open(os.path.join(C.LEAN, "SvtVerif/Props/C13.lean")).read()
        i0, i1 = lsrc.find("theorem defaults_match_doc"), lsrc.find("theorem doc_default_deviations")
        lean_match = dict((m, int(v)) for m, v in re.findall(r"\(initParam c\)\.(\w+) = (-?\d+)", lsrc[i0:i1])) if 0 <= i0 < i1 else {}
        lean_dev_code = dict((m, int(v)) for m, v in re.findall(r"\(initParam c\)\.(\w+) = (-?\d+)", lsrc[i1:])) if i1 >= 0 else {}
        mdoc = re.search(r"DOC:((?: \w+=-?\d+)+)", raw)
        lean_dev_doc = dict((t.split("=")[0], int(t.split("=")[1])) for t in mdoc.group(1).split()) if mdoc else {}
    except OSError:
        lean_match, lean_dev_code, lean_dev_doc = {}, {}, {}
    if lean_match or lean_dev_code:
        for name, member, factor in DOC_MEMBERS:
            if name in dd and re.fullmatch(r"-?\d+", dd[name][1]):
                v = int(dd[name][1]) * factor
                if member in lean_match:
                    if lean_match[member] != v:
                        spec_stale.append("%s:%d %s documents %d, defaults_match_doc states %d" % (DOC, dd[name][0], name, v, lean_match[member]))
                elif member in lean_dev_doc:
                    if lean_dev_doc[member] != v:
                        spec_stale.append("%s:%d %s documents %d, doc_default_deviations records %d" % (DOC, dd[name][0], name, v, lean_dev_doc[member]))
                else:
                    spec_stale.append("%s:%d %s (member %s) is not transcribed in Props/C13.lean" % (DOC, dd[name][0], name, member))
        known = set(m for _n, m, _f in DOC_MEMBERS)
        spec_stale += ["Props/C13.lean mentions %s, which checks/c13.py does not map to a documented parameter" % m
                       for m in list(lean_match) + list(lean_dev_doc) if m not in known]
    chk.cov["documented_defaults_in_lean_statement"] = len(lean_match) + len(lean_dev_code)
    for name, member, line, dv, rv in doc_dev:
        chk.violation("documented default differs from the default svt_av1_enc_init_handle returns\n%s:%d: %s default %d; real default of %s is %d\n"
                      "replay: echo 'DUMP 0' | <defaults harness>\n" % (DOC, line, name, dv, member, rv), tag="docdefault", key="C13-docdefault-" + member)
    # ---------------------------------------------------------------- coverage
    n_dumps = sum(d is not None for d in dumps)
    chk.cov["evaluations"] = n_dumps + len(acc_lines) + len(jobs)
    chk.cov["distinct_nontrivial"] = len(set(f for f, d in zip(fills, dumps) if d is not None and f != "0")) + len(
        set((f, w, h) for f, w, h, _ in acc_lines)) + len(set(describe(a) for _, a in jobs))
    chk.cov["rule"] = ("prior contents of the caller's configuration memory: memset bytes (quick: 0x00 0xFF 0x5A 0x01 0x80 0x7F 0xAA + seeded; thorough: all 256), "
                       "seeded random bytes (R), left-over of a scribbled configuration with every member at a seeded extreme/small/random value (L), left-over of four "
                       "plausible previous configurations (V). Each: REAL svt_av1_enc_init_handle, member-wise dump compared across fills and with the generated "
                       "initParam; then REAL svt_av1_enc_set_parameter with width/height (boundary + seeded sizes); then REAL 3-frame encodes per fill compared "
                       "byte-wise. distinct_nontrivial = distinct non-zero fills dumped + distinct (fill,size) set_parameter calls + distinct encodes")
    chk.cov["fill_kinds"] = {k: sum(1 for f in fills if fill_kind(f) == k) for k in ("memset", "random-bytes", "left-over-scribbled", "left-over-plausible")}
    chk.cov["members_and_cells_per_dump"] = len(ref) if ref is not None else 0
    chk.cov["member_values_compared_with_model"] = n_member_cmp
    chk.cov["padding"] = pad
    chk.cov["set_parameter_calls"] = len(acc_lines)
    chk.cov["set_parameter_sizes"] = len(sizes)
    chk.cov["encodes"] = len(jobs)
    chk.cov["encode_groups"] = {k: len(v) for k, v in groups.items()}
    chk.cov["encoded_bytes_compared"] = out_bytes
    chk.cov["documented_defaults_compared"] = doc_cmp
    chk.cov["documented_defaults_not_numeric_or_absent"] = doc_skipped
    chk.cov["documented_default_deviations"] = ["%s:%d %s doc=%d real=%d" % (DOC, l, n, d, r) for n, _m, l, d, r in doc_dev]
    chk.cov["programs"] = 2
    chk.cov["phase_s"] = phase
    chk.cov["disagreements_checked"] = n_member_cmp + len(acc_lines)
    if ref is not None:
        chk.sample({"fill": ref_fill, "real_dump_head": ref[:6], "pred_struct": [x for x in ref if x[0] in REAL_ONLY]})
    if jobs and groups:
        lab = next(iter(groups))
        chk.sample({"encode": lab, "fills": [a["dirty"] for a, _ in groups[lab]], "packet0_prefix": groups[lab][0][1][0][0][:48]})
    chk.assumptions += ["prior contents are well-typed values of each member's C type (any bit pattern is: all members are integers, enums as uint32, one pointer)",
                        "padding bytes are never read by the library (member-wise copy_api_from_app); they keep the caller's bytes and are excluded from the comparison",
                        "set_parameter replay on a fresh handle (prior SCS = zero state), as in C12"]

    # ---------------------------------------------------------------- verdict
    if dep:
        n, fa, va, fb, vb = dep[0]
        chk.violation("a default returned by svt_av1_enc_init_handle depends on the prior contents of the caller's memory\nmember %s: %s after fill %s, %s after fill %s\n"
                      "members affected: %s\nreplay: printf 'DUMP %s\\nDUMP %s\\n' | <defaults harness> (fill syntax: harness/defaults.c)\n" %
                      (n, va, fa, vb, fb, sorted(set(x[0] for x in dep)), fa, fb))
    if not_accepted:
        f, w, h, got = not_accepted[0]
        chk.violation("defaults + width/height are not accepted by the real svt_av1_enc_set_parameter\nfill %s, source_width=%d source_height=%d: %s\n(%d such calls)\n"
                      "replay: echo 'ACCEPT %s %d %d' | <defaults harness>\n" % (f, w, h, got, len(not_accepted), f, w, h), tag="accept")
    if e2e_bad:
        label, a, what = e2e_bad[0]
        chk.violation("real encode on pre-filled configuration memory failed\n%s\nencode: %s\n%s\n(%d such encodes)\n" % (label, describe(a), what, len(e2e_bad)), tag="e2e")
    if e2e_diff:
        label, a0, a, what = e2e_diff[0]
        chk.violation("output depends on the prior contents of the configuration memory\n%s\nencode A: %s\nencode B: %s\n%s\n(%d differing pairs)\n" %
                      (label, describe(a0), describe(a), what, len(e2e_diff)), tag="e2ediff")
    found = dep or not_accepted or e2e_bad or e2e_diff
    if not found:
        if g is None:
            chk.violation("translator refused the current source: %s\nno prior memory contents found on which the real defaults differ (%d fills)\n" % (terr, n_dumps),
                          tag="xlate", found_input=False)
        elif not pr.ok:
            chk.violation("proof obligations no longer check on the regenerated model:\n%s\nforbidden tokens: %s\nno prior memory contents found on which the real "
                          "defaults, the real set_parameter verdict or the real output differ (%d fills, %d calls, %d encodes)\n" %
                          ("\n".join("%s: %s" % kv for kv in pr.failed.items()), pr.forbidden, n_dumps, len(acc_lines), len(jobs)), tag="proof", found_input=False)
        elif corr or acc_corr:
            chk.violation("generated model and real API disagree (translator validation failed); the real defaults do not depend on the prior contents\n%s\n%s\n" %
                          (corr[:2], acc_corr[:2]), tag="corr", found_input=False)
        elif spec_stale:
            chk.violation("the transcription of the documented defaults in Props/C13.lean no longer matches %s\n%s\n" % (DOC, "\n".join(spec_stale[:20])),
                          tag="spec", found_input=False)
        elif harness_problem or coverage_gap or not_rejected:
            chk.violation("defaults harness is not usable / does not cover the struct: no answer for fills %s (rc=%s); %s; sizes that should be rejected: %s\n" %
                          (harness_problem[:5], rc, coverage_gap[:5], not_rejected[:3]), tag="harness", found_input=False)


def replay(chk, path):
    run(chk)
