"""C27 — output and progress do not depend on how the application paces its calls.

(1) H-kahn, syntactic part (translator-lite): scan Source/Lib/{Encoder,Common} for every call of
    svt_get_full_object_non_blocking and every clock read / sleep, write the found sites (file, enclosing function, callee)
    to lean/SvtVerif/Gen/HKahn.lean; `C27.hkahn_syntactic` proves by `decide` that every site is on the reviewed allow-list
    lean/SvtVerif/Spec/HKahnAllow.lean.
(2) Lean: SvtVerif/Props/C27.lean (non-blocking getter on the C23 SRM model; Kahn argument output_indep_of_polling under
    the named hypothesis H-kahn; pool_sufficient_partial for an abstract linear chain).
(3) Oracle on the REAL encoder: call-pattern sweep through harness/enc_e2e.c — drain after every send / every k sends /
    only at the end / random polling with random delays; recon retrieval on / off; blocking vs non-blocking final drain;
    x stream lengths x thread counts.  Every run is under a watchdog.  "drain after every send" must complete; all patterns
    that complete must deliver byte-identical packets (and reconstructions where retrieved).
    Teardown without draining (finding F6, C15) is not in this property's alphabet and is never exercised here.
"""
import os
import re
import time
import zlib
from . import common as C

LEVEL = "other"


def e2e(args, timeout, env=None, retry=False):
    """C.run_e2e; retry=False switches off its automatic repetition of a timed-out run (alone, 4x watchdog): the runs that study
    the intermittent deadlock of the blocking final drain do their own reproduction."""
    try:
        return C.run_e2e(args, timeout=timeout, env=env, retry_hung=retry)
    except TypeError:
        return C.run_e2e(args, timeout=timeout, env=env)


MODULE = "SvtVerif.Props.C27"
PAR = 4
WATCHDOG = 150          # drain-after-each-send runs: >= 20x typical (typical 3-8 s)
WATCHDOG_END = 60       # "drain only at the end" may legitimately block once the pools are exhausted: shorter watchdog
KEY_DEADLOCK = "C27-blocking-get-packet-recon-pool-deadlock"
KEY_TPL = "C27-tpl-nondeterministic-lp2plus"
TPL = "cfg.enable_tpl_la"

EXPLANATION = (
    "LEVEL other: machine-checked are (a) the non-blocking getter on the C23 model of the system resource manager, for all "
    "interleavings (nonblocking_never_blocks, nonblocking_token_stable, nonblocking_returns_iff_available, idempotent_registration), "
    "(b) the Kahn argument output_indep_of_polling: under hypothesis H-kahn (each encoder stage is a prefix-monotone function of "
    "its input histories: no library code branches on emptiness of an application-facing queue or on time) every completing call "
    "pattern yields the same packet / recon sequences, (c) pool_sufficient_partial: an ABSTRACT linear chain with demands k_i <= "
    "pool_i never deadlocks when the application drains after each submission.  H-kahn is a hypothesis: its syntactic part "
    "(callers of the non-blocking getter, reviewed table of clock reads; speed-control path excluded by configuration) is "
    "re-checked on the source every run (hkahn_syntactic, `decide`), the rest is exercised by the call-pattern sweep on the real "
    "encoder.  The progress half for the REAL pipeline (pool sizes of load_default_buffer_configuration_settings vs worst-case "
    "occupancy) is NOT proved: the demands k_i are not instantiated from the code; it is exercised only (every "
    "drain-after-each-send run must complete under a watchdog).")

TIME_CALLEES = ["clock", "gettimeofday", "clock_gettime", "time", "svt_av1_get_time", "QueryPerformanceCounter", "GetTickCount",
                "GetTickCount64", "localtime", "ftime", "_ftime_s", "timespec_get", "nanosleep", "usleep", "sleep", "Sleep",
                "svt_sleep", "svt_av1_sleep", "pthread_cond_timedwait", "sem_timedwait", "WaitForSingleObjectEx", "rdtsc", "__rdtsc"]
NB = "svt_get_full_object_non_blocking"


# ----------------------------------------------------------------------------- H-kahn syntactic scan
def strip_c_comments(src):
    def rep(m):
        s = m.group(0)
        return re.sub(r"[^\n]", " ", s) if s.startswith("/") else s
    return re.sub(r"//[^\n]*|/\*.*?\*/|\"(?:\\.|[^\"\\])*\"|'(?:\\.|[^'\\])*'", rep, src, flags=re.S)


FUNC_START = re.compile(r"^(?![#}\s/*])(?!typedef\b|struct\b|enum\b|union\b|extern\b)[^;{}()]*?\b([A-Za-z_]\w*)\s*\(")


def scan_sites():
    """-> sorted list of (file, function, callee) over Source/Lib/Encoder and Source/Lib/Common (.c and .h files)."""
    root = os.path.join(C.REPO, "Source", "Lib")
    call = re.compile(r"(?<![\w.>])(%s)\s*\(" % "|".join(re.escape(x) for x in TIME_CALLEES + [NB]))
    sites = set()
    nfiles = 0
    for sub in ("Encoder", "Common"):
        for dp, dn, fn in os.walk(os.path.join(root, sub)):
            for f in sorted(fn):
                if not f.endswith((".c", ".h")):
                    continue
                nfiles += 1
                path = os.path.join(dp, f)
                src = strip_c_comments(open(path, errors="replace").read())
                rel = os.path.relpath(path, root)
                cur = "<file scope>"
                depth = 0
                for line in src.split("\n"):
                    if re.match(r'\s*extern\s+"C"', line):
                        continue                   # `extern "C" {` is not a scope
                    if depth == 0:
                        m = FUNC_START.match(line)
                        if m and not line.rstrip().endswith(";"):
                            cur = m.group(1)
                    if depth > 0:                  # depth 0: prototypes, definitions' own names, macros
                        for m in call.finditer(line):
                            sites.add((rel, cur, m.group(1)))
                    depth += line.count("{") - line.count("}")
                    if depth < 0:
                        depth = 0
    return sorted(sites), nfiles


def gen_hkahn(sites):
    def q(s):
        return '"' + s.replace("\\", "\\\\").replace('"', '\\"') + '"'
    lines = ["/-", "  GENERATED by checks/c27.py from the source tree on every run — do not edit.",
             "  Every call site of svt_get_full_object_non_blocking and every clock read / sleep in Source/Lib/{Encoder,Common}",
             "  as (file relative to Source/Lib, enclosing function, callee).  `C27.hkahn_syntactic` checks them against the reviewed",
             "  allow-list `Spec/HKahnAllow.lean`.", "-/", "import SvtVerif.Spec.HKahnAllow", "", "namespace Gen.HKahn", "open HKahnAllow", "",
             "def sites : List Site := ["]
    lines += ["  ⟨%s, %s, %s⟩%s" % (q(a), q(b), q(c), "," if i + 1 < len(sites) else "") for i, (a, b, c) in enumerate(sites)]
    lines += ["]", "", "end Gen.HKahn", ""]
    return "\n".join(lines)


def allow_list():
    src = open(os.path.join(C.LEAN, "SvtVerif", "Spec", "HKahnAllow.lean")).read()
    src = C.strip_lean_comments(src)
    return set(re.findall(r'⟨"([^"]*)",\s*"([^"]*)",\s*"([^"]*)"⟩', src))


# ----------------------------------------------------------------------------- call patterns
def patterns(chk):
    """(name, harness options).  drain: 0 after every send, 1 only at the end, 2 every drain_k sends, 3 random.
    final_nb=1: non-blocking final drain; final_nb=0: the documented blocking svt_av1_enc_get_packet(pic_send_done=1)."""
    r = chk.rng
    ps = [("each", dict(drain=0, final_nb=1)),
          ("each-blockfinal", dict(drain=0, final_nb=0)),
          ("each-delay", dict(drain=0, delay_us=1500, final_nb=1)),
          ("every2", dict(drain=2, drain_k=2, final_nb=1)),
          ("every5-blockfinal", dict(drain=2, drain_k=5, final_nb=0)),
          ("random", dict(drain=3, callseed=1 + r.below(1000), final_nb=1)),
          ("random-delay", dict(drain=3, delay_us=3000, final_nb=1, callseed=1 + r.below(1000))),
          ("end-only", dict(drain=1, final_nb=1))]
    if chk.tier == "thorough":
        ps += [("every3-delay", dict(drain=2, drain_k=3, delay_us=500, final_nb=1)),
               ("every8", dict(drain=2, drain_k=8, final_nb=1)),
               ("random2-blockfinal", dict(drain=3, delay_us=200, callseed=1 + r.below(1000), final_nb=0)),
               ("end-only-blockfinal", dict(drain=1, final_nb=0))]
    return ps


def streams(chk):
    """-> [(family, stream)].  main: enable_tpl_la = 0 (any output difference is a VIOLATION).  tpl: TPL look-ahead on (library
    default), run under CPU contention; a difference there is classified by a differential test (known TPL race, see C04)."""
    E, LP = "cfg.enc_mode", "cfg.logical_processors"
    base = [dict(w=64, h=64, bd=8, content=4, **{E: 8, LP: 4}),
            dict(w=128, h=64, bd=8, content=2, **{E: 8, LP: 1}),
            dict(w=192, h=128, bd=10, content=4, **{E: 7, LP: 4, "cfg.hierarchical_levels": 3}),
            # one and two logical processors: the input / parent-PCS pools are sized to the bare minimum of
            # load_default_buffer_configuration_settings, and a stream longer than that minimum (24 pictures at 4 hierarchical levels) is
            # where an undersized pool blocks send_picture although the application drains after every send (seeded change C27-2)
            dict(w=128, h=128, bd=8, content=4, **{E: 8, LP: 2})]
    if chk.tier == "quick":
        plan = [(0, 1), (0, 2), (1, 2), (0, 9), (1, 9), (2, 9), (0, 33), (1, 60), (3, 60)]
    else:
        plan = [(j, n) for n in (1, 2, 3, 9, 17, 33, 70, 150) for j in range(4)]
    out = []
    for j, n in plan:
        a = dict(base[j])
        a["n"] = n
        out.append(a)
    if chk.tier == "thorough":
        out.append(dict(w=64, h=256, bd=8, content=4, n=40, **{E: 8, LP: 4}))
        out.append(dict(w=256, h=192, bd=8, content=0, n=25, **{E: 6, LP: 16, "cfg.tile_columns": 1}))
        out.append(dict(w=128, h=128, bd=8, content=4, n=60, **{E: 8, LP: 4, "cfg.look_ahead_distance": 0, "cfg.hierarchical_levels": 0}))
    res = []
    for a in out:
        # TPL look-ahead off in the main sweep, except for the minimal-pool streams: the pool minima that matter are the ones of the library
        # default (TPL on forces look_ahead_distance to 0); the TPL race that made TPL-on output irreproducible is repaired (0e5755e)
        a[TPL] = 1 if (a.get(LP, 4) <= 2 and a["n"] >= 60) else 0
        res.append(("main", a))
    tpl = [dict(base[2], n=9), dict(base[0], n=33)]
    if chk.tier == "thorough":
        tpl.append(dict(w=64, h=64, bd=8, content=4, n=5, **{E: 8, LP: 3, "cfg.hierarchical_levels": 2}))
    for a in tpl:
        a[TPL] = 1
        res.append(("tpl", a))
    return res


TPL_PATTERNS = ("each", "every2", "random", "end-only")     # the tpl family uses a few patterns only


def run_opts(a, recon, wd, retry):
    a = dict(a)
    a["seed"] = a.get("seed", 1)
    a["recon"] = recon
    a["decode"] = 0
    a["watchdog"] = wd
    return a


def one_run(job):
    sname, fam, stream, pname, popt, recon = job
    a = dict(stream)
    a.update(popt)           # `callseed` seeds the random call pattern; the content seed stays fixed for the whole stream
    wd = WATCHDOG_END if popt.get("drain") == 1 else WATCHDOG
    a = run_opts(a, recon, wd, False)
    draining = popt.get("drain") == 0
    blockfinal = a.get("final_nb") == 0
    old_aff = None
    if fam == "tpl":
        try:                 # CPU contention (two cores for this worker thread and the encoders it starts) makes the TPL race visible
            old_aff = os.sched_getaffinity(0)
            os.sched_setaffinity(0, set(sorted(old_aff)[:2]))
        except (AttributeError, OSError):
            old_aff = None
    t0 = time.time()
    try:
        # a run that must complete and uses the non-blocking final drain: run_e2e's own retry (alone, 4x watchdog) decides
        # whether a timeout is real; patterns that may legitimately block and the blocking-final-drain runs are not retried by it
        r = e2e(a, wd + 30, retry=(draining and not blockfinal))
        if r["hung"] and draining and blockfinal:
            # a deadlock that needs a particular schedule gets two more chances to show again
            hangs = 1
            last_ok = None
            for _ in range(2):
                r2 = e2e(a, wd + 30)
                if r2["hung"]:
                    hangs += 1
                    break
                last_ok = r2
            r["hang_count"] = hangs
            if hangs >= 2:
                b = dict(a)
                b["final_nb"] = 1
                r["nb_variant_completes"] = complete(e2e(b, wd + 30, retry=True), stream["n"], recon)
            elif last_ok is not None:
                last_ok["unreproduced_timeout"] = True
                r = last_ok
        elif r["hung"] and draining:
            r["hang_count"] = 2          # timed out, and again alone with 4x the watchdog
    finally:
        if old_aff is not None:
            try:
                os.sched_setaffinity(0, old_aff)
            except OSError:
                pass
    r["wall"] = time.time() - t0
    return (sname, fam, stream, pname, popt, recon, a, r)


def pk_of(r):
    return tuple((p["pts"], p["flags"], p["size"], p["crc"]) for p in r["PKT"])


def differential(stream, recon, xa, xb, reps=3):
    """Differential test for an output difference met in the tpl family between the runs xa = (args, result) and xb.
    -> (has the signature of the known TPL race, text)"""
    (aa, ra), (ab, rb) = xa, xb
    pa, pb = pk_of(ra), pk_of(rb)
    i = next((i for i, (p, q) in enumerate(zip(pa, pb)) if p != q), None)
    pts = pa[i][0] if i is not None and pa[i][0] == pb[i][0] else None
    lines = []
    n = stream["n"]
    for label, a, r0 in (("A", aa, ra), ("B", ab, rb)):
        sigs = [pk_of(r0)]
        for _ in range(reps):
            r = e2e(a, a["watchdog"] + 30, retry=True)
            if complete(r, n, a["recon"]):
                sigs.append(pk_of(r))
            if len(set(sigs)) > 1:
                break
        lines.append("call pattern %s re-run %d times: %d distinct packet sequences" % (label, len(sigs) - 1, len(set(sigs))))
        if len(set(sigs)) > 1:
            return True, "\n".join(lines) + "\n=> nondeterministic at a FIXED call pattern: not an effect of the pattern"
    a2, b2 = dict(aa), dict(ab)
    a2[TPL] = 0
    b2[TPL] = 0
    same = True
    for _ in range(2):
        x, y = e2e(a2, a2["watchdog"] + 30, retry=True), e2e(b2, b2["watchdog"] + 30, retry=True)
        if not (complete(x, n, a2["recon"]) and complete(y, n, b2["recon"]) and pk_of(x) == pk_of(y)):
            same = False
    lines.append("with %s=0 the two call patterns %s" % (TPL, "agree" if same else "still differ"))
    if same and pts == 1:
        return True, "\n".join(lines) + "\n=> the difference needs the TPL look-ahead; first differing picture is pts 1"
    return False, "\n".join(lines) + "\n=> NOT the signature of the listed finding (first differing packet pts %s)" % pts


def complete(r, n, recon):
    return (not r["hung"] and not r["crashed"] and r["SETPARAM"] == 0 and not r["ERR"] and r["END"] is not None and
            len(r["PKT"]) == n and (not recon or len(r["RECON"]) == n))


def argline(a):
    return "enc_e2e " + " ".join("%s=%s" % kv for kv in a.items())


def run(chk, only=None):
    # 1. H-kahn syntactic table (regenerated from the current tree), then the proofs
    sites, nfiles = scan_sites()
    gen = gen_hkahn(sites)
    gp = os.path.join(C.LEAN, "SvtVerif", "Gen", "HKahn.lean")
    if not os.path.exists(gp) or open(gp).read() != gen:
        open(gp, "w").write(gen)
    allow = allow_list()
    not_allowed = [s for s in sites if s not in allow]
    nb_sites = [s for s in sites if s[2] == NB]
    pr = chk.proofs(MODULE, trusted_extra=[
        "xlate-lite scanner in checks/c27.py (regex over comment-stripped C: call sites of svt_get_full_object_non_blocking and of "
        "clock / sleep functions, attributed to the enclosing function) and the reviewed allow-list Spec/HKahnAllow.lean",
        "Model/Kahn.lean, Model/Chain.lean are abstract (no correspondence with the C code); Model/Srm.lean is validated by C23's harness",
        "hypothesis H-kahn (C27.HKahn) is NOT proved of the C code; pool_sufficient_partial's demands k_i are NOT instantiated from the code",
        "harness/enc_e2e.c call patterns; FNV-1a 64-bit content hashes stand for byte equality"])
    chk.cov["hkahn_sites"] = ["%s:%s:%s" % s for s in sites]
    chk.cov["hkahn_files_scanned"] = nfiles
    # 2. call-pattern sweep on the real encoder
    C.e2e_exe()
    jobs = []
    strs = only if only is not None else streams(chk)
    pats = patterns(chk)
    strs = [x if isinstance(x, tuple) else ("main", x) for x in strs]
    strs = [x for x in strs if x[0] == "tpl"] + [x for x in strs if x[0] != "tpl"]       # tpl runs overlap (contention)
    for si, (fam, st) in enumerate(strs):
        sname = "s%d_%s_%dx%d_n%d_lp%s" % (si, fam, st["w"], st["h"], st["n"], st.get("cfg.logical_processors", 4))
        for pi, (pname, popt) in enumerate(pats):
            if fam == "tpl":
                if pname not in TPL_PATTERNS:
                    continue
                recons = [1]
            else:
                recons = [1, 0] if (pname in ("each", "random", "every5-blockfinal") and (si % 2 == 0 or chk.tier == "thorough")) else [1]
                if chk.tier == "quick" and pname in ("each-delay", "every2", "random-delay") and (si + pi) % 2:
                    continue
            for rc in recons:
                jobs.append((sname, fam, st, pname, popt, rc))
    results = C.run_parallel(one_run, jobs, workers=PAR)
    by_stream = {}
    for x in results:
        by_stream.setdefault(x[0], []).append(x)
    bad = []
    ncomplete = nblocked = 0
    unrepro = []
    hist_pat, hist_len = {}, {}
    compared = set()
    walls = []
    for sname, xs in by_stream.items():
        ref = None
        for (_, fam, st, pname, popt, recon, a, r) in xs:
            walls.append(r["wall"])
            hist_pat[pname] = hist_pat.get(pname, 0) + 1
            hist_len[str(st["n"])] = hist_len.get(str(st["n"]), 0) + 1
            ok = complete(r, st["n"], recon)
            if r["crashed"]:
                bad.append(("crash", "encoder process died rc=%s\n%s\n%s" % (r["rc"], argline(a), r["stderr"][-500:]), a, None))
                continue
            if r.get("unreproduced_timeout"):
                unrepro.append(argline(a))
            if not ok:
                if popt.get("drain") == 0:
                    if r.get("hang_count", 0) >= 2:
                        key = KEY_DEADLOCK if (r.get("nb_variant_completes") and a.get("final_nb") == 0) else None
                        why = ("the application sits in the blocking svt_av1_enc_get_packet(pic_send_done=1) of its final drain while a "
                               "restoration kernel thread waits in recon_output -> svt_get_empty_object for a free recon buffer: nobody can empty "
                               "the recon queue, no packet can be produced.  The same stream and call pattern with a non-blocking final drain "
                               "(final_nb=1) completes.\n" if key else "")
                        bad.append(("progress", "a drain-after-every-send run did not complete: watchdog timeout (%d s), reproduced on a "
                                    "further run\n%s%s" % (WATCHDOG, why, argline(a)), a, key))
                    elif r["hung"]:
                        unrepro.append(argline(a))
                    else:
                        bad.append(("progress", "a drain-after-every-send run ended abnormally: SETPARAM=%s ERR=%s packets=%d recons=%d of %d\n%s" %
                                    (r["SETPARAM"], r["ERR"][:3], len(r["PKT"]), len(r["RECON"]), st["n"], argline(a)), a, None))
                elif r["hung"] or r["TIMEOUT"]:
                    nblocked += 1            # allowed: the pattern does not drain after each submission
                else:
                    bad.append(("error", "abnormal end (no timeout): SETPARAM=%s ERR=%s packets=%d recons=%d of %d\n%s" %
                                (r["SETPARAM"], r["ERR"][:3], len(r["PKT"]), len(r["RECON"]), st["n"], argline(a)), a, None))
                continue
            ncomplete += 1
            compared.add((sname, pname, recon))
            pk = pk_of(r)
            rec = tuple(sorted((x["pts"], x["crc"]) for x in r["RECON"])) if recon else None
            if ref is None:
                ref = (pk, rec, a, pname, r)
                continue
            if ref[1] is None and rec is not None:
                ref = (ref[0], rec, ref[2], ref[3], ref[4])
            if pk != ref[0]:
                i = next((i for i, (p, q) in enumerate(zip(pk, ref[0])) if p != q), min(len(pk), len(ref[0])))
                bad.append(("output", "two completing call patterns delivered different packets (first difference at packet %d)\n"
                            "pattern %s: %s\npattern %s: %s" % (i, ref[3], argline(ref[2]), pname, argline(a)), a,
                            ("tpl", st, recon, (ref[2], ref[4]), (a, r)) if fam == "tpl" else None))
            elif rec is not None and ref[1] is not None and rec != ref[1]:
                bad.append(("output", "two completing call patterns delivered different reconstructed pictures (packets identical)\n"
                            "pattern %s: %s\npattern %s: %s" % (ref[3], argline(ref[2]), pname, argline(a)), a, None))
    chk.cov["evaluations"] = len(results)
    chk.cov["completed_runs"] = ncomplete
    chk.cov["blocked_runs_of_non_draining_patterns"] = nblocked
    chk.cov["distinct_nontrivial"] = len(compared)
    chk.cov["rule"] = ("distinct (stream, call pattern, recon on/off) triples whose run completed and whose packets (and reconstructions "
                       "where retrieved) were compared byte-wise (content hash) with the other completing patterns of the same stream")
    chk.cov["pattern_histogram"] = hist_pat
    chk.cov["stream_length_histogram"] = hist_len
    chk.cov["streams"] = len(by_stream)
    chk.cov["run_wall_s"] = {"max": round(max(walls), 1) if walls else 0, "mean": round(sum(walls) / max(1, len(walls)), 1)}
    chk.cov["explanation"] = EXPLANATION
    chk.cov["not_done"] = "SRM event traces of the real runs are not replayed through the C23 model (no trace hook in the tree)"
    for x in results[:3]:
        chk.sample({"run": argline(x[6]), "family": x[1], "packets": len(x[7]["PKT"]), "recons": len(x[7]["RECON"]),
                    "complete": complete(x[7], x[2]["n"], x[5])})
    chk.assumptions += ["H-kahn (not proved): no library code branches on emptiness of an application-facing queue or on time",
                        "rate_control_mode = 0 and speed_control_flag = 0 in every swept configuration (rate control is schedule-dependent: C04 finding)",
                        "main sweep with enable_tpl_la = 0 (the TPL look-ahead path is nondeterministic at fixed settings with >= 2 threads: C04 finding); "
                        "TPL-on streams are swept as a labelled family and classified by a differential test",
                        "teardown only after a full drain (F6 excluded)"]
    chk.cov["unreproduced_timeouts"] = unrepro
    seen_keys = set()
    notes = []
    for kind, text, a, key in bad[:8]:
        if isinstance(key, tuple):                  # output difference in the tpl family: differential test
            _, st, recon, xa, xb = key
            known, dtxt = differential(st, recon, xa, xb)
            text += "\ndifferential test:\n" + dtxt
            notes.append(dtxt.replace("\n", "; "))
            key = KEY_TPL if known else None
        if key is not None and key in seen_keys:
            continue
        seen_keys.add(key)
        chk.violation("C27 violated on the real encoder (%s)\n%s\nreplay: bin/check C27 --replay <this file>\nstream: %s\n" %
                      (kind, text, " ".join("%s=%s" % kv for kv in a.items() if k_is_stream(kv[0]))), key=key)
    chk.cov["tpl_family_differences"] = notes
    if chk.violations:
        return
    if not_allowed or len(nb_sites) != 2:
        chk.violation("H-kahn syntactic check: call sites outside the reviewed allow-list (Spec/HKahnAllow.lean):\n%s\n"
                      "callers of %s found: %s\nno call pattern was found on which the real encoder violates the property "
                      "(%d runs, %d completing)\n" % ("\n".join("%s: %s calls %s" % s for s in not_allowed), NB,
                                                     [s for s in nb_sites], len(results), ncomplete), tag="hkahn", found_input=False)
    elif not pr.ok:
        chk.violation("proof obligations no longer check:\n%s\nforbidden tokens: %s\nno input found on which the implementation "
                      "violates the property (%d runs of %d streams compared)\n" %
                      ("\n".join("%s: %s" % x for x in pr.failed.items()), pr.forbidden, len(results), len(by_stream)),
                      tag="proof", found_input=False)


STREAM_KEYS = ("w", "h", "n", "bd", "content")


def k_is_stream(k):
    return k in STREAM_KEYS or k.startswith("cfg.")


def replay(chk, path):
    strs = []
    for line in open(path):
        m = re.match(r"\s*stream:\s*(.+)$", line)
        if m:
            a = {}
            for tok in m.group(1).split():
                k, v = tok.split("=", 1)
                a[k] = int(v) if re.match(r"-?\d+$", v) else v
            strs.append(("tpl" if a.get(TPL, 1) != 0 else "main", a))
    run(chk, strs or None)
