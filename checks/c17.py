"""C17 — concurrent encoder and decoder instances in one process do not interfere.

1. xlate/globals.py regenerates lean/SvtVerif/Gen/Globals.lean: every run-time writable object with static storage duration in
   libSvtAv1Enc.a / libSvtAv1Dec.a (readelf on the objects of build.ninja) with its writers (LLVM-IR taint pass over every TU).
2. Props/C17.lean: the generic non-interference theorems (all traces, all interleavings, any number of instances), their negative
   counterparts, and `globals_classified` / `harmful_globals_exact` over the regenerated table against Spec/GlobalsClass.lean.
3. harness/multi.c runs pairs / triples of REAL encoder and decoder instances in one process (staggered life cycles, different
   presets, bit depths, cpu flags, thread counts, perturbation seeds) and compares every instance's packets / recon / decoded
   pictures with its SOLO run.  Dedicated minimal scenarios reproduce the recorded findings (matched by key); every other
   difference, crash or hang is a VIOLATION.
"""
import hashlib
import os
import re
import subprocess
import sys
import threading
import time
from concurrent.futures import ThreadPoolExecutor
from . import common as C

sys.path.insert(0, os.path.join(C.VERIF, "xlate"))
LEVEL = "other"
MODULE = "SvtVerif.Props.C17"
PAR = 3                     # harness processes in flight (each runs up to 3 instances with a few threads each)

K_BLK = "C17-blk_geom-sb64-vs-sb128"
K_LPG = "C17-lp_group-freed-by-other-handle"
K_DEC = "C17-svt_dec_memory_map-two-decoders"
K_PORT = "C17-port-tables-concurrent-enc_init"


# ----------------------------------------------------------------------------------------------- harness plumbing
def multi_exe():
    import cfgfields
    hdr = os.path.join(C.gen_src_dir(), "cfg_fields.h")
    txt = cfgfields.xmacro_header()
    if not os.path.exists(hdr) or open(hdr).read() != txt:
        open(hdr, "w").write(txt)
    return C.compile_harness("multi", [os.path.join(C.VERIF, "harness", "multi.c")],
                             libs=["libSvtAv1Enc.a", "libSvtAv1Dec.a"], flavour="rel", extra=["-I" + C.gen_src_dir()])


def run_multi(exe, insts, only=None, watchdog=240, env=None):
    """insts: list of description strings.  -> dict(inst={i: sorted lines}, crash, timeout, rc, tail)"""
    argv = [exe, "watchdog=%d" % watchdog] + (["only=%d" % only] if only is not None else []) + ["inst=" + d for d in insts]
    e = dict(os.environ)
    e.pop("SVT_VERIF_PERTURB", None)
    if env:
        e.update(env)
    t0 = time.time()
    try:
        p = subprocess.run(argv, stdout=subprocess.PIPE, stderr=subprocess.DEVNULL, timeout=watchdog * 3 + 120, env=e)
        out, rc = p.stdout.decode("utf-8", "replace"), p.returncode
    except subprocess.TimeoutExpired as ex:
        out, rc = (ex.stdout or b"").decode("utf-8", "replace") + "\nTIMEOUT outer", 124
    res = {"inst": {}, "crash": None, "timeout": None, "rc": rc, "wall": time.time() - t0, "argv": " ".join(argv[1:])}
    for line in out.split("\n"):
        m = re.match(r"I(\d+)(?:\.(r\d+))? (.*)$", line)
        if m:
            res["inst"].setdefault(int(m.group(1)), []).append(((m.group(2) + " ") if m.group(2) else "") + m.group(3))
        elif line.startswith("CRASH"):
            res["crash"] = (res["crash"] + " | " if res["crash"] else "") + line
        elif "(+0x" in line and res["crash"]:
            res.setdefault("bt", []).append(line.strip())
        elif line.startswith("TIMEOUT"):
            res["timeout"] = line
    if rc not in (0, 3, 4, 124) and not res["crash"]:
        res["crash"] = "CRASH rc=%d" % rc
    for i in res["inst"]:
        res["inst"][i].sort()
    return res


class Inst:
    """base: what defines the instance's own behaviour (goes into the solo run); sync: waits / delays (multi run only)."""

    def __init__(self, base, sync="", sb=64, uses_dec=False, tag=""):
        self.base, self.sync, self.sb, self.uses_dec, self.tag = base, sync, sb, uses_dec, tag

    def full(self):
        return self.base + ("," + self.sync if self.sync else "")


class Scenario:
    def __init__(self, name, insts, key=None, perturb=None, what="", attempts=1):
        self.name, self.insts, self.key, self.perturb, self.what, self.attempts = name, insts, key, perturb, what, attempts

    def cmdline(self):
        return " ".join("inst=" + i.full() for i in self.insts) + (" [SVT_VERIF_PERTURB=%s]" % self.perturb if self.perturb else "")


# ----------------------------------------------------------------------------------------------- scenarios
def enc(w, h, n, mode=8, bd=8, cpu=None, lp=2, extra="", seed=1, content=4, decode=0, sb128=False):
    s = "enc,w=%d,h=%d,n=%d,bd=%d,content=%d,seed=%d,cfg.enc_mode=%d,cfg.logical_processors=%d" % (w, h, n, bd, content, seed, mode, lp)
    if cpu is not None:
        s += ",cfg.use_cpu_flags=%d" % cpu
    if sb128:
        s += ",cfg.enable_tpl_la=0"
    if decode:
        s += ",decode=1"
    if extra:
        s += "," + extra
    return s


def known_scenarios(rng, streams, quick=True):
    """Minimal reproductions of the recorded findings (dly values are seeded: 'confirm on a second seed')."""
    j = lambda: rng.range(0, 3000)
    out = []
    # K_BLK: A (64x64 SBs) is initialised, then B (128x128 SBs) is initialised, then A encodes.
    a = Inst(enc(128, 128, 4, mode=8), "frames@1.3,dly.frames=%d" % j(), sb=64)
    b = Inst(enc(128, 128, 2, mode=4, sb128=True), "init@0.3,frames@0.7,dly.init=%d" % j(), sb=128)
    out.append(Scenario("known-blk_geom-A64-then-B128-init", [a, b], key=K_BLK,
                        what="encoder A (enc_mode 8: 64x64 super-blocks) initialised; encoder B (enc_mode 4, enable_tpl_la 0: 128x128 super-blocks) "
                             "initialised (svt_av1_enc_init -> build_blk_geom(1) rebuilds blk_geom_mds / max_sb / max_depth for 128); A then encodes"))
    a = Inst(enc(128, 128, 2, mode=8), "init@1.3,frames@1.7,dly.init=%d" % j(), sb=64)
    b = Inst(enc(128, 128, 3, mode=4, sb128=True), "frames@0.3,dly.frames=%d" % j(), sb=128)
    if not quick:
        out.append(Scenario("known-blk_geom-B128-then-A64-init", [a, b], key=K_BLK,
                            what="encoder B (128x128 super-blocks) initialised; encoder A (64x64 super-blocks) initialised (build_blk_geom(0)); B then encodes"))
    # K_LPG: both handles exist; A finishes and svt_av1_enc_deinit_handle frees lp_group; B (unpin=0) then calls svt_av1_enc_init.
    a = Inst(enc(64, 64, 2, mode=8), "dly.dhandle=%d" % j())
    b = Inst(enc(64, 64, 2, mode=8, extra="cfg.unpin=0"), "handle@0.1,init@0.9,dly.init=%d" % j())
    out.append(Scenario("known-lp_group-deinit_handle-then-init", [a, b], key=K_LPG,
                        what="A and B have handles; A runs to svt_av1_enc_deinit_handle (EB_FREE(lp_group): lp_group = NULL); B (unpin = 0) calls "
                             "svt_av1_enc_init -> svt_set_thread_management_parameters -> lp_group[0].group[i]"))
    # K_DEC: two decoder handles alive together.
    d0 = Inst("dec,w=128,h=128,file=%s" % streams["s1"], "setparam@1.1,dly.setparam=%d" % j(), uses_dec=True)
    d1 = Inst("dec,w=64,h=192,bd=10,file=%s" % streams["s2"], "setparam@0.9,dly.setparam=%d" % j(), uses_dec=True)
    out.append(Scenario("known-two-decoder-handles-sequential-use", [d0, d1], key=K_DEC,
                        what="svt_av1_dec_init_handle(D0); svt_av1_dec_init_handle(D1) (svt_dec_memory_map now heads D1's list); D0 full life cycle; D1 full life cycle"))
    d0 = Inst("dec,w=128,h=128,file=%s" % streams["s1"], "dly.init=%d" % j(), uses_dec=True)
    d1 = Inst("dec,w=64,h=192,bd=10,file=%s" % streams["s2"], "dly.init=%d" % j(), uses_dec=True)
    out.append(Scenario("known-two-decoders-concurrent", [d0, d1], key=K_DEC, what="two decoder instances decoding at the same time"))
    # K_PORT: two svt_av1_enc_init calls of encoders with different process counts at the same time (a race: several attempts)
    a = Inst(enc(64, 64, 2, mode=8, lp=1), "init@1.2")
    b = Inst(enc(128, 64, 2, mode=8, lp=4), "init@0.2")
    out.append(Scenario("known-port-tables-concurrent-init", [a, b], key=K_PORT, attempts=6,
                        what="encoders A (logical_processors 1) and B (logical_processors 4) call svt_av1_enc_init at the same time: each writes ITS process counts "
                             "into the static rate_control_ports[] / enc_dec_ports[] (EbEncHandle.c:1295-1301) and reads them back through "
                             "rate_control_port_lookup / enc_dec_port_lookup while constructing its contexts; with the other instance's counts in between the "
                             "fifo indices are wrong and a kernel thread later dereferences a bad fifo pointer (SIGSEGV in svt_get_empty_object)"))
    return out


def clean_scenarios(chk, streams):
    """Scenarios that avoid the three recorded structures: equal super-block size among overlapping encoders, at most one live decoder
    handle, no unpin=0 init after another handle's deinit_handle.  Everything else varies."""
    rng = chk.rng
    quick = chk.tier == "quick"
    CPU = [None, 0, 0x3f, 0x1ff]          # default (all) / C only / up to SSE4.1 / up to AVX2
    sizes = [(128, 128), (192, 64), (64, 192), (256, 128), (64, 64), (128, 64)]

    def enc64(k, n=None, decode=0):
        w, h = rng.choice(sizes)
        n = min(n, 8) if (n and quick) else n
        return Inst(enc(w, h, n or rng.range(4, 8), mode=rng.choice([8, 8, 7, 6] if not quick else [8, 8, 7]), bd=rng.choice([8, 10]),
                        cpu=rng.choice(CPU), lp=rng.choice([1, 2, 4]), seed=k + 1, content=rng.choice([0, 2, 4]), decode=decode),
                    sb=64, uses_dec=bool(decode))

    def stagger(inst, j):
        """instance starts / initialises / stops relative to instance j.  An ENCODER's svt_av1_enc_init never overlaps another encoder's
        (recorded structure K_PORT): its init waits until instance j has finished its own init (phase >= 3)."""
        step = rng.choice(["handle", "init", "init", "frames", "deinit"])
        ph = rng.choice([3, 4, 4, 5, 6, 7])
        items = ["%s@%d.%d" % (step, j, ph), "dly.%s=%d" % (step, rng.range(0, 20000)), "fdly=%d" % rng.choice([0, 0, 2000])]
        if inst.base.startswith("enc") and step in ("frames", "deinit"):
            items.insert(0, "init@%d.%d" % (j, rng.choice([3, 4, 5])))
        inst.sync = ",".join(items)
        return inst

    out = []
    nrand = 5 if quick else 56
    for k in range(nrand):
        kind = k % 5
        if kind == 0:      # two encoders, B's init lands while A is mid-encode
            a, b = enc64(0, n=rng.range(8, 14)), stagger(enc64(1), 0)
            b.sync = "init@0.%d,dly.init=%d" % (rng.choice([4, 5, 6]), rng.range(0, 30000))
            ins = [a, b]
        elif kind == 1:    # encoder + decoder instance
            a = enc64(0, n=rng.range(6, 12))
            s = rng.choice(["s1", "s2"])
            d = Inst("dec,w=%d,h=%d,bd=%d,file=%s,threads=1" % (streams[s + "_w"], streams[s + "_h"], streams[s + "_bd"], streams[s]), uses_dec=True)
            ins = [a, stagger(d, 0)]
        elif kind == 2:    # triple: two encoders + one decoder
            a, b = enc64(0, n=rng.range(6, 10)), stagger(enc64(1), 0)
            s = rng.choice(["s1", "s2"])
            d = Inst("dec,w=%d,h=%d,bd=%d,file=%s,threads=1,fdly=%d" % (streams[s + "_w"], streams[s + "_h"], streams[s + "_bd"], streams[s],
                                                                        rng.choice([0, 3000])), uses_dec=True)
            ins = [a, b, stagger(d, rng.choice([0, 1]))]
        elif kind == 3:    # encoder whose own trailing decode overlaps another encoder; stop/start churn
            a, b = enc64(0, n=rng.range(3, 6), decode=1), stagger(enc64(1, n=rng.range(8, 14)), 0)
            ins = [a, b]
        else:              # three encoders, staggered start and stop
            a, b, c = enc64(0, n=rng.range(8, 12)), stagger(enc64(1), 0), stagger(enc64(2), 1)
            ins = [a, b, c]
        pert = None
        if rng.chance(1, 2):
            pert = "%d:%d:%d" % (rng.range(1, 10 ** 6), rng.choice([5, 10, 25]), rng.choice([100, 300, 1000]))
        out.append(Scenario("clean-%d-kind%d" % (k, kind), ins, perturb=pert))
    # fixed clean scenarios
    # (a) different SB sizes, but strictly one after the other (every init rebuilds the geometry for itself)
    a = Inst(enc(128, 128, 3, mode=8), sb=64)
    b = Inst(enc(128, 128, 2, mode=4, sb128=True), "handle@0.9", sb=128)
    c = Inst(enc(64, 128, 3, mode=8, bd=10), "handle@1.9", sb=64)
    out.append(Scenario("clean-sequential-sb64-sb128-sb64", [a, b, c]))
    # (b) two decoders strictly one after the other, an encoder running across both
    d0 = Inst("dec,w=128,h=128,file=%s" % streams["s1"], uses_dec=True)
    d1 = Inst("dec,w=64,h=192,bd=10,file=%s" % streams["s2"], "handle@0.9", uses_dec=True)
    e = Inst(enc(128, 64, 14, mode=8, cpu=0), sb=64)
    out.append(Scenario("clean-sequential-decoders-with-encoder", [d0, d1, e]))
    # (c) pinned encoders whose deinit_handle comes after the other one's init
    a = Inst(enc(64, 64, 4, mode=8, lp=1, extra="cfg.unpin=0"), "dhandle@1.3", sb=64)
    b = Inst(enc(128, 64, 4, mode=8, lp=4, extra="cfg.unpin=0"), "init@0.3,dhandle@0.3", sb=64)
    out.append(Scenario("clean-pinned-encoders-overlapping", [a, b]))
    if not quick:
        # (d) two 128x128-SB encoders (presets 4 and 3), init of the second during the first one's encode
        a = Inst(enc(128, 128, 4, mode=4, sb128=True), sb=128)
        b = Inst(enc(128, 64, 2, mode=3, sb128=True, bd=10), "init@0.4", sb=128)
        out.append(Scenario("clean-two-sb128-encoders", [a, b]))
        # (e) C-only encoder next to an all-flags encoder with a churn of short-lived instances (RTCD pointers rewritten 10 times)
        a = Inst(enc(128, 128, 30, mode=8, cpu=0), sb=64)
        b = Inst(enc(64, 64, 1, mode=8, extra="rep=10"), "handle@0.4", sb=64)      # its inits all come after A's
        out.append(Scenario("clean-rtcd-churn-C-vs-all", [a, b]))
        # (g) init storms: 20 life cycles of a short-lived encoder while a long encode of the same super-block size runs
        a = Inst(enc(128, 128, 40, mode=8), sb=64)
        b = Inst(enc(64, 64, 1, mode=8, lp=1, extra="rep=20"), "handle@0.4", sb=64)
        out.append(Scenario("clean-init-storm-sb64", [a, b]))
        a = Inst(enc(128, 128, 5, mode=4, sb128=True), sb=128)
        b = Inst(enc(64, 64, 1, mode=4, sb128=True, extra="rep=8"), "handle@0.4", sb=128)
        out.append(Scenario("clean-init-storm-sb128-wedge", [a, b]))
        # (f) film grain in ONE instance, plain encoder beside it
        a = Inst(enc(128, 128, 10, mode=8, content=0, extra="cfg.film_grain_denoise_strength=10", decode=1), sb=64, uses_dec=True)
        b = Inst(enc(128, 128, 10, mode=8, bd=10), "init@0.4", sb=64)
        out.append(Scenario("clean-film-grain-one-instance", [a, b]))
    return out


def structure_ok(sc):
    """A generated clean scenario must not contain a recorded structure (guards the generator itself)."""
    if sum(1 for i in sc.insts if i.uses_dec) > 1 and not any("handle@" in i.sync and ".9" in i.sync for i in sc.insts):
        return False
    return True


# ----------------------------------------------------------------------------------------------- evaluation
def make_streams(exe, st):
    """Two bitstreams for the decoder instances, produced by solo encoder runs."""
    for k in ("s1", "s2"):
        p = st[k]
        if os.path.exists(p):
            os.unlink(p)
        r = run_multi(exe, [enc(st[k + "_w"], st[k + "_h"], 8, mode=8, bd=st[k + "_bd"]) + ",dump=" + p])
        if not os.path.exists(p) or os.path.getsize(p) == 0:
            raise C.BuildError("could not produce the test bitstream %s: %s" % (k, r))


def summarize(lines):
    return "%d lines, sha %s" % (len(lines), hashlib.sha256("\n".join(lines).encode()).hexdigest()[:12])


def first_diff(a, b):
    sa, sb = set(a), set(b)
    only_s = sorted(sa - sb)[:3]
    only_m = sorted(sb - sa)[:3]
    return "solo only: %s | concurrent only: %s" % (only_s, only_m)


def evaluate(chk, exe, scenarios):
    """Run every scenario + the solo run of every distinct instance.  -> list of (scenario, failures[list of str], result)"""
    solo_cache = {}
    solo_jobs = []
    for sc in scenarios:
        for i in sc.insts:
            if i.base not in solo_cache:
                solo_cache[i.base] = None
                solo_jobs.append(i.base)

    def do_solo(base):
        return base, run_multi(exe, [base], only=0)

    def do_multi(sc):
        env = {"SVT_VERIF_PERTURB": sc.perturb} if sc.perturb else None
        return run_multi(exe, [i.full() for i in sc.insts], env=env)
    jobs = [sc for sc in scenarios for _ in range(max(1, sc.attempts))]       # a race scenario is attempted several times
    with ThreadPoolExecutor(max_workers=PAR) as ex:
        for base, r in ex.map(do_solo, solo_jobs):
            solo_cache[base] = r
        multis = list(ex.map(do_multi, jobs))
    results = []
    nondet = chk.cov.setdefault("solo_nondeterministic_configurations", [])
    k = 0
    for sc in scenarios:
        rs = multis[k:k + max(1, sc.attempts)]
        k += max(1, sc.attempts)
        judged = [(judge(sc, r, solo_cache, exe, nondet), r) for r in rs]
        bad = [x for x in judged if x[0]]
        fails, r = bad[0] if bad else judged[0]
        r["tries"] = len(rs)
        r["tries_failed"] = len(bad)
        results.append((sc, fails, r))
    return results, solo_cache


SOLO_REPEATS = 5


def solo_variants(exe, base, solo_cache):
    """The set of outputs the instance produces ALONE over several runs (an encoder whose output depends on the interleaving of its own
    threads is property C04's business; C17 only asks whether the presence of other instances adds anything)."""
    key = ("variants", base)
    cur = solo_cache.get(key) or [solo_cache[base]["inst"].get(0, [])]
    with ThreadPoolExecutor(max_workers=PAR) as ex:
        rs = list(ex.map(lambda _: run_multi(exe, [base], only=0), range(SOLO_REPEATS)))
    solo_cache[key] = cur + [r["inst"].get(0, []) for r in rs if not r["crash"] and not r["timeout"]]
    return solo_cache[key]


def judge(sc, r, solo_cache, exe=None, nondet=None):
    """-> list of failure strings; [] = every instance equals its solo run; None-marked entries start with 'DISCARD'."""
    if True:
        fails = []
        if r["crash"]:
            fails.append("process crashed: %s" % r["crash"])
        if r["timeout"]:
            fails.append("watchdog: %s" % r["timeout"])
        for k, i in enumerate(sc.insts):
            s = solo_cache[i.base]
            sl = s["inst"].get(0, [])
            if s["crash"] or s["timeout"] or not any(l.startswith("END") or " END" in l for l in sl):
                return ["DISCARD: SOLO run of instance %d is itself abnormal (%s %s): %s" % (k, s["crash"], s["timeout"], i.base)]
            ml = r["inst"].get(k, [])
            if ml != sl and exe is not None and not r["crash"] and not r["timeout"]:
                var = solo_cache.get(("variants", i.base), [])
                for _round in range(3):          # up to 1 + 15 solo runs: a minority outcome of 25% is then missed with probability 1%
                    if ml in var:
                        break
                    var = solo_variants(exe, i.base, solo_cache)
                if len(set(tuple(v) for v in var)) > 1 and nondet is not None and i.base not in nondet:
                    nondet.append(i.base)
                if ml in var:
                    continue        # equals one of the outputs the instance also produces alone
            if ml != sl:
                fails.append("instance %d differs from its solo run (%s vs solo %s): %s" % (k, summarize(ml), summarize(sl), first_diff(sl, ml)))
        if fails and r.get("bt"):
            fails.append("backtrace of the faulting thread: " + " ".join(r["bt"][:6]))
        return fails


def confirm(chk, exe, sc, solo_cache):
    """A failing clean scenario is re-run (same seed, then without perturbation) and its solo runs are repeated, so that the replay
    says whether the failure is deterministic and whether the solo output itself is stable."""
    notes = []
    for tag, env in (("same perturbation", {"SVT_VERIF_PERTURB": sc.perturb} if sc.perturb else None), ("no perturbation", None)):
        r = run_multi(exe, [i.full() for i in sc.insts], env=env)
        bad = bool(r["crash"] or r["timeout"]) or any(r["inst"].get(k, []) != solo_cache[i.base]["inst"].get(0, []) for k, i in enumerate(sc.insts))
        notes.append("re-run (%s): %s" % (tag, "fails again" if bad else "passes"))
    unstable = []
    for i in sc.insts:
        r2 = run_multi(exe, [i.base], only=0)
        if r2["inst"].get(0, []) != solo_cache[i.base]["inst"].get(0, []):
            unstable.append(i.base)
    notes.append("solo runs repeated: %s" % ("STABLE" if not unstable else "UNSTABLE for %s (single-instance nondeterminism: property C04)" % unstable))
    return notes


def class_dump():
    """Evaluate Spec.GlobalsClass.classOf over the generated table (one lean process) -> {class: count}, unclassified names."""
    f = os.path.join(C.CACHE, "audit", "c17_classes.lean")
    os.makedirs(os.path.dirname(f), exist_ok=True)
    open(f, "w").write(
        "import SvtVerif.Gen.Globals\nimport SvtVerif.Spec.GlobalsClass\nopen SvtVerif.NonInterf SvtVerif.Spec.GlobalsClass\n"
        "#eval IO.println (\"CLASSES \" ++ toString ([Class.writeOnceConstant, .lockedCounter, .instanceDependent, .transientRebuild, .unclassified].map "
        "(fun c => (SvtVerif.Gen.Globals.all.filter (fun g => classOf g == c)).length)))\n"
        "#eval IO.println (\"RTCD \" ++ toString (SvtVerif.Gen.Globals.all.filter isRtcdPointer).length)\n"
        "#eval IO.println (\"UNCLASSIFIED \" ++ toString ((SvtVerif.Gen.Globals.all.filter (fun g => classOf g == .unclassified)).map "
        "(fun g => g.file ++ \":\" ++ g.name ++ \" writers=\" ++ toString g.writers ++ \" through=\" ++ toString g.derefWriters)))\n"
        "#eval IO.println (\"HARMFUL \" ++ toString C17dump)\n".replace("C17dump", "((SvtVerif.Gen.Globals.all.filter (fun g => harmful (classOf g) && !isRtcdPointer g)).map (·.name))"))
    with C.FileLock("lake"):
        rc, out = C.sh(["lake", "env", "lean", f], cwd=C.LEAN, timeout=1800)
    res = {"raw": out[-1500:] if rc != 0 else ""}
    m = re.search(r"CLASSES \[(.*?)\]", out)
    if m:
        v = [int(x) for x in m.group(1).split(",")]
        res["classes"] = dict(zip(["writeOnceConstant", "lockedCounter", "instanceDependent", "transientRebuild", "unclassified"], v))
    m = re.search(r"RTCD (\d+)", out)
    if m:
        res["rtcd"] = int(m.group(1))
    m = re.search(r"UNCLASSIFIED \[(.*)\]", out)
    res["unclassified"] = m.group(1) if m else None
    m = re.search(r"HARMFUL \[(.*)\]", out)
    res["harmful"] = [x.strip() for x in m.group(1).split(",")] if m else None
    return res


def run(chk, replay_scenario=None):
    import globals as G
    # 1. inventory (translator)
    terr, globs = None, []
    try:
        bd = C.ensure_lib("rel")
        globs = G.regenerate(bd, C.CACHE, C.LEAN, C.log)
    except Exception as ex:            # noqa: BLE001 - any translator failure is reported, not swallowed
        terr = "%s: %s" % (type(ex).__name__, str(ex)[-1500:])
    # 3. real instances: started now, in the background, while the proofs build (scenario list fixed first: it uses chk.rng)
    streams = {"s1": os.path.join(C.gen_src_dir(), "c17_s1.bin"), "s2": os.path.join(C.gen_src_dir(), "c17_s2.bin"),
               "s1_w": 128, "s1_h": 128, "s1_bd": 8, "s2_w": 64, "s2_h": 192, "s2_bd": 10}
    scen = known_scenarios(chk.rng, streams, chk.tier == "quick") + [s for s in clean_scenarios(chk, streams) if structure_ok(s)]
    if replay_scenario is not None:
        scen = [replay_scenario]
    box = {}

    def work():
        try:
            exe = multi_exe()
            make_streams(exe, streams)
            box["exe"] = exe
            box["res"] = evaluate(chk, exe, scen)
        except Exception as ex:        # noqa: BLE001
            box["err"] = ex
    th = threading.Thread(target=work)
    th.start()
    # 2. proofs
    pr = None
    cd = {}
    if globs:
        pr = chk.proofs(MODULE, trusted_extra=[
            "xlate/globals.py: inventory = OBJECT symbols in SHF_WRITE sections (minus .data.rel.ro) of every object build.ninja puts into the two static "
            "libraries (readelf; exact for what the linker sees); writers = flow-insensitive pointer-taint pass over clang-14 -O0 LLVM IR of every TU with "
            "per-function summaries (stores, memory intrinsics, libc writers, addresses passed to / returned from library functions); writes through an "
            "address that escapes to an indirect call or is stored in memory are listed as `escapes`, not followed",
            "Spec/GlobalsClass.lean: hand-written reviewed classification (class + reviewed writer set per written global); that a `writeOnceConstant` "
            "writer really stores instance-independent FINAL values (no placeholder first) was established by reading the writer functions",
            "Model/NonInterf.lean: atomic steps, sequentially consistent memory, an instance cannot reach another instance's private state except through "
            "globals (handles are separate heap objects); heap objects owned by a global are folded into that global"])
        cd = class_dump()
    else:
        chk.cov["obligations"], chk.cov["discharged"] = 1, 0
    th.join()
    if "err" in box:
        raise box["err"]
    exe = box["exe"]
    results, solo_cache = box["res"]
    # evidence
    by_sec, by_lib = {}, {}
    for g in globs:
        by_sec[g["section"]] = by_sec.get(g["section"], 0) + 1
        by_lib[g["lib"]] = by_lib.get(g["lib"], 0) + 1
    chk.cov["inventory"] = {"globals": len(globs), "by_section": by_sec, "by_library": by_lib,
                            "written_by_some_function": sum(1 for g in globs if g["writers"] or g["deref"]),
                            "not_analysed": [g["name"] for g in globs if not g["analysed"]][:20],
                            "by_class": cd.get("classes"), "rtcd_dispatch_pointers": cd.get("rtcd"), "harmful_non_rtcd": cd.get("harmful")}
    ninst = sum(len(s.insts) for s in scen)
    chk.cov["evaluations"] = len(scen)
    chk.cov["instance_runs_compared_with_solo"] = ninst
    distinct = set()
    hist = {"pairs": 0, "triples": 0, "with_decoder": 0, "perturbed": 0, "enc_init_during_other_encode": 0, "cpu_flag_mix": 0, "bit_depth_mix": 0}
    for s in scen:
        distinct.add(tuple(sorted(i.base for i in s.insts)) + (tuple(i.sync.split(",")[0] for i in s.insts),))
        hist["pairs" if len(s.insts) == 2 else "triples"] += 1
        hist["with_decoder"] += any(i.uses_dec for i in s.insts)
        hist["perturbed"] += bool(s.perturb)
        hist["enc_init_during_other_encode"] += any(re.search(r"init@\d\.[456]", i.sync) for i in s.insts)
        hist["cpu_flag_mix"] += len(set(re.findall(r"use_cpu_flags=(\d+)", " ".join(i.base for i in s.insts)))) > 0
        hist["bit_depth_mix"] += len(set(re.findall(r"bd=(\d+)", " ".join(i.base for i in s.insts)))) > 1
    chk.cov["distinct_nontrivial"] = len(distinct)
    chk.cov["rule"] = ("distinct (set of instance configurations, stagger pattern) combinations run concurrently in ONE process through harness/multi.c with every "
                       "instance's packets / recon / decoded-picture CRCs compared line by line with the SOLO run of the same configuration in a fresh process")
    chk.cov["scenario_histogram"] = hist
    chk.cov["scenarios"] = [{"name": s.name, "cmd": s.cmdline()[:600], "failed": bool(f), "wall_s": round(r["wall"], 1),
                             "attempts": r.get("tries", 1), "attempts_failed": r.get("tries_failed", 0)} for s, f, r in results][:60]
    chk.cov["explanation"] = (
        "Level `other`: (a) the inventory of writable globals is exact for the linked objects and regenerated every run; its classification is a reviewed table checked "
        "by the kernel (globals_classified, harmful_globals_exact), and the non-interference theorems are proved for all traces / interleavings of the MODEL; (b) the "
        "theorem's hypothesis is false for the current tree (library_is_not_interference_free: 38 named globals + the RTCD dispatch pointers are written from instance "
        "state), so non-interference of the real library is NOT a theorem; (c) which of those are observable is decided by running real instances: four are "
        "(recorded findings: blk_geom for different super-block sizes, lp_group freed by another handle, the decoder's single allocation list, the port tables "
        "under concurrent svt_av1_enc_init; each reproduced by a minimal scenario every run, the last one is a race), the others showed no difference in the runs made (RTCD pointers: equal output for C-only "
        "next to all-flags instances, i.e. consistent with C07; wedge_masks / blk_geom redundancy lists / film-grain statics / resize seed: race windows of microseconds to milliseconds "
        "that the runs, including init storms of 20 life cycles during a long encode, did not hit). An instance whose SOLO output varies between runs (property C04) is "
        "compared with the set of its solo outputs. Data races that do not change output in the runs made are not detected.")
    for s, f, r in results[:3] + results[-2:]:
        chk.sample({"scenario": s.name, "cmd": s.cmdline()[:400], "result": "FAIL: " + f[0][:300] if f else "every instance equals its solo run"})
    chk.assumptions += ["solo reference = the same configuration alone in a fresh process (harness/multi.c only=i)",
                        "clean scenarios avoid the four recorded structures (overlapping encoders of different super-block size, two live decoder handles, "
                        "unpin=0 init after another handle's deinit_handle, two svt_av1_enc_init calls at the same time); those are exercised by the dedicated "
                        "known-* scenarios only",
                        "decoder instances run single-threaded here (multi-threaded decoding is property C09)"]
    # 4. verdicts
    real_fail = False
    discarded = [(s.name, f[0]) for s, f, r in results if f and f[0].startswith("DISCARD")]
    chk.cov["scenarios_discarded_solo_abnormal"] = discarded
    for s, fails, r in results:
        if not fails or fails[0].startswith("DISCARD"):
            continue
        text = ("C17: instances in one process interfere\nscenario: %s\n%s\nargv: multi %s\n%s\n%s\n"
                "replay: bin/check C17 --replay <this file>\nreplay-scenario: %s\n" %
                (s.name, s.what, r["argv"], ("env: SVT_VERIF_PERTURB=" + s.perturb) if s.perturb else "env: -", "\n".join(fails), s.name))
        if s.key is None:
            text += "\n".join(confirm(chk, exe, s, solo_cache)) + "\n"
        if chk.violation(text, key=s.key, tag="replay"):
            real_fail = True
    if real_fail:
        return
    if terr:
        chk.violation("translator xlate/globals.py refused the current tree: %s\nno scenario found in which an instance's output differs from its solo run "
                      "(%d scenarios)\n" % (terr, len(scen)), tag="xlate", found_input=False)
    elif not pr.ok:
        chk.violation("proof obligations no longer check on the regenerated inventory:\n%s\nforbidden tokens: %s\nunclassified globals / unreviewed writers: %s\n"
                      "no scenario found in which an instance's output differs from its solo run (%d scenarios, %d instance runs)\n" %
                      ("\n".join("%s: %s" % kv for kv in pr.failed.items()), pr.forbidden, cd.get("unclassified"), len(scen), ninst),
                      tag="proof", found_input=False)


def scenario_from_argv(text):
    """Rebuild the scenario of a replay file from its `argv: multi ...` and `env:` lines (independent of tier and seed)."""
    m = re.search(r"^argv: multi (.*)$", text, re.M)
    if not m:
        return None
    insts = []
    for d in re.findall(r"inst=(\S+)", m.group(1)):
        items = d.split(",")
        sync = [x for x in items if "@" in x or x.startswith("dly.") or x.startswith("fdly=")]
        base = [x for x in items if x not in sync]
        insts.append(Inst(",".join(base), ",".join(sync), uses_dec=base[0] == "dec" or "decode=1" in base))
    e = re.search(r"^env: SVT_VERIF_PERTURB=(\S+)", text, re.M)
    k = re.search(r"^scenario: (\S+)", text, re.M)
    name = k.group(1) if k else "replayed"
    key = {"known-blk": K_BLK, "known-lp_": K_LPG, "known-two": K_DEC, "known-por": K_PORT}.get(name[:9])
    return Scenario(name, insts, key=key, perturb=e.group(1) if e else None, what="(replayed from file)", attempts=6 if key == K_PORT else 3)


def replay(chk, path):
    sc = scenario_from_argv(open(path).read())
    run(chk, replay_scenario=sc)
