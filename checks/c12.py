"""C12 — svt_av1_enc_set_parameter accepts exactly the documented domain (translator + Lean proof + real-API replay)."""
import os
from . import common as C
from . import configcommon as K

LEVEL = "proof"
MODULE = "SvtVerif.Props.C12"

# Documented ranges that the code does not implement (DESIGN.md section 6, F10).  Each entry: overrides on top of the
# library defaults at 64x64, what the documentation says should happen, and the known-finding key.
DOC_DEVIATIONS = [
    ("rate_control_mode=1 intra_period_length=31 min_qp_allowed=63 max_qp_allowed=63", "accept", "F10-min_qp_allowed-63"),
    ("cdef_level=5", "accept", "F10-cdef_level-5"),
    ("tile_columns=5", "accept", "F10-tile_columns-5"),
    ("tile_columns=6", "accept", "F10-tile_columns-6"),
    ("compressed_ten_bit_format=1", "accept", "F10-compressed_ten_bit_format-1"),
    ("encoder_color_format=2 profile=2", "accept", "F10-encoder_color_format-2"),
    ("encoder_color_format=3 profile=1", "accept", "F10-encoder_color_format-3"),
    ("source_height=32", "accept", "F10-source_height-32"),
    ("source_height=2304", "accept", "F10-source_height-2304"),
    ("pred_structure=77", "reject", "F10-pred_structure-unchecked"),
    ("max_qp_allowed=200", "reject", "F10-max_qp_allowed-unchecked-in-cqp"),
    ("film_grain_denoise_strength=1000", "reject", "F10-film_grain-unchecked"),
    ("altref_nframes=13", "reject", "F10-altref_nframes-13"),
    ("source_width=65600", "reject", "F10-source_width-truncated-16bit"),
]


def run(chk):
    g, terr = K.regenerate()
    pr = chk.proofs(MODULE, trusted_extra=K.TRUSTED) if g else None
    model_ok = bool(g) and pr.build_ok
    nrand = 1500 if chk.tier == "quick" else 40000
    cases = K.gen_cases(chk, nrand)
    lines = [c for c, _ in cases]
    # deviations go through the same pipeline
    dev_lines = []
    for ov, _doc, _key in DOC_DEVIATIONS:
        base = "source_width=64 source_height=64 "
        dev_lines.append("CASE 0 " + base + ov)
    all_lines = lines + dev_lines
    mout = K.run_model(all_lines) if model_ok else None
    # never hand the real library a configuration whose copy the model says runs out of bounds (it corrupts the handle)
    run_idx, skipped_oob, skipped_opaque = [], 0, 0
    for i, l in enumerate(all_lines):
        if mout is not None:
            m = K.kv(mout[i])
            if m.get("oob") == "1":
                skipped_oob += 1
                continue
        if "enable_manual_pred_struct=" in l and not l.rstrip().endswith("enable_manual_pred_struct=0"):
            skipped_opaque += 1
            continue
        if "number_hme_search_region_in_" in l and mout is None:
            continue
        run_idx.append(i)
    rout, rrc = K.run_real([all_lines[i] for i in run_idx])
    real = {}
    for j, i in enumerate(run_idx):
        real[i] = K.kv(rout[j]) if j < len(rout) else {}
    disagree_model, disagree_spec, normal_form_mismatch = [], [], []
    tags = {}
    accepted = rejected = 0
    fired_hist = {}
    for i in run_idx:
        r = real[i]
        if "accept" not in r:
            raise C.BuildError("real harness produced no verdict for: %s (%s)" % (all_lines[i], rout[:3]))
        if r["accept"] == "1":
            accepted += 1
        else:
            rejected += 1
        if i < len(cases):
            tags[cases[i][1]] = tags.get(cases[i][1], 0) + 1
        if mout is not None:
            m = K.kv(mout[i])
            if m["accept"] != m["op"]:
                normal_form_mismatch.append((all_lines[i], mout[i]))
            if m["accept"] != r["accept"]:
                disagree_model.append((all_lines[i], mout[i], rout[run_idx.index(i)]))
            if m["spec"] != r["accept"]:
                disagree_spec.append((all_lines[i], m["spec"], r["accept"]))
            for f in m.get("fired", "").split(","):
                if f:
                    fired_hist[f] = fired_hist.get(f, 0) + 1
    # documented-domain oracle on the listed deviations (known findings, each matched by its own key)
    for k, (ov, doc, key) in enumerate(DOC_DEVIATIONS):
        i = len(lines) + k
        if i not in real:
            continue
        got = "accept" if real[i]["accept"] == "1" else "reject"
        if got != doc:
            chk.violation("documented domain says %s, real svt_av1_enc_set_parameter %ss: defaults at 64x64 plus %s\n" % (doc, got, ov),
                          tag="doc", key=key)
    chk.cov["evaluations"] = len(run_idx)
    chk.cov["distinct_nontrivial"] = len(set(all_lines[i] for i in run_idx if real[i]["accept"] == "0")) + len(
        set(all_lines[i] for i in run_idx if real[i]["accept"] == "1" and i >= 1))
    chk.cov["rule"] = ("configurations = library defaults at 64x64 + overrides: (a) each member at every constant the generated model compares it with, +-1, "
                       "type extremes; (b) pairwise/product grids of the coupled members; (c) seeded random multi-member overrides. Each is run through the REAL "
                       "svt_av1_enc_set_parameter on a fresh handle, the generated Lean model (normal form and operational form) and the hand-written spec. "
                       "distinct_nontrivial = distinct rejected configurations + distinct accepted configurations other than the base")
    chk.cov["accepted_by_real"] = accepted
    chk.cov["rejected_by_real"] = rejected
    chk.cov["case_kinds"] = tags
    chk.cov["rules_fired_histogram"] = dict(sorted(fired_hist.items(), key=lambda kv: int(kv[0])))
    chk.cov["rules_never_fired"] = [i for i in range(getattr(g, "nchecks", 0)) if str(i) not in fired_hist] if g else []
    chk.cov["skipped_model_says_out_of_bounds_copy"] = skipped_oob
    chk.cov["skipped_opaque_manual_pred_struct"] = skipped_opaque
    chk.cov["programs"] = 1
    chk.cov["disagreements_checked"] = len(run_idx)
    for i in (run_idx[len(run_idx) // 3], run_idx[-1]):
        chk.sample({"case": all_lines[i], "real": rout[run_idx.index(i)], "model": mout[i] if mout else None})
    chk.assumptions += ["prior handle state is the fresh-handle state (zero SCS) in the replay; the theorem accept_iff_codeDomain quantifies over every prior state",
                        "configurations with enable_manual_pred_struct != 0 are outside the modelled part (opaque validation loop)"]
    # verdicts
    if disagree_spec:
        l, sp, ra = disagree_spec[0]
        chk.violation("real svt_av1_enc_set_parameter deviates from the specified domain\nconfiguration: %s\nspecification (Spec/ConfigDomain.lean) says %s, real API %s\n"
                      "(%d such configurations in this run)\nreplay: echo '%s' | <setparam harness>\n" %
                      (l, "accept" if sp == "1" else "reject", "accepts" if ra == "1" else "rejects", len(disagree_spec), l))
    elif g is None:
        chk.violation("translator refused the current source: %s\nno configuration found on which the real API deviates from the last checked specification\n" % terr,
                      tag="xlate", found_input=False)
    elif not pr.ok:
        chk.violation("proof obligations no longer check on the regenerated model:\n%s\nforbidden tokens: %s\nno configuration found on which the real API deviates "
                      "from the specification (%d tried)\n" % ("\n".join("%s: %s" % kv for kv in pr.failed.items()), pr.forbidden, len(run_idx)),
                      tag="proof", found_input=False)
    elif disagree_model or normal_form_mismatch:
        d = (disagree_model or normal_form_mismatch)[0]
        chk.violation("generated model and real API disagree (translator validation failed) although the real API matches the specification\n%s\n" % (d,),
                      tag="corr", found_input=False)


def replay(chk, path):
    run(chk)
