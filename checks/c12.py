"""C12 — svt_av1_enc_set_parameter accepts exactly the documented domain (translator + Lean proof + real-API replay)."""
import os
from . import common as C
from . import configcommon as K

LEVEL = "proof"
MODULE = "SvtVerif.Props.C12"

# Documented ranges that the code does not implement (DESIGN.md section 6, F10).  Each entry: overrides on top of the
# library defaults at 64x64, what the documentation says should happen, and the known-finding key.
DOC_DEVIATIONS = [
    ("rate_control_mode=1 intra_period_length=31 min_qp_allowed=63 max_qp_allowed=63", "accept", "F10-min_qp_allowed-63"),
    ("cdef_level=5", "accept", "F10-cdef_level-5"),
    ("tile_columns=5", "accept", "F10-tile_columns-5"),
    ("tile_columns=6", "accept", "F10-tile_columns-6"),
    ("compressed_ten_bit_format=1", "accept", "F10-compressed_ten_bit_format-1"),
    ("encoder_color_format=2 profile=2", "accept", "F10-encoder_color_format-2"),
    ("encoder_color_format=3 profile=1", "accept", "F10-encoder_color_format-3"),
    ("source_height=32", "accept", "F10-source_height-32"),
    ("source_height=2304", "accept", "F10-source_height-2304"),
    ("pred_structure=77", "reject", "F10-pred_structure-unchecked"),
    ("max_qp_allowed=200", "reject", "F10-max_qp_allowed-unchecked-in-cqp"),
    ("film_grain_denoise_strength=1000", "reject", "F10-film_grain-unchecked"),
    ("altref_nframes=13", "reject", "F10-altref_nframes-13"),
    ("source_width=65600", "reject", "F10-source_width-truncated-16bit"),
    # found when the formerly code-defined conjuncts were written out by hand
    ("frame_rate=241", "reject", "F10-frame_rate-241-integer-form"),
    ("frame_rate_numerator=240001 frame_rate_denominator=1000", "reject", "F10-frame_rate-240.001-truncated"),
    ("frame_rate_numerator=16777241 frame_rate_denominator=1", "reject", "F10-frame_rate_numerator-shift-wraps"),
    ("rate_control_mode=1 intra_period_length=200", "accept", "F10-look_ahead-default-exceeds-120"),
    ("enable_hbd_mode_decision=100", "reject", "F10-enable_hbd_mode_decision-unchecked-8bit"),
    ("enable_manual_pred_struct=1 manual_pred_struct_entry_num=0", "reject", "F10-manual_pred_struct_entry_num-0"),
    ("enable_manual_pred_struct=1 manual_pred_struct_entry_num=1 pred_struct_ref_list0[0]=1 pred_struct_ref_list1[0]=-2147483648", "reject",
     "F10-manual_pred_struct-list1-int-overflow"),
    ("number_hme_search_region_in_width=1 hme_level0_total_search_area_width=32 hme_level1_search_area_in_height_array[0]=300 "
     "hme_level1_search_area_in_height_array[1]=300", "reject", "F10-hme-height-summed-over-width-regions"),
]

SPEC = "lean/SvtVerif/Spec/ConfigDomain.lean"


def spec_independent():
    """The hand-written specification must not refer to anything the translator generates except the structures that mirror
    the C structs: -> list of offending (line, name)."""
    import re
    gen = open(os.path.join(C.LEAN, "SvtVerif/Gen/Config.lean")).read()
    names = set(m.group(1).split(".")[-1] for m in re.finditer(r"^(?:def|theorem|abbrev|instance)\s+([\w.]+)", gen, re.M))
    names |= set(m.group(1) for m in re.finditer(r"^(?:def|theorem|abbrev)\s+([\w.]+)", gen, re.M))
    names -= {"WellTyped"}
    src = C.strip_lean_comments(open(os.path.join(C.VERIF, SPEC)).read())
    hits = []
    for i, line in enumerate(src.split("\n"), 1):
        for m in re.finditer(r"[A-Za-z_][\w.']*", line):
            w = m.group(0)
            if w in names or w.split(".")[-1] in names or re.fullmatch(r"rej\d+|h_\w+|Gen\.Config\.\w+", w) or w.startswith("CSem."):
                hits.append((i, w))
    return hits


def run(chk):
    g, terr = K.regenerate()
    pr = chk.proofs(MODULE, trusted_extra=K.TRUSTED) if g else None
    guard_hits = spec_independent() if g else []
    nrand = 1000 if chk.tier == "quick" else 40000
    cases = K.gen_cases(chk, nrand)
    lines = [c for c, _ in cases]
    # deviations go through the same pipeline
    dev_lines = []
    for ov, _doc, _key in DOC_DEVIATIONS:
        base = "source_width=64 source_height=64 "
        dev_lines.append("CASE 0 " + base + ov)
    all_lines = lines + dev_lines
    # the executable model and the executable specification do not depend on the proofs: they are evaluated even when a proof
    # no longer checks, so that a configuration on which the real API leaves the specified domain can be found
    mout = None
    if g:
        try:
            mout = K.run_model(all_lines)
        except (C.BuildError, RuntimeError) as e:
            C.log("[C12] model driver unavailable: %s" % str(e)[-400:])
    # never hand the real library a configuration whose copy the model says runs out of bounds (it corrupts the handle)
    run_idx, skipped_oob, skipped_ub = [], 0, 0
    import re as _re
    for i, l in enumerate(all_lines):
        if mout is not None:
            m = K.kv(mout[i])
            if m.get("oob") == "1":
                skipped_oob += 1
                continue
        elif "number_hme_search_region_in_" in l or "manual_pred_struct_entry_num" in l:
            continue
        mm = _re.search(r"\bhierarchical_levels=(\d+)", l)
        if mm and int(mm.group(1)) >= 31 and _re.search(r"\benable_manual_pred_struct=[1-9]", l):
            skipped_ub += 1      # `1 << hierarchical_levels` with an unvalidated count >= 31: undefined in C (see TRUSTED)
            continue
        run_idx.append(i)
    rout, rrc = K.run_real([all_lines[i] for i in run_idx])
    real = {}
    for j, i in enumerate(run_idx):
        real[i] = K.kv(rout[j]) if j < len(rout) else {}
    disagree_model, disagree_spec, normal_form_mismatch, crashes, mps_crashes = [], [], [], [], []
    pos = {i: j for j, i in enumerate(run_idx)}
    tags = {}
    accepted = rejected = 0
    fired_hist = {}
    for i in run_idx:
        r = real[i]
        if "accept" not in r:
            raise C.BuildError("real harness produced no verdict for: %s (%s)" % (all_lines[i], rout[:3]))
        if "crash" in r:
            if i < len(lines):
                spec_accepts = mout is not None and K.kv(mout[i]).get("spec") == "1"
                (mps_crashes if (_re.search(r"\benable_manual_pred_struct=-?[1-9]", all_lines[i]) and spec_accepts) else crashes).append((all_lines[i], r["crash"]))
            if r["accept"] not in ("0", "1"):
                continue
        if r["accept"] == "1":
            accepted += 1
        else:
            rejected += 1
        if i < len(cases):
            tags[cases[i][1]] = tags.get(cases[i][1], 0) + 1
        if mout is not None:
            m = K.kv(mout[i])
            if m["accept"] != m["op"]:
                normal_form_mismatch.append((all_lines[i], mout[i]))
            if m["accept"] != r["accept"]:
                disagree_model.append((all_lines[i], mout[i], rout[pos[i]]))
            if m["spec"] != r["accept"]:
                disagree_spec.append((all_lines[i], m["spec"], r["accept"]))
            for f in m.get("fired", "").split(","):
                if f:
                    fired_hist[f] = fired_hist.get(f, 0) + 1
    # documented-domain oracle on the listed deviations (known findings, each matched by its own key)
    for k, (ov, doc, key) in enumerate(DOC_DEVIATIONS):
        i = len(lines) + k
        if i not in real:
            continue
        got = ("crash(signal %s)" % real[i]["crash"]) if "crash" in real[i] else "accept" if real[i]["accept"] == "1" else "reject"
        if got != doc:
            chk.violation("documented domain says %s, real svt_av1_enc_set_parameter: %s: defaults at 64x64 plus %s\n" % (doc, got, ov),
                          tag="doc", key=key)
    # accepted manual prediction structures that the library cannot digest (known finding, one key for the family)
    if mps_crashes:
        l, sig = min(mps_crashes, key=lambda x: len(x[0]))
        chk.violation("svt_av1_enc_set_parameter validates a manual prediction structure successfully and then dies / corrupts its heap while building the "
                      "prediction structure (signal %s; %d such configurations in this run: entry count 0 or not a power of two, first list0 cell zero, ...)\nconfiguration: %s\n"
                      % (sig, len(mps_crashes), l), tag="mps-crash", key="F10-manual_pred_struct-accepted-then-crash")
    chk.cov["accepted_manual_pred_structs_crashing_the_library"] = len(mps_crashes)
    chk.cov["evaluations"] = len(run_idx)
    chk.cov["distinct_nontrivial"] = len(set(all_lines[i] for i in run_idx if real[i].get("accept") == "0")) + len(
        set(all_lines[i] for i in run_idx if real[i].get("accept") == "1" and i >= 1))
    chk.cov["rule"] = ("configurations = library defaults at 64x64 + overrides: (a) each member at every constant the generated model compares it with, +-1, "
                       "type extremes; (b) pairwise/product grids of the coupled members; (c) seeded random multi-member overrides. Each is run through the REAL "
                       "svt_av1_enc_set_parameter on a fresh handle, the generated Lean model (normal form and operational form) and the hand-written spec. "
                       "distinct_nontrivial = distinct rejected configurations + distinct accepted configurations other than the base")
    chk.cov["accepted_by_real"] = accepted
    chk.cov["rejected_by_real"] = rejected
    chk.cov["case_kinds"] = tags
    chk.cov["rules_fired_histogram"] = dict(sorted(fired_hist.items(), key=lambda kv: int(kv[0])))
    chk.cov["rules_never_fired"] = [i for i in range(getattr(g, "nchecks", 0)) if str(i) not in fired_hist] if g else []
    chk.cov["skipped_model_says_out_of_bounds_copy"] = skipped_oob
    chk.cov["skipped_undefined_shift_count"] = skipped_ub
    chk.cov["manual_pred_struct_cases_run"] = sum(1 for i in run_idx if _re.search(r"\benable_manual_pred_struct=-?[1-9]", all_lines[i]))
    chk.cov["spec_guard_hits"] = ["%s:%d %s" % (SPEC, ln, w) for ln, w in guard_hits[:10]]
    chk.cov["programs"] = 1
    chk.cov["disagreements_checked"] = len(run_idx)
    for i in (run_idx[len(run_idx) // 3], run_idx[-1]):
        chk.sample({"case": all_lines[i][:600], "real": rout[pos[i]], "model": mout[i] if mout else None})
    chk.assumptions += ["prior handle state is the fresh-handle state (zero SCS) in the replay; the theorem accept_iff_codeDomain quantifies over every prior state",
                        "the theorem assumes every member holds a value of its C type (Cfg.WellTyped / Scs.WellTyped)",
                        "shift counts >= the operand width (undefined in C) are modelled mathematically; such configurations are not replayed"]
    # verdicts
    if disagree_spec:
        l, sp, ra = min(disagree_spec, key=lambda x: len(x[0]))
        chk.violation("real svt_av1_enc_set_parameter deviates from the specified domain\nconfiguration: %s\nspecification (Spec/ConfigDomain.lean) says %s, real API %s\n"
                      "(%d such configurations in this run)\nreplay: echo '%s' | <setparam harness>\n" %
                      (l, "accept" if sp == "1" else "reject", "accepts" if ra == "1" else "rejects", len(disagree_spec), l))
    elif crashes:
        l, sig = crashes[0]
        chk.violation("real svt_av1_enc_set_parameter crashes (signal %s) instead of returning an error code\nconfiguration: %s\n(%d such configurations in this run)\n"
                      "replay: echo '%s' | <setparam harness>\n" % (sig, l, len(crashes), l))
    elif guard_hits:
        chk.violation("the hand-written specification refers to generated definitions (it must be independent of the translated code):\n%s\n"
                      "no configuration found on which the real API deviates from the specification (%d tried)\n"
                      % ("\n".join("%s:%d: %s" % (SPEC, ln, w) for ln, w in guard_hits[:20]), len(run_idx)), tag="spec-guard", found_input=False)
    elif g is None:
        chk.violation("translator refused the current source: %s\nno configuration found on which the real API deviates from the last checked specification\n" % terr,
                      tag="xlate", found_input=False)
    elif not pr.ok:
        chk.violation("proof obligations no longer check on the regenerated model:\n%s\nforbidden tokens: %s\nno configuration found on which the real API deviates "
                      "from the specification (%d tried)\n" % ("\n".join("%s: %s" % kv for kv in pr.failed.items()), pr.forbidden, len(run_idx)),
                      tag="proof", found_input=False)
    elif disagree_model or normal_form_mismatch:
        d = (disagree_model or normal_form_mismatch)[0]
        chk.violation("generated model and real API disagree (translator validation failed) although the real API matches the specification\n%s\n" % (d,),
                      tag="corr", found_input=False)


def replay(chk, path):
    run(chk)
