"""C25 — entropy coder round trip: the real writer (EbBitstreamUnit.c) and the real reader
(EbDecBitstreamUnit.h / EbDecBitReader.h) against the Lean model `svtmodel ec`, plus the property's own oracle
(decoded == written, tables evolve identically, ceil(tell/8) >= bytes) evaluated on the REAL code's output."""
import os
import re
from . import common as C

LEVEL = "proof"
MODULE = "SvtVerif.Props.C25"


# ----------------------------------------------------------------------------- probability tables
def real_default_tables():
    """Default tables of the code base: every AOM_CDFn(...) initialiser of EbCabacContextModel.c (CDF_SHIFT == 0)."""
    path = os.path.join(C.REPO, "Source/Lib/Common/Codec/EbCabacContextModel.c")
    try:
        src = open(path).read()
    except OSError:
        return []
    out = []
    for m in re.finditer(r"AOM_CDF(\d+)\s*\(([^()]*)\)", src):
        n = int(m.group(1))
        try:
            vals = [int(x) for x in m.group(2).replace("\n", " ").split(",") if x.strip()]
        except ValueError:
            continue
        if len(vals) != n - 1 or not (2 <= n <= 16):
            continue
        ic = [32768 - v for v in vals] + [0, 0]
        if valid_cdf(ic, n):
            out.append((n, ic))
    return out


def valid_cdf(c, n):
    """the coder's precondition: n+1 entries, first <= 32767, non-increasing, entry n-1 == 0, counter <= 32"""
    return (len(c) == n + 1 and 2 <= n <= 16 and c[0] <= 32767 and all(c[i] >= c[i + 1] for i in range(n - 1))
            and c[n - 1] == 0 and c[n] <= 32)


def shape_cdf(rng, n, kind):
    if kind == "uniform":
        e = [32768 - (i + 1) * 32768 // n for i in range(n - 1)]
    elif kind == "zeros":          # symbol 0 has (almost) all the mass, the others only EC_MIN_PROB
        e = [0] * (n - 1)
    elif kind == "top":            # last symbol has all the mass
        e = [32767] * (n - 1)
    elif kind == "step1":          # 32767, 32766, ... (steps of 1/32768)
        e = [32767 - i for i in range(n - 1)]
    elif kind == "step1low":       # n-2, ..., 1, 0
        e = [n - 2 - i for i in range(n - 1)]
    elif kind == "mid":
        e = [16384] * (n - 1)
    elif kind == "split":          # half at the top, half at zero
        e = [32767] * ((n - 1) // 2) + [0] * (n - 1 - (n - 1) // 2)
    elif kind == "b64":            # values around multiples of 64 (the >> EC_PROB_SHIFT boundary)
        e = sorted([min(32767, max(0, 64 * rng.range(0, 511) + rng.choice([0, 1, 63]))) for _ in range(n - 1)], reverse=True)
    else:                          # random monotone
        e = sorted([rng.below(32768) for _ in range(n - 1)], reverse=True)
    cnt = rng.choice([0, 0, 0, 14, 15, 16, 30, 31, 32])
    return e + [0, cnt]


SHAPES = ["uniform", "zeros", "top", "step1", "step1low", "mid", "split", "b64", "random", "random"]


# ----------------------------------------------------------------------------- case generation
class Case:
    def __init__(self, kind):
        self.kind = kind
        self.tables = {}   # id -> (n, entries)
        self.ops = []      # tuples ("sym", id, s) ("bool", prob, bit) ("boolq", f, bit) ("lit", nbits, v) ("adapt", a)

    def text(self):
        out = []
        for i in sorted(self.tables):
            n, e = self.tables[i]
            out.append("cdf %d %d %s" % (i, n, " ".join(str(x) for x in e)))
        for o in self.ops:
            out.append("%s %d %d" % o if o[0] != "adapt" else "adapt %d" % o[1])
        out.append("done")
        return "\n".join(out) + "\n"

    def written(self):
        return [o[2] if o[0] != "adapt" else o[1] for o in self.ops]


def pick_symbol(rng, n, mode):
    if mode == 0:
        return rng.below(n)
    if mode == 1:
        return rng.choice([0, n - 1])
    if mode == 2:
        return n - 1 if rng.chance(15, 16) else rng.below(n)
    return 0 if rng.chance(15, 16) else rng.below(n)


def random_case(rng, length, defaults):
    c = Case("random")
    ntab = rng.range(1, 6)
    for i in range(ntab):
        if defaults and rng.chance(1, 4):
            n, e = rng.choice(defaults)
            c.tables[i] = (n, list(e))
        else:
            n = rng.range(2, 16)
            c.tables[i] = (n, shape_cdf(rng, n, rng.choice(SHAPES)))
    c.ops.append(("adapt", rng.below(2)))
    mode = rng.below(4)
    mix = rng.choice([(8, 1, 1, 0), (4, 3, 2, 1), (1, 8, 1, 0), (0, 1, 0, 0), (1, 0, 0, 0), (2, 2, 6, 0)])
    tot = sum(mix)
    fq_ext = [1, 2, 63, 64, 65, 127, 128, 16383, 16384, 16385, 32640, 32703, 32704, 32766, 32767]
    while len(c.ops) < length + 1:
        x = rng.below(tot)
        if x < mix[0]:
            t = rng.below(ntab)
            c.ops.append(("sym", t, pick_symbol(rng, c.tables[t][0], mode)))
        elif x < mix[0] + mix[1]:
            if rng.chance(1, 2):
                f = rng.choice(fq_ext) if rng.chance(1, 2) else rng.range(1, 32767)
                if mode == 0 or rng.chance(1, 8):
                    bit = rng.below(2)
                else:      # modes 1,2: the unlikely value; mode 3: the likely value (f = P(bit = 1))
                    bit = 1 if (f < 16384) == (mode != 3) else 0
                c.ops.append(("boolq", f, bit))
            else:
                c.ops.append(("bool", rng.choice([0, 1, 2, 127, 128, 129, 254, 255, rng.below(256)]), rng.below(2)))
        elif x < mix[0] + mix[1] + mix[2]:
            nb = rng.range(0, 24)
            v = rng.choice([0, (1 << nb) - 1, rng.below(1 << nb)])
            c.ops.append(("lit", nb, v))
        else:
            c.ops.append(("adapt", rng.below(2)))
    return c


def carry_case(rng, length):
    """drives `low` to the top of the interval (cells of 0xFF) and then forces carries into them"""
    c = Case("carry")
    c.tables[0] = (2, [rng.choice([1, 64, 128]), 0, 0])
    c.ops.append(("adapt", 0))
    while len(c.ops) < length + 1:
        run = rng.range(1, 40)
        for _ in range(run):
            # bit 0 with tiny f: interval [v, r) measured from the top -> low barely moves, range stays large;
            # bit 1 with f close to 32768: low += r - v with v ~ r: low moves to the very top of the interval
            c.ops.append(("boolq", rng.choice([32767, 32766, 32704]), 0) if rng.chance(1, 2) else ("sym", 0, 0))
        c.ops.append(("boolq", rng.choice([1, 64, 16384, 32767]), rng.below(2)))
    return c


def long_case(rng, target_bytes, defaults):
    """a single writer that emits more than `target_bytes` bytes (buffer growth, 16/32-bit offsets, long carry chains)"""
    c = Case("long")
    for i in range(3):
        if defaults and i:
            n, e = rng.choice(defaults)
            c.tables[i] = (n, list(e))
        else:
            n = rng.range(2, 16)
            c.tables[i] = (n, shape_cdf(rng, n, rng.choice(SHAPES)))
    c.ops.append(("adapt", rng.below(2)))
    bits = 0
    while bits < 8 * target_bytes:
        x = rng.below(16)
        if x < 12:
            nb = rng.range(16, 24)
            c.ops.append(("lit", nb, rng.choice([(1 << nb) - 1, rng.below(1 << nb), rng.below(1 << nb)])))
            bits += nb
        elif x < 14:
            t = rng.below(3)
            c.ops.append(("sym", t, rng.below(c.tables[t][0])))
        else:
            c.ops.append(("boolq", rng.choice([1, 128, 16384, 32767]), rng.below(2)))
    return c


def exhaustive_cases(tier):
    """every sequence of length <= L over a small op alphabet, with adaptation off and on"""
    tabs = {0: (2, [16384, 0, 0]), 1: (2, [32767, 0, 31]), 2: (3, [4, 2, 0, 15]), 3: (16, [32767 - 3 * i for i in range(15)] + [0, 0])}
    alpha = [("sym", 0, 0), ("sym", 0, 1), ("sym", 1, 0), ("sym", 1, 1), ("sym", 2, 0), ("sym", 2, 1), ("sym", 2, 2),
             ("sym", 3, 0), ("sym", 3, 7), ("sym", 3, 15),
             ("boolq", 1, 0), ("boolq", 1, 1), ("boolq", 32767, 0), ("boolq", 32767, 1), ("bool", 128, 0), ("bool", 128, 1),
             ("lit", 2, 2), ("lit", 9, 341)]
    if tier == "thorough":
        alpha += [("boolq", 16320, 1), ("boolq", 64, 0), ("sym", 3, 1), ("lit", 0, 0)]
    L = 3
    cases = []
    seqs = [[]]
    frontier = [[]]
    for _ in range(L):
        frontier = [s + [a] for s in frontier for a in alpha]
        seqs += frontier
    for ad in (0, 1):
        for s in seqs:
            c = Case("exhaustive")
            used = set(o[1] for o in s if o[0] == "sym")
            c.tables = {i: tabs[i] for i in used}
            c.ops = [("adapt", ad)] + s
            cases.append(c)
    return cases, len(alpha), L


# ----------------------------------------------------------------------------- output parsing
def parse_output(text):
    """-> list of dicts per case"""
    res, cur = [], {"wcdf": {}, "rcdf": {}}
    for line in text.split("\n"):
        if not line:
            continue
        k, _, rest = line.partition(" ")
        if k == "bytes":
            p = rest.split(" ")
            cur["nbytes"] = int(p[0])
            cur["hex"] = p[1] if len(p) > 1 else ""
        elif k == "tell":
            a, _, b = rest.partition("|")
            cur["tells"] = [int(x) for x in a.split()]
            cur["tell"] = int(b)
        elif k in ("wstate", "rstate"):
            cur[k] = [int(x) for x in rest.split()]
        elif k == "dec":
            cur["dec"] = [int(x) for x in rest.split()]
        elif k in ("wcdf", "rcdf"):
            p = [int(x) for x in rest.split()]
            cur[k][p[0]] = p[1:]
        elif k == "end":
            res.append(cur)
            cur = {"wcdf": {}, "rcdf": {}}
        elif k == "bad-op":
            cur["bad"] = True
    return res


def oracle(case, o):
    """the property, on the real code's output; returns None or a description of the violation"""
    if o.get("bad"):
        return "harness rejected an op of a valid sequence"
    if o.get("dec") != case.written():
        w, d = case.written(), o.get("dec", [])
        i = next((j for j in range(min(len(w), len(d))) if w[j] != d[j]), min(len(w), len(d)))
        return "reader did not recover the written sequence: first difference at op %d (%s): wrote %s, read %s" % (
            i, case.ops[i] if i < len(case.ops) else "-", w[i] if i < len(w) else "-", d[i] if i < len(d) else "-")
    if o["wcdf"] != o["rcdf"]:
        t = next(k for k in o["wcdf"] if o["wcdf"][k] != o["rcdf"].get(k))
        return "probability table %d evolved differently: writer %s, reader %s" % (t, o["wcdf"][t], o["rcdf"].get(t))
    if (o["tell"] + 7) // 8 < o["nbytes"] or len(o["hex"]) != 2 * o["nbytes"]:
        return "bit-count estimate under-reports: tell=%d bits (ceil %d bytes) but %d bytes were emitted" % (
            o["tell"], (o["tell"] + 7) // 8, o["nbytes"])
    return None


def build_harness():
    return C.compile_harness("c25_ec", [os.path.join(C.VERIF, "harness", "ec.c"),
                                        os.path.join(C.REPO, "Source/Lib/Common/Codec/EbBitstreamUnit.c")])


def gen_cases(chk):
    defaults = real_default_tables()
    cases, asz, L = exhaustive_cases(chk.tier)
    maxlen = 10000 if chk.tier == "quick" else 100000
    nrand = 500 if chk.tier == "quick" else 1500
    lens = []
    for i in range(nrand):
        m = chk.rng.below(6)
        ln = [chk.rng.range(0, 8), chk.rng.range(0, 64), chk.rng.range(0, 1000), chk.rng.range(0, 1000),
              chk.rng.range(1000, maxlen // 4), chk.rng.range(maxlen // 4, maxlen)][m]
        if i == 0:
            ln = maxlen
        if i == 1:
            ln = 0
        lens.append(ln)
        cases.append(random_case(chk.rng, ln, defaults))
    for i in range(60 if chk.tier == "quick" else 240):
        cases.append(carry_case(chk.rng, chk.rng.range(10, 4000)))
    # streams longer than 2^16 (and, thorough, 2^17 / 2^20) bytes from ONE writer
    for tb in ([70000, 135000] if chk.tier == "quick" else [70000, 135000, 300000, 1100000]):
        cases.append(long_case(chk.rng, tb, defaults))
    # every real default table once, each symbol coded with adaptation on (thorough: all; quick: a sample)
    dsel = defaults if chk.tier == "thorough" else [chk.rng.choice(defaults) for _ in range(300)] if defaults else []
    for k in range(0, len(dsel), 64):
        c = Case("defaults")
        c.ops.append(("adapt", 1))
        for j, (n, e) in enumerate(dsel[k:k + 64]):
            c.tables[j] = (n, list(e))
            for s in range(n):
                c.ops.append(("sym", j, s))
            for _ in range(40):
                c.ops.append(("sym", j, chk.rng.below(n)))
        cases.append(c)
    return cases, dict(alphabet=asz, exh_len=L, maxlen=maxlen, random_lengths=lens, defaults=len(defaults))


def evaluate(chk, cases, info):
    text = "".join(c.text() for c in cases)
    exe = build_harness()
    rc, cout = C.sh([exe], input=text.encode(), timeout=3000)
    if rc != 0:
        # a crash of the real coder on a valid sequence: find the first case that crashes
        for c in cases:
            rc1, _ = C.sh([exe], input=c.text().encode(), timeout=600)
            if rc1 != 0:
                chk.violation("the real writer/reader crashed (exit status %d) on a valid operation sequence\n"
                              "replay: bin/check C25 --replay <this file>\n--- ops ---\n%s" % (rc1, c.text()))
                return None
        raise RuntimeError("harness failed rc=%d: %s" % (rc, cout[-2000:]))
    cres = parse_output(cout)
    if len(cres) != len(cases):
        raise RuntimeError("harness produced %d cases for %d inputs" % (len(cres), len(cases)))
    pr = getattr(chk, "proof_result", None)
    mout = None
    model_err = None
    try:
        mout = C.run_model("ec", text)
    except (C.BuildError, RuntimeError) as e:
        model_err = str(e)
    # --- implementation oracle
    fails = []
    for c, o in zip(cases, cres):
        why = oracle(c, o)
        if why:
            fails.append((c, why))
    # --- correspondence: identical text, case by case
    disagreements = []
    if mout is not None:
        cblocks = (cout.strip() + "\n").split("end\n")
        mblocks = (mout.strip() + "\n").split("end\n")
        for i, c in enumerate(cases):
            cb = cblocks[i].strip() if i < len(cblocks) else ""
            mb = mblocks[i].strip() if i < len(mblocks) else ""
            if cb != mb:
                cl, ml = cb.split("\n"), mb.split("\n")
                j = next((k for k in range(min(len(cl), len(ml))) if cl[k] != ml[k]), min(len(cl), len(ml)))
                disagreements.append((c, (cl[j] if j < len(cl) else "<missing>")[:300], (ml[j] if j < len(ml) else "<missing>")[:300]))
    # --- coverage
    nops = sum(len(c.ops) for c in cases)
    kinds, alph, distinct = {}, {}, set()
    nb_hist, carries, adapt_on, ctr32 = {}, 0, 0, 0
    for c, o in zip(cases, cres):
        kinds[c.kind] = kinds.get(c.kind, 0) + 1
        for n, _ in c.tables.values():
            alph[n] = alph.get(n, 0) + 1
        if o["nbytes"] > 1:
            distinct.add(o["hex"][:64] + ":%d" % o["nbytes"])
        b = len(str(o["nbytes"]))
        nb_hist["1e%d" % b] = nb_hist.get("1e%d" % b, 0) + 1
        carries += o["wstate"][4]
        adapt_on += any(op == ("adapt", 1) for op in c.ops)
        ctr32 += any(t[-1] == 32 for t in o["wcdf"].values())
    chk.cov["evaluations"] = len(cases)
    chk.cov["operations_coded"] = nops
    chk.cov["bytes_emitted"] = sum(o["nbytes"] for o in cres)
    chk.cov["distinct_nontrivial"] = len(distinct)
    chk.cov["rule"] = ("distinct (first 32 bytes, length) of the byte strings emitted by the real writer, counting only cases with "
                       "more than one byte; cases = every op sequence of length <= %d over a %d-op alphabet (adaptation off and on) + "
                       "seeded random sequences (lengths 0..%d, alphabet sizes 2..16, extreme/real-default tables, bool/literal mix) + "
                       "carry-provoking runs + every sampled real default table" % (info["exh_len"], info["alphabet"], info["maxlen"]))
    chk.cov["case_kinds"] = kinds
    chk.cov["alphabet_size_histogram"] = {str(k): v for k, v in sorted(alph.items())}
    chk.cov["bytes_per_case_digits_histogram"] = nb_hist
    chk.cov["carry_cells_total"] = carries
    chk.cov["cases_with_adaptation"] = adapt_on
    chk.cov["cases_counter_saturated_32"] = ctr32
    chk.cov["real_default_tables_found"] = info["defaults"]
    chk.cov["max_case_ops"] = max(len(c.ops) for c in cases)
    chk.cov["disagreements_checked"] = len(cases) if mout is not None else 0
    for c, o in list(zip(cases, cres))[len(cases) // 2:len(cases) // 2 + 2]:
        chk.sample({"kind": c.kind, "ops": len(c.ops), "bytes": o["nbytes"], "tell": o["tell"], "hex_prefix": o["hex"][:32]})
    chk.assumptions += ["valid probability tables: n+1 uint16 entries, entry0 <= 32767, non-increasing, entry n-1 == 0, counter <= 32; 2 <= n <= 16",
                        "bool probabilities 0 < f < 32768 (aom_write prob in 0..255), symbols s < n, literal value < 2^nbits",
                        "realloc in the writer never fails (enc->error paths are C16's subject)",
                        "OdEcWindow is uint32_t (EbBitstreamUnit.h:164)"]
    # --- verdict
    if fails:
        c, why = fails[0]
        chk.violation("entropy coder round trip violated by the real code: %s\n"
                      "failing cases in this run: %d of %d\nreplay: bin/check C25 --replay <this file>\n--- ops ---\n%s" %
                      (why, len(fails), len(cases), c.text()))
    elif pr is not None and not pr.ok:
        chk.violation("proof obligations no longer check:\n%s\nforbidden tokens: %s\n"
                      "no operation sequence found on which the real writer/reader violate the property (%d sequences, %d ops tried)\n" %
                      ("\n".join("%s: %s" % kv for kv in pr.failed.items()) or pr.build_out[-1500:], pr.forbidden, len(cases), nops),
                      tag="proof", found_input=False)
    elif mout is None:
        chk.violation("the Lean model driver could not be run: %s\n"
                      "no operation sequence found on which the real writer/reader violate the property (%d sequences tried)\n" %
                      (model_err, len(cases)), tag="corr", found_input=False)
    elif disagreements:
        c, cl, ml = disagreements[0]
        chk.violation("Lean model and the real coder disagree (the theorems no longer speak about this code), "
                      "but the real round trip still holds on every sequence tried\n"
                      "disagreeing cases: %d of %d\nfirst differing line:\n  C    : %s\n  model: %s\n--- ops ---\n%s" %
                      (len(disagreements), len(cases), cl, ml, c.text()), tag="corr", found_input=False)
    return cres


def run(chk):
    chk.proofs(MODULE, trusted_extra=[
        "hand-written Lean model SvtVerif/Model/RangeCoder.lean of EbBitstreamUnit.c / EbDecBitstreamUnit.h (line-referenced); "
        "tied to the code by byte-exact correspondence (bytes, tell after every op, writer/reader final state, decoded values, final tables)",
        "harness/ec.c: compiles the real EbBitstreamUnit.c and includes the real decoder headers; gcc -O1"])
    cases, info = gen_cases(chk)
    evaluate(chk, cases, info)


def replay(chk, path):
    """re-run the op sequence stored after the `--- ops ---` marker of a replay file"""
    txt = open(path).read()
    body = txt.split("--- ops ---\n", 1)[1] if "--- ops ---\n" in txt else txt
    c = Case("replay")
    for line in body.split("\n"):
        p = line.split()
        if not p:
            continue
        if p[0] == "cdf":
            c.tables[int(p[1])] = (int(p[2]), [int(x) for x in p[3:]])
        elif p[0] == "adapt":
            c.ops.append(("adapt", int(p[1])))
        elif p[0] in ("sym", "bool", "boolq", "lit"):
            c.ops.append((p[0], int(p[1]), int(p[2])))
    chk.proofs(MODULE)
    evaluate(chk, [c], dict(alphabet=0, exh_len=0, maxlen=len(c.ops), random_lengths=[], defaults=0))
